#!/bin/bash
# check.sh <ID> <quick|thorough>     run the check of one property against /repo's current working tree
# check.sh replay <witness.json>     show a witness and re-run the unit it came from
# Env: VERIF_SEED (default 1); VERIF_REPO (default /repo; another tree is linked through a generated -modfile)
set -u
cd "$(dirname "$0")"
ROOT=$(pwd)
export GOFLAGS=-mod=mod GOPROXY=off GOSUMDB=off GOTOOLCHAIN=local
export VERIF_ROOT=$ROOT
REPO=${VERIF_REPO:-/repo}
BIN=$ROOT/bin
MODFLAG=""
MODFLAG_OWN=""
if [ "$REPO" != "/repo" ]; then
  # scratch tree: same harness, replace directives rewritten; separate binaries and evidence
  tag=$(echo "$REPO" | tr '/' '_')
  BIN=$ROOT/bin-alt/$tag
  mkdir -p "$BIN"
  sed "s#=> /repo#=> $REPO#" harness/go.mod > "$BIN/go.mod"
  cp harness/go.sum "$BIN/go.sum"
  MODFLAG="-modfile=$BIN/go.mod"
  sed "s#=> /repo#=> $REPO#" harness/own/go.mod > "$BIN/own.go.mod"
  cp harness/own/go.sum "$BIN/own.go.sum"
  MODFLAG_OWN="-modfile=$BIN/own.go.mod"
  export VERIF_BIN=$BIN
  export VERIF_EVIDENCE=${VERIF_EVIDENCE:-$BIN/evidence}
fi
mkdir -p "$BIN"

build() { # build <driver> [race]
  local d=$1 out="$BIN/$1" flags=""
  if [ "${2:-}" = race ]; then out="$out.race"; flags="-race"; fi
  local tmp="$out.tmp.$$"
  if [ -d harness/own/cmd/$d ]; then
    # drivers of the second harness module: a library module linked with the dependency versions its own go.mod declares
    (cd harness/own && go build $MODFLAG_OWN -tags verif $flags -o "$tmp" ./cmd/$d) || { echo "BUILD-FAILURE driver=$d"; rm -f "$tmp"; return 1; }
    mv -f "$tmp" "$out"
    return 0
  fi
  (cd harness && go build $MODFLAG -tags verif $flags -o "$tmp" ./cmd/$d) || { echo "BUILD-FAILURE driver=$d"; rm -f "$tmp"; return 1; }
  mv -f "$tmp" "$out"
}

if [ "${1:-}" = replay ]; then
  build hrun || exit 3
  for d in hcore hcrypto hbinance hpsown; do { [ -d harness/cmd/$d ] || [ -d harness/own/cmd/$d ]; } && { build $d || exit 3; }; done
  exec "$BIN/hrun" -replay "$2"
fi

ID=${1:?usage: check.sh <ID> <quick|thorough>}
TIER=${2:-quick}
build hrun || exit 3
case "$ID" in
  C02|C03|C04|C06|C07|C12|C14|C15|C16|C17) DRIVERS="hcore" ;;
  C09|C18) DRIVERS="hcrypto" ;;
  C05) DRIVERS="hcrypto hcore" ;;
  C08) DRIVERS="hcrypto hpsown" ;;
  C19) DRIVERS="hbinance" ;;
  C01) DRIVERS="hcrypto hbinance" ;;
  C10|C11|C13) DRIVERS="hcore hcrypto hbinance" ;;
  C20) DRIVERS="hcore:race hcrypto:race hbinance:race" ;;
  *) echo "unknown property $ID"; exit 3 ;;
esac
for d in $DRIVERS; do
  name=${d%%:*}; mode=""; [ "$d" != "$name" ] && mode=race
  [ -d harness/cmd/$name ] || [ -d harness/own/cmd/$name ] || continue
  build $name $mode || exit 3
done
"$BIN/hrun" -prop "$ID" -tier "$TIER"
