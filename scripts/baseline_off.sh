#!/bin/bash
# Runs the repository's own test suite (all six modules) WITHOUT the verif build tag.
# Usage: baseline_off.sh [repo-dir]   (default /repo)
export GOFLAGS=-mod=mod GOPROXY=off GOSUMDB=off GOTOOLCHAIN=local
REPO=${1:-/repo}
rc=0
for m in . ./mpc/binance/ecdsa ./mpc/binance/eddsa ./mpc/bls ./mpc/ps ./test; do
  (cd "$REPO/$m" && go test -vet=off -count=1 -timeout 25m ./...) || rc=1
done
exit $rc
