#!/bin/bash
# seed_regress.sh [names...] : applies every seeded change (default: all under seeded/) to a scratch worktree of /repo's HEAD and runs the
# quick check of its property against it (VERIF_REPO); prints one line per seed. A seed that is not reported is a regression of the checks.
cd "$(dirname "$0")/.."
export GOFLAGS=-mod=mod GOPROXY=off GOSUMDB=off GOTOOLCHAIN=local
names="$@"; [ -z "$names" ] && names=$(ls -d seeded/C*/ | xargs -n1 basename)
mkdir -p /tmp/sr
for n in $names; do
  prop=$(python3 -c "import json;print(json.load(open('seeded/$n/meta.json'))['property'])")
  if python3 -c "import json,sys;sys.exit(0 if 'superseded' in json.load(open('seeded/$n/meta.json')) else 1)"; then echo "$n $prop SUPERSEDED (see meta.json)"; continue; fi
  wt=/tmp/sr/$n
  git -C /repo worktree remove --force $wt >/dev/null 2>&1
  git -C /repo worktree add --detach $wt HEAD -q || { echo "$n WORKTREE-FAILED"; continue; }
  if ! git -C $wt apply /verif/seeded/$n/patch.diff 2>/dev/null; then echo "$n PATCH-DOES-NOT-APPLY"; git -C /repo worktree remove --force $wt; continue; fi
  out=$(VERIF_REPO=$wt VERIF_EVIDENCE=/tmp/ev-sr ./check.sh $prop quick 2>&1); rc=$?
  sig=$(echo "$out" | grep -m1 "signature:" | cut -c1-140)
  echo "$n $prop rc=$rc $(echo "$out" | grep -c '^VIOLATION') viol $sig"
  git -C /repo worktree remove --force $wt >/dev/null 2>&1
  rm -rf bin-alt/_tmp_sr_$n
done
