#!/usr/bin/env python3
"""seed_keep.py <name> <property> <needs> <caught_by>  : copies a verified seeded change from /tmp/seed/<name>.out to /verif/seeded/<name>/"""
import sys, os, shutil, json
name, prop, needs, caught = sys.argv[1:5]
src = f"/tmp/seed/{name}.out"; dst = f"/verif/seeded/{name}"
if os.path.exists(dst): shutil.rmtree(dst)
os.makedirs(dst)
shutil.copy(f"{src}/patch.diff", dst)
shutil.copytree(f"{src}/demo", f"{dst}/demo")
if os.path.exists(f"{src}/notes.md"): shutil.copy(f"{src}/notes.md", dst)
meta = {"property": prop, "name": name, "needs_to_manifest": needs,
  "confirmed_by": f"scripts/seed_verify.sh {name}: demo passes on the unchanged tree, patch applies and builds with and without -tags verif, existing tests of the touched module(s) pass, demo fails with the patch",
  "checked_with": f"VERIF_REPO=/tmp/sv/{name} ./check.sh {prop} quick (scratch worktree with the patch applied; same code path as applying it to /repo)",
  "caught_by": caught}
json.dump(meta, open(f"{dst}/meta.json", "w"), indent=1)
print("kept", dst)
