#!/usr/bin/env python3
"""Generates /verif/MANIFEST.json from the table below (one entry per claimed property)."""
import json, subprocess, os

ROOT = os.path.dirname(os.path.dirname(os.path.abspath(__file__)))

CHECKS = {
    "C02": dict(level="fault_enumeration", engine="hcore",
        technique="runtime monitoring: agreement oracle over recorded hand-overs of the real rbc.Receiver / threshold dispatch under a Byzantine strategy catalogue; delivery schedules enumerated by sleep-set DFS (small N) and sampled",
        text="Every hand-over of a broadcast-class message at an honest party is recorded by harness-owned backends; the oracle groups them by (session, sender, round) and demands byte-identical payloads. Executions: a Byzantine sender with 0..N-3 accomplices (equivocation over every 2-partition of the honest set, self-acknowledgement before/after/instead of the payload, accomplice vouchers for both versions, replays, forged acknowledgements), N=3..5, all inequivalent delivery orders for N=3 (and N=4 up to a bound), PRNG-sampled orders beyond. This is the level a monitor can give: held on the executions produced, exhaustive only for the flagged sub-spaces. Orchestrator-level scenarios include key generation with thresholds below n-1 (the broadcast of a key generation needs the vouchers of all other parties whatever the threshold) and PRNG mixtures of the catalogue's ingredients. The concurrent-dispatch unit of C03 runs under C02 as well; worlds with a single honest party.",
        note="Trusted: the harness's recording backend and simulated network (per-link FIFO, true origin stamped as Source); Byzantine content is taken from the strategy catalogue, not adaptive; schedules beyond the enumerated/sampled ones are not covered.",
        design="2/C02"),
    "C03": dict(level="fault_enumeration", engine="hcore",
        technique="runtime monitoring: integrity oracle joining every hand-over with the per-link delivery log (authentic, member, at most once, non-empty) under the same Byzantine catalogue and schedule enumeration as C02",
        text="Each hand-over to the backend is joined with the log of what was actually delivered on the link from the attributed party to this party (unique payloads make the join exact); multiplicity per (sender, round) must be <= 1, the message non-empty, point-to-point messages handed over as received. Same executions as C02 plus replay/duplication scenarios. A concurrent arm hands both versions of an equivocating participant's broadcast to every honest node from two goroutines at once, with a log sink that is slow exactly at the reliable broadcast's registration messages. Worlds in which all N-1 other participants are Byzantine and vouch for a broadcast nobody transmitted.",
        note="Trusted: harness recorder and simulated network; same residue as C02.",
        design="2/C03"),
    "C04": dict(level="exploration", engine="hcore",
        technique="runtime monitoring: exactly-once totality oracle at quiescence of all-honest runs; all inequivalent delivery interleavings by sleep-set DFS for small configurations, sampled overtaking schedules beyond",
        text="At quiescence of an all-honest run the multiset of hand-overs must equal the script (every broadcast once at every other party, every point-to-point message once at its addressee); a flagged equivocation shows up as a missing later hand-over because all rounds are in flight together. N=2..5(6), several concurrent senders, 1..3 rounds, acknowledgements overtaking payloads counted. Orchestrated configurations include two-byte party identifiers. A third unit lets sessions run to completion (the backend's completing OnMsg returns only after the call returned; every fifth case all parties broadcast byte-identical payloads) and judges a missed deadline by the silence of the event log at that moment. Further units: protocol messages of 1..3 bytes; two consecutive sessions on one topic with the first session's acknowledgements about a party's own broadcasts delivered inside the second.",
        note="Trusted: harness recorder and network; sleep-set independence (deliveries at different receivers commute) relies on parties sharing no state.",
        design="2/C04"),
    "C14": dict(level="exploration", engine="hcore",
        technique="runtime monitoring under a controlled scheduler: the real msg.Box parks at verif yield points (lock boundaries and shared-state accesses), interleavings of concurrent receive/Send calls enumerated by stateless DFS and PRNG schedules; exactly-once/in-order oracle on the handler log; plus a stress arm with real goroutines",
        text="One controlled thread runs at a time; threads waiting for a lock are recognised by their goroutine wait state, so yield points may lie inside critical sections and a shrunk critical section creates new interleavings instead of hiding them. Eleven configurations of concurrent receives and (repeated) first Sends on one or two topics; two enumerated completely in the quick tier, the others up to a bound and then sampled. Oracle at quiescence: every message received for a topic whose Send completed was handed to the dispatcher exactly once, per-sender order = arrival order. Three configurations run the collector on a hand-driven epoch clock whose tick is a schedulable operation. Topics kept active over 3..9 epochs with a real expiry; a sender exactly at the documented limit of unstarted topics.",
        note="Trusted: the hook placement (interleavings are explored at the granularity of the verif yield points of msg/msgbox.go), the harness handler; expiry disabled. Real-scheduler interleavings are covered only by the stress arm.",
        design="2/C14"),
    "C15": dict(level="exploration", engine="hcore",
        technique="runtime monitoring against a reference model written from the statement: generated histories (bursts, topic churn, virtual epoch ticks, idle periods, GC-driving sends) on the real msg.Box with small injected limits; racing first-Send schedules replayed under the controlled scheduler followed by a throttle probe",
        text="The model predicts for every buffered message must-deliver / must-not-deliver / either (bands: limit..limit+1, expired-but-not-yet-swept) and is compared with what each Send releases; a panic on excess traffic kills the child and is reported by the parent. Virtual epoch clock (hand-made ticker) makes expiry deterministic; three real-clock histories cover the real ticker. A second unit replays each interleaving of {buffered; receive || first Send} on three topics and then demands that the sender is still served. A conservation monitor bounds from the released messages alone how many topics a sender held at one instant (limit+1 at most). Excess traffic on topics of 0..40 bytes must be dropped without failing the call; the topic limit is also exercised by concurrent receives under the controlled scheduler.",
        note="Trusted: the reference model (from the statement, not from the code); per-topic limit constant 100 as documented in msgbox.go; expiry judged only after three GC opportunities spaced by more than the expiry.",
        design="2/C15"),
    "C06": dict(level="exploration", engine="hcore",
        technique="runtime monitoring: INIT/ONMSG/SEND events of scripted full-stack sessions compared with the harness's own node->party translation, over PRNG membership maps (non-identity injective, replicas, duplicate party), loud/barrier/silent mode",
        text="Real LoudScheme/SilentScheme objects run scripted key generation and signing over a simulated network with random delivery policies. The oracle demands: Init gets exactly the sorted party ids of the participants; every hand-over is attributed to the party id of the node it arrived from; every point-to-point message the backend emits results in exactly one transmission, to the participant node that represents the addressed party; a session with two nodes of one party returns an error everywhere; all other sessions complete with exactly-once delivery. Identifier 0 and replicas whose non-participating sibling precedes/follows them in the map are generated on purpose.",
        note="Trusted: harness translation table and recorder. Quick tier keeps ids <= 250 so that C13's subject does not leak in; thorough uses the 16-bit range. Completion is judged with a watchdog and a replay with a 5x deadline.",
        design="2/C06"),
    "C12": dict(level="exploration", engine="hcore",
        technique="runtime monitoring of API-call histories on one cluster of real schemes: residue-free reference (every operation's outcome depends on the operation alone), verifPoint holds to make the cleanup/registration windows deterministic, late-replay and foreign-traffic injection, silent-mode re-use sub-oracle with known-finding signatures",
        text="PRNG histories (8..40 operations, 3..5 nodes, 2..4 topics; loud with real disc.Member, barrier and silent mode) of successful, too-few-callers and cancelled KeyGen/Sign calls, cancellation with the continuation parked at a verif point, Sign re-issued the moment the previous one returned (continuation held after the result hand-off), two topics at once, duplicate Sign on a live topic (first session must survive), replay of a finished session's whole traffic (no hand-over, no transmission may result), traffic of a member outside the session and of a non-member during a live session (exactly-once hand-over must still hold). A 'Programming error' panic kills the child and is reported by the parent. Cancellation is also parked inside the protocol instance's Init (between instance creation and handler registration). The context-consultation unit of C11 runs here with a follow-up session on the same topic (residue test); two Sign calls are also brought into the admission step together through the consumer-supplied synchroniser factory; a key generation's second synchronisation is made to fail and its traffic replayed late.",
        note="Trusted: harness recorder/network; silent-mode histories use fresh topics, re-use in silent mode is decided by the c12silent unit whose two failures are recorded as known findings (no small sound repair). Deadlines are watchdogs: a history that hits one is replayed with 5x deadlines before being judged.",
        design="2/C12"),
    "C07": dict(level="exploration", engine="hcore",
        technique="runtime monitoring of real disc.Member objects on a disc-level network: list-validity, pairwise-agreement, exactly-once-continuation and bounded-progress oracles over honest sessions and targeted Byzantine plans built from real Member instances (filtered inputs, re-routed outputs, replays)",
        text="Honest sessions over universes of 2..12 members, participant subsets and identifiers from the whole 16-bit range: exactly-expected callers must all complete with identical valid lists (bounded progress, watchdog + replay), fewer must all fail without continuation, more are judged by the two-outcome, validity and agreement oracles only. Byzantine members are real Member instances under one identifier with filtered inputs and re-routed outputs: partition-and-lie, shadow coalition with a phantom of a silent member (its acknowledgements are re-routed to the honest members), two-faced, replaying outsider/member, response flood. Evidence counts honest completions under attack; a floor requires them. Further plans: late surplus announcer, surplus and view rewrite at a decision point (victim held at a verif point of Synchronize), mirror and crafted lists (the list part of a real instance's transmissions replaced under its real tag).",
        note="Trusted: harness network (per-link FIFO, true origin), the plans (targeted, not exhaustive). Unbounded liveness is restated as completion within a generous deadline with a replay at 5x before judging.",
        design="2/C07"),
    "C13": dict(level="exploration", engine="hcore+hcrypto+hbinance",
        technique="runtime monitoring: completion + exactly-once totality oracle on scripted full-stack sessions whose identifiers are drawn along the byte boundaries of the 16-bit range (all pairs/triples in thorough), rounds 0..127, loud and silent mode",
        text="Sessions of size 2 and 3 (3 makes acknowledgements matter) with node = party identifiers from {0,1,2,127,128,254,255,256,257,511,512,513,32767,32768,65279,65280,65534,65535} and PRNG identifiers elsewhere; key generation then signing with two rounds cycling through 0..127; every session must complete and hand every message over exactly once, i.e. every identifier, view, round and digest one party encoded was decoded to the same value by its peers. Disc-only sessions of 32 members tile the whole 16-bit range (thorough: all 2048 tiles, every identifier value takes part once). A views unit compares rather than round-trips: honest surplus sessions and a Byzantine plan over identifier families that a sloppy comparison could confuse (UTF-16 surrogates, same low/high byte, byte-swapped, decimal digits split elsewhere).",
        note="Trusted: harness recorder/network. BLS/PS/EdDSA key generations with boundary and PRNG 16-bit party identifiers are followed by signing/verifying with objects re-created ONLY from the serialised stored data / ThresholdPK() bytes (units c13crypto, c13adapters). Identifier 0 is not used with the tss-lib adapters (the party key is the Shamir evaluation point).",
        design="2/C13"),
    "C01": dict(level="exploration", engine="hcrypto",
        technique="runtime monitoring: byte-equality of public material across parties and an independent verification of every aggregated subset signature, over BLS key generations run with directly wired backends and through real Loud/Silent schemes on the simulated network (PRNG delivery policies, staggered starts)",
        text="All 2<=t<=n<=6 (thorough 7) directly wired and <=5 (6) through the orchestrator, party identifier sets 1..n, non-contiguous and PRNG (<256, incl. 0); after each key generation fresh signers are re-created from the serialised stored data only and EVERY subset of size >= t signs five kinds of digest (empty, 1 byte, random, leading zeros, 1 KiB), aggregated in PRNG signer order and verified under the threshold key a PRNG-chosen party reports. Orchestrated signing is decided with the scripted backend (C06/C12/C13 checks) and the EdDSA adapter (C19 check): the README states that with BLS the scheme orchestrates key generation only.",
        note="Trusted: IBM/mathlib pairing arithmetic used by the library's own Verifier (the check is the library's verification on independently re-created objects, plus byte equality). Completion judged with a watchdog and one replay at 5x.",
        design="2/C01"),
    "C05": dict(level="fault_enumeration", engine="hcrypto",
        technique="runtime monitoring of BLS/PS key generations in which one participant is a real backend behind a perturbing wrapper (strategy catalogue x victim sets x (n,t) incl. t=n x delivery orders); oracles: consistent-or-error, joint signing of honest completers under the reported key, reveal-after-all-commitments from the event order, no panic/hang",
        text="Sixteen strategies (off-polynomial share received, flipped outgoing share on x and on each y_j, altered commitment/reveal, copy of an honest party's key, malformed/duplicated/withheld share, commitment, reveal, reveal before commitment), every single honest victim and all honest parties as victims. The context is cancelled at quiescence determined from goroutine wait states (no timing guess). The disclosure clause is also judged by content: no 32-byte window of the key an honest party finally reveals may occur in anything it transmitted before it held all commitments. Orchestrator level: a second node of the misbehaving party that is not a participant shows a victim another valid commitment and key while the two nodes vouch for each other (built from re-routed real transmissions).",
        note="Trusted: tag-byte + body layout of share messages (guarded by a re-encoding self-check); the backends' own ClassifyMsg for message classes; equivocation of broadcast-class messages is the reliable broadcast's subject (C02) and is not repeated here.",
        design="2/C05"),
    "C08": dict(level="exploration", engine="hcrypto",
        technique="runtime monitoring: the four calls of the blind-signature pipeline (TPS.Sign, UnBlind, ProveKnowledgeOfSignature, Verifier.Verify) must succeed for every generated configuration, message vector and EVERY signer subset in PRNG order; public material byte-identical",
        text="PS key generations (directly wired; every third through real Loud/Silent schemes) for 2<=t<=n<=5 (6), identifier sets 1..n, {1,2,4,..}, {10,20,..}, PRNG 16-bit; L=1..4; vectors with empty, equal, random and 64 KiB entries. One in-memory request value (ps.Blind) is signed by three signers twice over. A second driver (own Go module) links mpc/ps with the dependency versions its own go.mod declares and runs honest key generations for up to 12 (20) parties followed by the whole signing flow.",
        note="Trusted: the library's own verifier as oracle for completeness (soundness is C09's subject).",
        design="2/C08"),
    "C09": dict(level="exploration", engine="hcrypto",
        technique="runtime monitoring with a perturbation catalogue over genuine objects: every bound component of BLS signatures, PS signing requests and PS proofs altered by one group/field unit or swapped across sessions must be rejected; same object verified/signed twice must give the same verdict; expected verdicts involving Lagrange coefficients come from an independent math/big reference",
        text="About 560 perturbed objects per quick run over six (n,t); includes a proof forged from the public key alone (all G1 components the identity) built outside the package, with a self-check on the rejection reason that reports when the replica of the proof's random oracle no longer matches the build. An adaptive requester re-implemented outside the package (self-checked: its honest request is accepted by the real signer) plants offsets before the challenge and moves or solves statement/proof components afterwards: accepted exactly if the challenge does not bind the component.",
        note="Cryptographic soundness outside the catalogue is not decided by monitoring; a forged object verifying by chance has probability ~2^-250.",
        design="2/C09"),
    "C11": dict(level="fault_enumeration", engine="hcore+hcrypto",
        technique="crash-point enumeration with an outcome oracle: every peer muted after its k-th transmission, every single transmission withheld, context cancelled at quiescence (logical time), by deadline with PRNG phase, or INSIDE a party's k-th send call; every call must return (error, or nil only with a complete/consistent session) within a watchdog, never panic",
        text="Scripted backend through real schemes (barrier, silent, loud with real disc.Member; KeyGen and Sign; unusable stored data), directly wired BLS/PS key generations, and BLS/PS key generation through real Loud/Silent schemes with one node silent after its k-th transmission under a deadline (a panic in a background goroutine after KeyGen returned kills the child and is reported by the parent). A hang is replayed alone with a 5x watchdog before it is reported. Sign through real schemes with the real BLS/PS signers and stored data of every kind (none, garbage, truncated, fewer parties, other scheme, other key generation), followed by further calls on the same objects. Two further units run one caller under a context that ends at its k-th consultation (Err/Done call), for every k: scripted sessions through real schemes and directly wired BLS/PS key generations; plus refused duplicates followed by deadlines and further calls, and contexts that are over before the call.",
        note="Goroutine leaks that never surface as a blocked caller are not detected. tss-lib adapters with short deadlines are added by the hbinance driver when built.",
        design="2/C11"),
    "C18": dict(level="exploration", engine="hcrypto",
        technique="runtime monitoring: (i) secrets dealt with the exported SSS.Gen, shares wrapped as stored data, EVERY subset of size >= t of every (n,t) up to a bound combined through the public API and verified under g2^P(0) (subset spaces enumerated completely); (ii) key generations with exactly one off-polynomial party key (every position, BLS x / PS x and y_j): all abort for t<n, all accept for t=n and delta=0",
        text="BLS n<=7 (9), PS n<=5 (6) for (i); BLS n<=5 (6), PS n<=4 (5) for (ii). A random evaluation decides each polynomial identity up to 2^-240, as the property says. Large committees with high thresholds (up to n=100) with extreme and PRNG subsets. A third unit runs one honest party under a context that ends at its k-th consultation while another party's key is off the polynomial: no party may return key material, wherever the context ends.",
        note="Trusted: mathlib group arithmetic; exported SSS types.",
        design="2/C18"),
    "C16": dict(level="fault_enumeration", engine="hcore",
        technique="runtime monitoring of real TLS listeners: hostile handshake catalogue (field-level through the library's own client with a hostile AuthFunc, encoding-level through a raw TLS client that computes the channel binding itself) interleaved with honest connections; marker <-> connection <-> entitled identity oracle on the InMsg channel after a fence",
        text="About 255 handshakes per quick run: domain (other registered, unregistered, empty, boundary shifted either way), binding (zero, random, truncated, bit flip, whole handshake recorded on another connection), identity (unregistered, foreign certificate, PEM with garbage, non-PEM, RSA, Ed25519, P-384), signature (absent, random, other key, over other binding/domain/timestamp, garbled, truncated), every 4th (thorough: every) truncation length, length-prefix lies, trailing bytes. Valid handshakes must be attributed to exactly the entitled node and domain; the raw client's unmodified handshake is the format self-check. A crash of the acceptor kills the child and is reported by the parent. Identities with foreign key types are also certified by an ECDSA CA; the domain is sent in every ASN.1 string type; every registered identity, one registered without a domain, claims every domain.",
        note="Trusted: crypto/tls, the fence + grace period (a slow machine can only miss a detection). Timestamp staleness is not judged (not in the property's list).",
        design="2/C16"),
    "C17": dict(level="exploration", engine="hcore",
        technique="runtime monitoring of real endpoints on loopback: sequence and multiset comparison of (type, topic, payload) digests per (connection, sending goroutine) over boundary payload sizes and concurrent senders; oversize refusal; fault scenarios (unreachable, closed, stalled, garbling peers) with a healthy-traffic continuity oracle",
        text="Sizes {0,1,31,32,33,255,256,65535,65536,1 MiB,3 MiB,limit-1,limit,limit+1}, types with and without topic, up to 8 concurrent senders to two receivers; five garbling raw clients; three isolation scenarios (thorough adds the saturated queue of an unreachable peer: three 10 s stalls are reported, never a panic). Receiving side: inbound connections stalled before/inside the TLS handshake, the application handshake and a frame must not keep a healthy peer from connecting and delivering.",
        note="Trusted: loopback TCP; 'all received' is bounded by message count with a 60 s watchdog.",
        design="2/C17"),
    "C19": dict(level="exploration", engine="hbinance",
        technique="runtime monitoring of complete tss-lib runs through the adapters with a recording sendMsg: classification table oracle (receiver's ClassifyMsg vs tss-lib's routing flag, non-zero and distinct rounds), independent signature verification (crypto/ed25519, crypto/ecdsa) over boundary digests, digest mix-up sessions, re-attribution and outsider-injection sessions with safety outcome oracles",
        text="EdDSA (n,t) in {(2,1),(3,1),(3,2),(4,2),(4,3)} with identifier sets 1..n, gaps and PRNG 16-bit; ECDSA (2,1) quick, (3,1),(3,2) thorough; EdDSA key generation and orchestrated signing through real Loud/Silent schemes (this also decides C01's orchestrated-signing clause). Outsiders whose identifiers lie between the members' re-send every genuine message first: the session must complete as if nothing happened. Disguised envelopes (type field twice, payload twice, opposite field order) must be classified as the library type tss-lib's own parser decodes them to. The same messages are classified by six goroutines at once on one adapter instance; a member re-labels its broadcast envelopes with another type-URL prefix in a live session (honest completion would mean the library consumed broadcast-class messages that bypassed the reliable broadcast).",
        note="tss-lib v2.0.2 wire bytes carry no embedded sender, so the 'embedded sender differs' clause cannot occur on the wire; the consequence it protects (no message credited to anyone but its transport sender) is what is decided. Trusted: crypto/ed25519, crypto/ecdsa.",
        design="2/C19"),
    "C20": dict(level="other", engine="hcore+hcrypto+hbinance (-race builds)",
        technique="sanitizer: the Go race detector over full-stack sessions with concurrent per-link dispatch, staggered starts, several sessions at once and out-of-phase / duplicated traffic of a misbehaving participant; reports parsed from the detector's log files, de-duplicated by the pair of innermost IBM/TSS frames",
        text="-race builds of all three drivers; scripted, BLS, PS and EdDSA backends; loud and silent mode; the out-of-phase scenarios re-send an earlier session's broadcast-class messages 0..200 us behind each transmission (the detector decides happens-before, the workload only has to make both sides execute without an intervening lock hand-over). A report whose frames are all in the harness is a harness failure (exit 3), reports with third-party frames only are counted, not judged. One scenario re-sends the synchronisation traffic of a finished key generation continuously while further key generations start.",
        note="Reports vary from run to run: the quick tier repeats each scenario 10-12 times, thorough 100-120 times. Interleavings not produced are not covered.",
        design="2/C20"),
    "C10": dict(level="exploration", engine="hcore+hcrypto+hbinance",
        technique="runtime monitoring with structure-aware hostile inputs: a corpus captured from honest runs of this build (sync, MPC, acknowledgement, DKG, adapter messages; stored data, requests, signatures, parameters, proofs) is mutated (prefixes, extensions, header bytes, bit flips, asn.1-aware edits, hostile topics and types) and fed to every entry point in the session states idle / synchronising / running / finished; crash = child death observed by the parent (or a per-call recover that lists every crash site), hang = batch watchdog, wedge = service-continuity probe",
        text="About 430k dispatcher/buffer/synchroniser calls, 7k calls into the built-in schemes' handlers, signers, verifiers and prover, 3k into the EdDSA adapter (thorough: ECDSA too) and 270 hostile handshakes per quick run; Byzantine disc plans (response flood etc.) run under this property with a wedge oracle. After hostile input from non-participants (and from a participant on other topics) the honest session must complete everywhere.",
        note="Documented API-contract panics on local misuse are not exercised. The corpus is whatever this build emits, so a benign format change neither raises an alarm nor silently removes the inputs' structure.",
        design="2/C10"),
}

NOT_YET = {}

def main():
    props = [json.loads(l) for l in open(os.path.join(ROOT, "properties.jsonl"))]
    ids = [p["id"] for p in props]
    hooks_commits = []
    try:
        out = subprocess.check_output(["git", "-C", "/repo", "log", "--format=%H %s"], text=True)
        for l in out.splitlines():
            h, s = l.split(" ", 1)
            if s.startswith("verif hooks"):
                hooks_commits.append(h)
    except Exception:
        pass
    checks = []
    na = []
    for i in ids:
        c = CHECKS.get(i)
        if not c:
            na.append({"property_id": i, "reason": NOT_YET.get(i, "check not built yet in this session (runtime monitoring applies; see DESIGN.md section 2)")})
            continue
        checks.append({
            "property_id": i,
            "quick_cmd": f"./check.sh {i} quick",
            "thorough_cmd": f"./check.sh {i} thorough",
            "evidence_file": f"/verif/evidence/{i}.json",
            "replay_cmd_template": "./check.sh replay {path}",
            "engine": c["engine"],
            "level_claimed": {"category": c["level"], "text": c["text"], "design_ref": "DESIGN.md section " + c["design"]},
            "level_note": c["note"],
            "technique": c["technique"],
        })
    m = {
        "version": 1,
        "setup_cmd": "./setup.sh",
        "hooks": {
            "guard": "verif",
            "enable": "go build -tags verif (Go build tag; check.sh builds every driver with it)",
            "baseline_off_cmd": "/verif/scripts/baseline_off.sh",
            "source_commits": hooks_commits,
            "add_only": True,
        },
        "engines": [
            {"name": "hrun", "path": "/verif/harness/cmd/hrun", "serves_properties": ids, "kind_free_text": "parent process: starts child drivers per shard, survives their death, merges observations, matches known findings, writes evidence"},
            {"name": "hbinance", "path": "/verif/harness/cmd/hbinance", "serves_properties": [i for i in ids if CHECKS.get(i, {}).get("engine", "").find("hbinance") >= 0], "kind_free_text": "runtime monitors over the tss-lib adapters (mpc/binance/ecdsa, mpc/binance/eddsa): recording wiring, classification oracle, independent signature verification, re-attribution and outsider injection"},
            {"name": "hcrypto", "path": "/verif/harness/cmd/hcrypto", "serves_properties": [i for i in ids if CHECKS.get(i, {}).get("engine", "").find("hcrypto") >= 0], "kind_free_text": "runtime monitors over the built-in schemes (mpc/bls, mpc/ps): directly wired key generations with PRNG delivery and goroutine-state quiescence detection, Byzantine wrappers, perturbation catalogue, crash-point enumeration"},
            {"name": "hcore", "path": "/verif/harness/cmd/hcore", "serves_properties": [i for i in ids if CHECKS.get(i, {}).get("engine", "").find("hcore") >= 0], "kind_free_text": "runtime monitors over the core packages (threshold, rbc, disc, msg, net): simulated network, scripted backend, sleep-set DFS over delivery schedules, controlled scheduler over verif yield points"},
        ],
        "checks": checks,
        "not_applicable": na,
        "notes": "Technique family: runtime monitoring and sanitizers. Every check rebuilds its drivers from /repo's working tree with -tags verif, runs the real code under generated hostile workloads and decides with an oracle over recorded events. Exit 0 held / 1 VIOLATION / 2 INCONCLUSIVE / 3 harness failure. known_findings.json lists recorded and fixed defects.",
    }
    json.dump(m, open(os.path.join(ROOT, "MANIFEST.json"), "w"), indent=1)
    print("MANIFEST.json:", len(checks), "checks,", len(na), "not applicable")

if __name__ == "__main__":
    main()
