#!/bin/bash
# sweep.sh <seeds...> : runs every quick check at the given seeds (evidence written elsewhere), prints one line per run
cd "$(dirname "$0")/.."
for s in "$@"; do
  for id in C01 C02 C03 C04 C05 C06 C07 C08 C09 C10 C11 C12 C13 C14 C15 C16 C17 C18 C19 C20; do
    out=$(VERIF_SEED=$s VERIF_EVIDENCE=/tmp/ev-sweep ./check.sh $id quick 2>&1); rc=$?
    echo "seed=$s $id rc=$rc $(echo "$out" | grep -c VIOLATION) viol $(echo "$out" | grep -c INCONCLUSIVE) inconcl $(echo "$out" | grep -c HARNESS) harness"
    if [ $rc -ne 0 ]; then echo "$out" | grep -v "^observed\|KNOWN" | cut -c1-400 | head -8; fi
  done
done
