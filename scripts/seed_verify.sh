#!/bin/bash
# seed_verify.sh <name>   (expects /tmp/seed/<name>.out/{patch.diff,demo/run.sh,notes.md})
# Confirms in a fresh scratch worktree: demo passes on the unchanged tree, patch applies and builds with and
# without the tag, the touched modules' existing tests pass, demo fails with the patch. Leaves /tmp/sv/<name> patched.
set -u
export GOFLAGS=-mod=mod GOPROXY=off GOSUMDB=off GOTOOLCHAIN=local
N=$1; OUT=/tmp/seed/$N.out; WT=/tmp/sv/$N
mkdir -p /tmp/sv
git -C /repo worktree remove --force $WT >/dev/null 2>&1
git -C /repo worktree add -f $WT HEAD >/dev/null 2>&1 || { echo "cannot create worktree"; exit 2; }
echo "== demo on unchanged tree"; bash $OUT/demo/run.sh $WT >/tmp/sv/$N.demo0.log 2>&1; d0=$?; echo "exit=$d0"
(cd $WT && git status --short | grep -v '^??' ; git -C $WT checkout -- . ; git -C $WT clean -fdq)
echo "== apply"; git -C $WT apply $OUT/patch.diff || { echo "patch does not apply"; exit 2; }
git -C $WT diff --stat | tail -3
mods=$(git -C $WT diff --name-only | while read f; do case $f in mpc/bls/*) echo mpc/bls;; mpc/ps/*) echo mpc/ps;; mpc/binance/ecdsa/*) echo mpc/binance/ecdsa;; mpc/binance/eddsa/*) echo mpc/binance/eddsa;; *) echo .;; esac; done | sort -u)
rc=0
for m in $mods; do
  echo "== build+test module $m"
  (cd $WT/$m && go build ./... && go build -tags verif ./... && go test -vet=off -count=1 ./... 2>&1 | tail -8) || rc=1
  if [ "$m" = mpc/bls ]; then (cd $WT/test && go test -vet=off -count=1 ./tbls/... 2>&1 | tail -3); fi
done
echo "== demo on changed tree"; bash $OUT/demo/run.sh $WT >/tmp/sv/$N.demo1.log 2>&1; d1=$?; echo "exit=$d1"
(cd $WT && git clean -fdq)
echo "SUMMARY $N demo_unchanged=$d0 demo_changed=$d1 (want 0 / non-zero)"
