#!/bin/bash
# Builds the framework from files on disk only (offline) and warms the Go build cache.
set -u
cd "$(dirname "$0")"
export GOFLAGS=-mod=mod GOPROXY=off GOSUMDB=off GOTOOLCHAIN=local
mkdir -p bin evidence
rc=0
for d in hrun hcore hcrypto hbinance; do
  [ -d harness/cmd/$d ] || continue
  (cd harness && go build -tags verif -o ../bin/$d ./cmd/$d) || rc=1
done
for d in hcore hcrypto hbinance; do
  [ -d harness/cmd/$d ] || continue
  (cd harness && go build -tags verif -race -o ../bin/$d.race ./cmd/$d) || rc=1
done
# second harness module: mpc/ps linked with the dependency versions its own go.mod declares
if [ -d harness/own/cmd/hpsown ]; then
  (cd harness/own && go build -tags verif -o ../../bin/hpsown ./cmd/hpsown) || rc=1
fi
exit $rc
