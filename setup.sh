#!/bin/bash
# Builds the framework from files on disk only (offline) and warms the Go build cache.
set -u
cd "$(dirname "$0")"
export GOFLAGS=-mod=mod GOPROXY=off GOSUMDB=off GOTOOLCHAIN=local
mkdir -p bin evidence
rc=0
for d in hrun hcore hcrypto hbinance; do
  [ -d harness/cmd/$d ] || continue
  (cd harness && go build -tags verif -o ../bin/$d ./cmd/$d) || rc=1
done
for d in hcore hcrypto hbinance; do
  [ -d harness/cmd/$d ] || continue
  (cd harness && go build -tags verif -race -o ../bin/$d.race ./cmd/$d) || rc=1
done
exit $rc
