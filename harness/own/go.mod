module verifown

go 1.20

// The mpc/ps module linked with exactly the dependency versions ITS OWN go.mod declares (no replace of mathlib): what a consumer
// that imports only mpc/ps gets. The main harness mirrors /repo/test/go.mod, which replaces mathlib by a later pre-release.
require (
	github.com/IBM/TSS/mpc/ps v0.0.0-20230926080141-a58335329fb1
	github.com/IBM/mathlib v0.0.2
)

require (
	github.com/consensys/bavard v0.1.13 // indirect
	github.com/consensys/gnark-crypto v0.9.1 // indirect
	github.com/hyperledger/fabric-amcl v0.0.0-20210603140002-2670f91851c8 // indirect
	github.com/mmcloughlin/addchain v0.4.0 // indirect
	github.com/pkg/errors v0.8.1 // indirect
	golang.org/x/sys v0.2.0 // indirect
	rsc.io/tmplfunc v0.0.3 // indirect
)

replace github.com/IBM/TSS/mpc/ps => /repo/mpc/ps
