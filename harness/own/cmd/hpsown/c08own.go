package main

// C08 under the module's own dependency resolution: honest PS key generations (directly wired, PRNG delivery order is not the
// subject here: synchronous hand-over) for committees up to 12 (thorough 20) parties with full-size random polynomials, then the
// complete signing flow for PRNG signer subsets. The main harness links mpc/ps with the mathlib pre-release that /repo/test/go.mod
// substitutes; a consumer that imports only mpc/ps gets the version mpc/ps/go.mod names.

import (
	"context"
	"fmt"
	"sync"
	"time"

	math "github.com/IBM/mathlib"

	"github.com/IBM/TSS/mpc/ps"

	"verifown/common"
)

var curve = math.Curves[1]

func unitC08own(e common.Env, p *common.Part) {
	p.Rule = "mpc/ps linked with the dependency versions its own go.mod declares (mathlib v0.0.2, no replace): all-honest PS key generations wired directly, n = 2..12 (thorough 20), t in {2, n} and n/2+1 for n <= 8 (thorough 12), message length 1..3, four (thorough twelve) repetitions each with fresh random polynomials; every KeyGen returns nil without panicking, all parties report one threshold key, and for two PRNG signer subsets of size t the whole flow (Blind, TPS.Sign from the stored share, UnBlind, ProveKnowledgeOfSignature, Verifier.Verify) succeeds; distinct key = (n, t, L, repetition); non-trivial always"
	idx := 0
	for n := 2; n <= e.Pick(12, 20); n++ {
		ts := map[int]bool{2: true, n: true}
		if n <= 8 || e.Thorough() && n <= 12 {
			ts[n/2+1] = true // the cross-check enumerates every t-subset: mid thresholds only for small committees
		}
		for t := 2; t <= n; t++ {
			if !ts[t] {
				continue
			}
			for rep := 0; rep < e.Pick(4, 12); rep++ {
				idx++
				if !e.Mine(idx) || p.ViolationCount() >= 3 {
					continue
				}
				L := 1 + idx%3
				key := fmt.Sprintf("ps(own deps) n=%d t=%d L=%d #%d", n, t, L, rep)
				p.Begin(key)
				rng := e.Rng("c08own", n, t, rep)
				ids := make([]uint16, n)
				for i := range ids {
					ids[i] = uint16(i + 1)
				}
				parties := make([]*ps.TPS, n)
				for i := range parties {
					parties[i] = &ps.TPS{MessageLength: L, Curve: curve, Logger: common.Nolog{}, Party: ids[i]}
				}
				var pmu sync.Mutex
				var panics []string
				guard := func(what string, f func()) {
					defer func() {
						if x := recover(); x != nil {
							pmu.Lock()
							panics = append(panics, fmt.Sprintf("%s panicked: %v", what, x))
							pmu.Unlock()
						}
					}()
					f()
				}
				for i := range parties {
					i := i
					parties[i].Init(append([]uint16{}, ids...), t, func(msg []byte, b bool, to uint16) {
						if b {
							for j := range parties {
								if j != i {
									j := j
									guard(fmt.Sprintf("OnMsg at party %d", ids[j]), func() { parties[j].OnMsg(append([]byte{}, msg...), ids[i], true) })
								}
							}
						} else {
							guard(fmt.Sprintf("OnMsg at party %d", to), func() { parties[int(to)-1].OnMsg(append([]byte{}, msg...), ids[i], false) })
						}
					})
				}
				ctx, cancel := context.WithTimeout(context.Background(), 120*time.Second)
				stored := make([][]byte, n)
				errs := make([]error, n)
				var wg sync.WaitGroup
				for i := range parties {
					i := i
					wg.Add(1)
					go func() {
						defer wg.Done()
						guard(fmt.Sprintf("KeyGen of party %d", ids[i]), func() { stored[i], errs[i] = parties[i].KeyGen(ctx) })
					}()
				}
				wg.Wait()
				cancel()
				p.Count("keygens", 1)
				p.Case(key, true)
				viol := ""
				if len(panics) > 0 {
					viol = panics[0]
				}
				for i := range parties {
					if viol == "" && errs[i] != nil {
						viol = fmt.Sprintf("all-honest key generation failed at party %d: %v", ids[i], errs[i])
					}
				}
				var tpk []byte
				for i := range parties {
					if viol != "" {
						break
					}
					var k []byte
					var err error
					guard("ThresholdPK", func() { k, err = parties[i].ThresholdPK() })
					if err != nil {
						viol = fmt.Sprintf("ThresholdPK(%d): %v", ids[i], err)
					} else if tpk == nil {
						tpk = k
					} else if string(tpk) != string(k) {
						viol = fmt.Sprintf("party %d reports another threshold key than party %d", ids[i], ids[0])
					}
				}
				if viol == "" && len(panics) > 0 {
					viol = panics[0]
				}
				for s := 0; s < 2 && viol == ""; s++ {
					perm := rng.Perm(n)[:t]
					var signers []uint16
					for _, x := range perm {
						signers = append(signers, ids[x])
					}
					msg := make([][]byte, L)
					for i := range msg {
						msg[i] = []byte(fmt.Sprintf("attr-%d-%d", i, rng.Intn(1000)))
					}
					guard("the signing flow", func() {
						pr := &ps.Prover{Logger: common.Nolog{}}
						if err := pr.Init(curve, L, tpk, append([]uint16{}, ids...)); err != nil {
							viol = "Prover.Init: " + err.Error()
							return
						}
						req, secret := pr.Blind(msg)
						var wits []ps.SignatureWitness
						for _, sgn := range signers {
							sg := &ps.TPS{MessageLength: L, Curve: curve, Logger: common.Nolog{}, Party: sgn}
							sg.Init(append([]uint16{}, ids...), t, func([]byte, bool, uint16) {})
							if err := sg.SetShareData(stored[int(sgn)-1]); err != nil {
								viol = fmt.Sprintf("SetShareData(%d): %v", sgn, err)
								return
							}
							sig, err := sg.Sign(context.Background(), req.Bytes())
							if err != nil {
								viol = fmt.Sprintf("TPS.Sign(%d): %v", sgn, err)
								return
							}
							w, err := pr.UnBlind(sgn, sig, &secret)
							if err != nil {
								viol = fmt.Sprintf("UnBlind(%d): %v", sgn, err)
								return
							}
							wits = append(wits, w)
						}
						proof := pr.ProveKnowledgeOfSignature(&secret, signers, wits)
						var v ps.Verifier
						if err := v.Init(curve, L, tpk); err != nil {
							viol = "Verifier.Init: " + err.Error()
							return
						}
						if err := v.Verify(proof.Bytes()); err != nil {
							viol = fmt.Sprintf("signers %v: the proof does not verify: %v", signers, err)
							return
						}
						p.Count("proofs_verified", 1)
					})
					if viol == "" && len(panics) > 0 {
						viol = panics[0]
					}
				}
				if viol != "" {
					sig := "ps-own-deps/failed"
					if len(panics) > 0 {
						sig = "ps-own-deps/panic"
					}
					p.Violate(sig, key+": "+viol, map[string]interface{}{"n": n, "t": t, "L": L, "repetition": rep})
				}
				if idx%9 == 0 {
					p.Sample(map[string]interface{}{"n": n, "t": t, "L": L})
				}
			}
		}
	}
}
