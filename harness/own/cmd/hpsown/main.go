// hpsown drives mpc/ps linked with the dependency versions its own go.mod declares.
package main

import "verifown/common"

var units = map[string]common.UnitFunc{
	"c08own": unitC08own,
}

func main() { common.ChildMain(units) }
