package main

// rbc.Receiver-level world: the harness implements the package's Message interface and drives
// Receive directly. Microseconds per step, so the large exhaustive schedule spaces live here.

import (
	"crypto/sha256"
	"fmt"
	"sort"

	"github.com/IBM/TSS/rbc"

	"verifharness/common"
	"verifharness/simnet"
)

type rmsg struct {
	id      string // unique id of this transmission's content (payload identity or ack description)
	round   uint8
	digest  []byte
	bcast   bool
	isAck   bool
	about   uint16 // ack: the sender the ack is about
	payload []byte
	tag     string
}

func (m *rmsg) Round() uint8       { return m.round }
func (m *rmsg) Digest() []byte     { return m.digest }
func (m *rmsg) WasBroadcast() bool { return m.bcast }
func (m *rmsg) Ack() ([]byte, uint16, uint8) {
	if !m.isAck {
		return nil, 0, 0
	}
	return m.digest, m.about, m.round
}

type handoff struct {
	At   uint16
	From uint16
	M    *rmsg // nil = empty placeholder handed over
}

type delivery struct {
	Src, Dst uint16
	M        *rmsg
}

type rworld struct {
	ids     []uint16
	honest  map[uint16]bool
	q       map[simnet.Link][]*rmsg
	rs      map[uint16]*rbc.Receiver
	hand    []handoff
	deliv   []delivery
	panics  []string
	expectB map[string]bool // honest broadcasts: "sender/round" -> expected at every other honest party
	expectP map[string]bool // honest p2p: "sender/round/dst"
}

func digestOf(p []byte) []byte { d := sha256.Sum256(p); return d[:] }

func payloadMsg(sender uint16, round uint8, version int, bcast bool, dst uint16) *rmsg {
	kind := "P"
	if bcast {
		kind = "B"
	}
	p := []byte(fmt.Sprintf("%s|s=%d|r=%d|v=%d|d=%d", kind, sender, round, version, dst))
	d := digestOf(p)
	if digestSharedPrefix > 0 {
		copy(d[:digestSharedPrefix], digestOf([]byte(fmt.Sprintf("%s|s=%d|r=%d", kind, sender, round))))
	}
	return &rmsg{id: string(p), round: round, digest: d, bcast: bcast, payload: p}
}

// digestSharedPrefix is set while a world is being built (units build and run worlds from one goroutine): see byzScenario.SharedPrefix.
var digestSharedPrefix int

func ackMsg(about uint16, round uint8, digest []byte, tag string) *rmsg {
	return &rmsg{id: fmt.Sprintf("ack|about=%d|r=%d|d=%x|%s", about, round, digest[:min(4, len(digest))], tag), round: round, digest: digest, isAck: true, about: about, tag: tag}
}

func newRWorld(ids []uint16, byz []uint16) *rworld {
	w := &rworld{ids: ids, honest: map[uint16]bool{}, q: map[simnet.Link][]*rmsg{}, rs: map[uint16]*rbc.Receiver{}, expectB: map[string]bool{}, expectP: map[string]bool{}}
	isByz := map[uint16]bool{}
	for _, b := range byz {
		isByz[b] = true
	}
	N := len(ids)
	for _, id := range ids {
		if isByz[id] {
			continue
		}
		id := id
		w.honest[id] = true
		w.rs[id] = &rbc.Receiver{SelfID: id, N: N, Logger: common.Nolog{},
			ForwardToBackend: func(m interface{}, from uint16) {
				var rm *rmsg
				if m != nil {
					if x, ok := m.(*rmsg); ok {
						rm = x
					}
				}
				w.hand = append(w.hand, handoff{At: id, From: from, M: rm})
			},
			BroadcastAck: func(d string, s uint16, r uint8) {
				for _, j := range ids {
					if j != id && w.honest[j] { // traffic to Byzantine parties is not simulated at this level
						w.push(id, j, ackMsg(s, r, []byte(d), fmt.Sprintf("by%d", id)))
					}
				}
			}}
	}
	return w
}

func (w *rworld) push(s, d uint16, m *rmsg) {
	l := simnet.Link{Src: s, Dst: d}
	w.q[l] = append(w.q[l], m)
}

// honestBroadcast enqueues sender's round-r broadcast to every other honest party (and nothing to Byzantine ones).
func (w *rworld) honestBroadcast(sender uint16, round uint8) {
	for _, j := range w.ids {
		if j != sender && w.honest[j] {
			w.push(sender, j, payloadMsg(sender, round, 1, true, 0xffff))
		}
	}
	w.expectB[fmt.Sprintf("%d/%d", sender, round)] = true
}

func (w *rworld) honestP2P(sender uint16, round uint8) {
	for _, j := range w.ids {
		if j != sender && w.honest[j] {
			w.push(sender, j, payloadMsg(sender, round, 1, false, j))
			w.expectP[fmt.Sprintf("%d/%d/%d", sender, round, j)] = true
		}
	}
}

func (w *rworld) Enabled() []simnet.Link {
	var en []simnet.Link
	for l, v := range w.q {
		if len(v) > 0 {
			en = append(en, l)
		}
	}
	sort.Slice(en, func(i, j int) bool {
		if en[i].Src != en[j].Src {
			return en[i].Src < en[j].Src
		}
		return en[i].Dst < en[j].Dst
	})
	return en
}

func (w *rworld) Step(l simnet.Link) {
	m := w.q[l][0]
	w.q[l] = w.q[l][1:]
	w.deliv = append(w.deliv, delivery{l.Src, l.Dst, m})
	r := w.rs[l.Dst]
	if r == nil {
		return
	}
	func() {
		defer func() {
			if x := recover(); x != nil {
				w.panics = append(w.panics, fmt.Sprintf("Receive at %d of %s from %d: %v", l.Dst, m.id, l.Src, x))
			}
		}()
		r.Receive(m, l.Src)
	}()
}

func (w *rworld) Close() {}

// ---- oracles (pure functions of the recorded hand-overs and deliveries) ----

// agreement (C02): honest hand-overs of a broadcast-class message attributed to the same sender and round carry identical payloads.
func (w *rworld) checkAgreement() (string, string) {
	seen := map[string]string{}
	at := map[string]uint16{}
	for _, h := range w.hand {
		if h.M == nil || !h.M.bcast {
			continue
		}
		k := fmt.Sprintf("%d/%d", h.From, h.M.round)
		if prev, ok := seen[k]; ok && prev != h.M.id {
			return "agreement", fmt.Sprintf("party %d accepted %q and party %d accepted %q for sender/round %s", at[k], prev, h.At, h.M.id, k)
		}
		seen[k] = h.M.id
		at[k] = h.At
	}
	return "", ""
}

// integrity (C03): authentic, at most once, non-empty; p2p exactly as received.
func (w *rworld) checkIntegrity() (string, string) {
	count := map[string]int{}
	for _, h := range w.hand {
		if h.M == nil {
			return "integrity/empty-handover", fmt.Sprintf("party %d was handed an empty placeholder attributed to %d", h.At, h.From)
		}
		if h.M.isAck {
			return "integrity/ack-handed-over", fmt.Sprintf("party %d was handed an acknowledgement %s as a message", h.At, h.M.id)
		}
		// the attributed party must itself have transmitted exactly this message directly to this party
		ok := false
		for _, d := range w.deliv {
			if d.Dst == h.At && d.Src == h.From && d.M.id == h.M.id && !d.M.isAck {
				ok = true
				break
			}
		}
		if !ok {
			return "integrity/not-authentic", fmt.Sprintf("party %d was handed %q attributed to %d, which never transmitted it to this party", h.At, h.M.id, h.From)
		}
		kind := "P"
		if h.M.bcast {
			kind = "B"
		}
		k := fmt.Sprintf("%s/%d/%d/%d", kind, h.At, h.From, h.M.round)
		if kind == "P" {
			k += "/" + h.M.id
		}
		count[k]++
		if count[k] > 1 {
			if kind == "B" {
				return "integrity/handed-over-twice", fmt.Sprintf("party %d was handed the broadcast of sender %d round %d %d times", h.At, h.From, h.M.round, count[k])
			}
		}
	}
	// point-to-point messages: never handed over more often than received (an instance that detected
	// equivocation may legitimately stop handing anything over, so fewer is not judged here; C04 judges it
	// for fault-free runs)
	recv := map[string]int{}
	for _, d := range w.deliv {
		if !d.M.isAck && !d.M.bcast && w.honest[d.Dst] {
			recv[fmt.Sprintf("P/%d/%d/%d/%s", d.Dst, d.Src, d.M.round, d.M.id)]++
		}
	}
	for k, c := range count {
		if k[0] == 'P' && c > recv[k] {
			return "integrity/p2p-count", fmt.Sprintf("point-to-point %s received %d times but handed over %d times", k, recv[k], c)
		}
	}
	if len(w.panics) > 0 {
		return "integrity/panic", w.panics[0]
	}
	return "", ""
}

// totality (C04): every honest broadcast handed over exactly once at every other honest party, every p2p exactly once.
func (w *rworld) checkTotality() (string, string) {
	if len(w.panics) > 0 {
		return "totality/panic", w.panics[0]
	}
	cnt := map[string]int{}
	for _, h := range w.hand {
		if h.M == nil {
			return "totality/empty-handover", fmt.Sprintf("party %d was handed an empty placeholder", h.At)
		}
		if h.M.bcast {
			cnt[fmt.Sprintf("B/%d/%d/%d", h.At, h.From, h.M.round)]++
		} else {
			cnt[fmt.Sprintf("P/%d/%d/%d", h.At, h.From, h.M.round)]++
		}
	}
	for k := range w.expectB {
		var s uint16
		var r int
		fmt.Sscanf(k, "%d/%d", &s, &r)
		for _, j := range w.ids {
			if j == s || !w.honest[j] {
				continue
			}
			if c := cnt[fmt.Sprintf("B/%d/%d/%d", j, s, r)]; c != 1 {
				return "totality/broadcast", fmt.Sprintf("broadcast of sender %d round %d was handed over %d times at party %d", s, r, c, j)
			}
		}
	}
	for k := range w.expectP {
		var s, d uint16
		var r int
		fmt.Sscanf(k, "%d/%d/%d", &s, &r, &d)
		if c := cnt[fmt.Sprintf("P/%d/%d/%d", d, s, r)]; c != 1 {
			return "totality/p2p", fmt.Sprintf("point-to-point message of sender %d round %d was handed over %d times at party %d", s, r, c, d)
		}
	}
	return "", ""
}

// overtakes counts deliveries in which an acknowledgement reached a party before the payload it vouches for.
func (w *rworld) overtakes() int {
	got := map[string]bool{}
	n := 0
	for _, d := range w.deliv {
		if d.M.isAck {
			if !got[fmt.Sprintf("%d/%d/%d", d.Dst, d.M.about, d.M.round)] {
				n++
			}
		} else if d.M.bcast {
			got[fmt.Sprintf("%d/%d/%d", d.Dst, d.Src, d.M.round)] = true
		}
	}
	return n
}
