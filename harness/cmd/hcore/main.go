// hcore drives the engines that need only the core packages of IBM/TSS (threshold, rbc, disc, msg, net).
package main

import "verifharness/common"

var units = map[string]common.UnitFunc{
	"c04rbc":      unitC04rbc,
	"byzrbc":      unitByzRbc,
	"c04orch":     unitC04orch,
	"c04live":     unitC04live,
	"c04tiny":     unitC04tiny,
	"c04twice":    unitC04twice,
	"c04conc":     unitC04conc,
	"c14scheme":   unitC14scheme,
	"c03marker":   unitC03marker,
	"c03conc":     unitC03conc,
	"byzorch":     unitByzOrch,
	"c14ctl":      unitC14ctl,
	"c14stress":   unitC14stress,
	"c15":         unitC15,
	"c06":         unitC06,
	"c12":         unitC12,
	"c16":         unitC16,
	"c17":         unitC17,
	"c20core":     unitC20core,
	"c10core":     unitC10core,
	"c11scripted": unitC11scripted,
	"c11ctx":      unitC11ctx,
	"c07honest":   unitC07honest,
	"c07byz":      unitC07byz,
	"c13sess":     unitC13sess,
	"c13disc":     unitC13disc,
	"c13views":    unitC13views,
	"c12silent":   unitC12silent,
	"c15ctl":      unitC15ctl,
}

func main() { common.ChildMain(units) }
