package main

// C14 — silent-mode buffer: exactly-once, in-order hand-off across the first-send race.
// Arm 1: the real msg.Box under the controlled scheduler (ctlsched), interleavings enumerated.
// Arm 2: stress with real goroutines, no hook installed.

import (
	"fmt"
	"math/rand"
	"sort"
	"strings"
	"sync"
	"time"

	"github.com/IBM/TSS/msg"
	tss "github.com/IBM/TSS/types"

	"verifharness/common"
	"verifharness/ctlsched"
)

type boxHandler struct {
	mu  sync.Mutex
	log []string // "<topic>/<source>/<id>" in hand-over order
	// onMsg: called for every hand-over, outside the handler's own lock (a dispatcher that takes its time)
	onMsg func(id string)
}

func (h *boxHandler) HandleMessage(m *tss.IncMessage) {
	h.mu.Lock()
	h.log = append(h.log, fmt.Sprintf("%s/%d/%s", string(m.Topic[:1]), m.Source, string(m.Data)))
	f := h.onMsg
	h.mu.Unlock()
	if f != nil {
		f(string(m.Data))
	}
}

func newBox(h *boxHandler) *msg.Box {
	return &msg.Box{Logger: common.Nolog{}, MaxInFlightTopicsBySender: 1000, GCSweep: time.Hour, GCExpire: 10 * time.Hour,
		NewTicker: time.NewTicker, ForwardSend: func(uint8, []byte, []byte, ...tss.UniversalID) {}, MessageHandler: h}
}

// boxTicks: boxes built with a hand-driven epoch clock (operation "k" pushes one tick)
var boxTicks sync.Map // *msg.Box -> chan time.Time

// newTickBox: the garbage collector runs (sweep 1 h on a hand-driven ticker) but nothing can expire legitimately: the expiry is
// 2^40 epochs. The clock is started by a Send on an unrelated topic before the first tick.
func newTickBox(h *boxHandler, ratio int) *msg.Box {
	tick := make(chan time.Time)
	expire := time.Nanosecond << 40
	if ratio > 0 {
		expire = time.Duration(ratio) * time.Nanosecond
	}
	b := &msg.Box{Logger: common.Nolog{}, MaxInFlightTopicsBySender: 1000, GCSweep: time.Nanosecond, GCExpire: expire,
		NewTicker: func(time.Duration) *time.Ticker { return &time.Ticker{C: tick} }, ForwardSend: func(uint8, []byte, []byte, ...tss.UniversalID) {}, MessageHandler: h}
	boxTicks.Store(b, tick)
	return b
}

func topicOf(name byte) []byte {
	t := []byte(strings.Repeat(string(name), 32))
	return t
}

// op descriptions: "r:T:src:id" receive, "s:T" send
type c14cfg struct {
	Name    string
	Pre     []string   // executed before the threads start (sequentially)
	Threads [][]string // one op list per thread
	Limit   int
	Samples int
	Ticks   bool // hand-driven epoch clock; operation "k" advances it by one epoch
	Ratio   int  // with Ticks: topics expire after this many idle epochs (0: 2^40, nothing can expire)
	Topics  int  // the box's limit of unstarted topics per sender (0: 1000)
}

func mkOp(b *msg.Box, d string) func() { return mkOpShift(b, d, 0) }

// mkOpShift: the topic letter is shifted by `shift` (the same configuration replayed on another topic).
func mkOpShift(b *msg.Box, d string, shift byte) func() {
	f := strings.Split(d, ":")
	switch f[0] {
	case "r":
		var src int
		fmt.Sscanf(f[2], "%d", &src)
		topic := topicOf(f[1][0] + shift)
		id := f[3]
		return func() {
			b.HandleMessage(&tss.IncMessage{MsgType: uint8(tss.MsgTypeMPC), Topic: topic, Source: uint16(src), Data: []byte(id)})
		}
	case "s":
		topic := topicOf(f[1][0] + shift)
		return func() { b.Send(uint8(tss.MsgTypeMPC), topic, []byte("out"), 99) }
	case "k":
		return func() {
			if t, ok := boxTicks.Load(b); ok {
				select {
				case t.(chan time.Time) <- time.Time{}:
					time.Sleep(150 * time.Microsecond) // the clock goroutine's increment lands
				case <-time.After(2 * time.Second):
				}
			}
		}
	}
	panic("bad op " + d)
}

// c14oracle: for every topic on which a Send completed, every received message was handed over exactly once,
// and messages of one sender in arrival (issue) order.
func c14oracle(cfg c14cfg, hlog []string) (string, string) {
	sent := map[string]bool{}
	var recvs []string // all receive ops in per-thread order (pre first)
	perSender := map[string][]string{}
	all := append([][]string{cfg.Pre}, cfg.Threads...)
	for _, th := range all {
		for _, d := range th {
			f := strings.Split(d, ":")
			if f[0] == "k" {
				continue
			}
			if f[0] == "s" {
				sent[f[1]] = true
			} else {
				recvs = append(recvs, d)
				k := f[1] + "/" + f[2]
				perSender[k] = append(perSender[k], f[3])
			}
		}
	}
	count := map[string]int{}
	got := map[string][]string{}
	for _, l := range hlog {
		count[l]++
		f := strings.SplitN(l, "/", 3)
		k := f[0] + "/" + f[1]
		got[k] = append(got[k], f[2])
	}
	for _, d := range recvs {
		f := strings.Split(d, ":")
		if !sent[f[1]] {
			continue
		}
		key := fmt.Sprintf("%s/%s/%s", f[1], f[2], f[3])
		if count[key] == 0 {
			return "lost", fmt.Sprintf("message %s was received but never handed to the dispatcher although a Send on its topic completed; hand-overs: %v", key, hlog)
		}
		if count[key] > 1 {
			return "duplicated", fmt.Sprintf("message %s was handed over %d times; hand-overs: %v", key, count[key], hlog)
		}
	}
	for k, want := range perSender {
		if !sent[strings.Split(k, "/")[0]] {
			continue
		}
		g := got[k]
		if len(g) == len(want) && strings.Join(g, ",") != strings.Join(want, ",") {
			return "reordered", fmt.Sprintf("messages of sender %s arrived as %v but were handed over as %v", k, want, g)
		}
	}
	return "", ""
}

var ctlMu sync.Mutex

// runCtl executes one schedule of cfg. choose picks the next thread.
func runCtl(cfg c14cfg, choose func(step int, n int) int) (choices, enabled []int, hlog []string, s *ctlsched.Sched, ok bool) {
	ctlMu.Lock()
	defer ctlMu.Unlock()
	h := &boxHandler{}
	b := newBox(h)
	if cfg.Ticks {
		b = newTickBox(h, cfg.Ratio)
		defer boxTicks.Delete(b)
	}
	if cfg.Topics > 0 {
		b.MaxInFlightTopicsBySender = cfg.Topics
	}
	msg.SetVerifHook(func(string) {})
	for _, d := range cfg.Pre {
		mkOp(b, d)()
	}
	s = ctlsched.New()
	msg.SetVerifHook(s.Hook)
	var ops [][]func()
	for _, th := range cfg.Threads {
		var o []func()
		for _, d := range th {
			o = append(o, mkOp(b, d))
		}
		ops = append(ops, o)
	}
	s.Start(ops)
	choices, enabled, ok = s.Run(func(step int, en []*ctlsched.Thread) int { return choose(step, len(en)) })
	msg.SetVerifHook(func(string) {})
	b.Stop()
	h.mu.Lock()
	hlog = append([]string{}, h.log...)
	h.mu.Unlock()
	return
}

// runCtlBox: one schedule of cfg on a box with the given topic limit; `after` runs sequentially once all threads finished.
// The scheduler's Handed field carries the handler log at the end.
func runCtlBox(cfg c14cfg, limit int, choose func(step int, n int) int, after func(b *msg.Box, h *boxHandler)) (choices, enabled []int, hlog []string, s *ctlSchedResult, ok bool) {
	ctlMu.Lock()
	defer ctlMu.Unlock()
	h := &boxHandler{}
	b := newBox(h)
	b.MaxInFlightTopicsBySender = limit
	msg.SetVerifHook(func(string) {})
	for _, d := range cfg.Pre {
		mkOp(b, d)()
	}
	sc := ctlsched.New()
	msg.SetVerifHook(sc.Hook)
	var ops [][]func()
	for _, th := range cfg.Threads {
		var o []func()
		for _, d := range th {
			o = append(o, mkOp(b, d))
		}
		ops = append(ops, o)
	}
	sc.Start(ops)
	choices, enabled, ok = sc.Run(func(step int, en []*ctlsched.Thread) int { return choose(step, len(en)) })
	msg.SetVerifHook(func(string) {})
	if ok && after != nil {
		after(b, h)
	}
	b.Stop()
	h.mu.Lock()
	hlog = append([]string{}, h.log...)
	h.mu.Unlock()
	return choices, enabled, hlog, &ctlSchedResult{Trace: sc.Trace, Deadlock: sc.Deadlock, Handed: hlog}, ok
}

type ctlSchedResult struct {
	Trace    []string
	Deadlock string
	Handed   []string
}

func c14configs(e common.Env) []c14cfg {
	L := e.Pick(6000, 400000)
	S := e.Pick(600, 20000)
	cfgs := c14baseConfigs(L, S, e)
	// a topic on which the local party sends in every epoch never idles: it must stay started however long the session lasts
	// (expiry: 3 idle epochs), so a message received right after its Send in epoch k is forwarded at once — there is no later Send
	// that could flush it. One configuration per k = 3..9, so that every phase of a periodic collector is met.
	for k := 3; k <= 9; k++ {
		th := []string{"s:T"}
		for ep := 2; ep <= k; ep++ {
			th = append(th, "k", "s:T")
			if ep%3 == 0 {
				th = append(th, "s:U") // other topics come and go
			}
		}
		th = append(th, "r:T:7:m1")
		cfgs = append(cfgs, c14cfg{Name: fmt.Sprintf("clock, expiry 3 epochs: Send T in each of %d epochs, then recv T", k), Ticks: true, Ratio: 3, Pre: []string{"s:Z", "k"}, Threads: [][]string{th}, Limit: 4})
	}
	// a sender exactly AT the documented limit of unstarted topics (it has messages buffered on `lim` of them) stays within the
	// limits: further messages on those topics are buffered and handed over like the others
	for lim := 1; lim <= 3; lim++ {
		var pre []string
		for t := 0; t < lim; t++ {
			pre = append(pre, fmt.Sprintf("r:%c:7:m0", 'T'+byte(t)))
		}
		cfgs = append(cfgs, c14cfg{Name: fmt.Sprintf("topic limit %d, sender 7 holds %d unstarted topics; recv m1,m2 on T || Send T || recv y1 on T", lim, lim), Topics: lim, Pre: pre,
			Threads: [][]string{{"r:T:7:m1", "r:T:7:m2"}, {"s:T"}, {"r:T:8:y1"}}, Limit: min(L, 4000), Samples: min(S, 400)})
	}
	return cfgs
}

func c14baseConfigs(L, S int, e common.Env) []c14cfg {
	return []c14cfg{
		{Name: "recv m1 || Send", Threads: [][]string{{"r:T:7:m1"}, {"s:T"}}, Limit: L},
		{Name: "m0 buffered; recv m1 || Send", Pre: []string{"r:T:7:m0"}, Threads: [][]string{{"r:T:7:m1"}, {"s:T"}}, Limit: L},
		{Name: "recv m1,m2 || Send", Threads: [][]string{{"r:T:7:m1", "r:T:7:m2"}, {"s:T"}}, Limit: L},
		{Name: "m0 buffered; recv m1,m2 || Send", Pre: []string{"r:T:7:m0"}, Threads: [][]string{{"r:T:7:m1", "r:T:7:m2"}, {"s:T"}}, Limit: L},
		{Name: "recv m1,m2 || Send,Send", Threads: [][]string{{"r:T:7:m1", "r:T:7:m2"}, {"s:T", "s:T"}}, Limit: L, Samples: S},
		{Name: "recv x1,x2 || recv y1 || Send", Threads: [][]string{{"r:T:7:x1", "r:T:7:x2"}, {"r:T:8:y1"}, {"s:T"}}, Limit: L, Samples: S},
		{Name: "m0 buffered; Send || Send || recv m1", Pre: []string{"r:T:7:m0"}, Threads: [][]string{{"s:T"}, {"s:T"}, {"r:T:7:m1"}}, Limit: L, Samples: S},
		{Name: "x0,y0 buffered; recv x1 || recv y1 || Send", Pre: []string{"r:T:7:x0", "r:T:8:y0"}, Threads: [][]string{{"r:T:7:x1"}, {"r:T:8:y1"}, {"s:T"}}, Limit: L, Samples: S},
		{Name: "recv T || Send T || recv U || Send U", Threads: [][]string{{"r:T:7:t1"}, {"s:T"}, {"r:U:7:u1"}, {"s:U"}}, Limit: L, Samples: S},
		{Name: "t0 buffered; recv t1,u1 || Send T,Send U", Pre: []string{"r:T:7:t0"}, Threads: [][]string{{"r:T:7:t1", "r:U:7:u1"}, {"s:T", "s:U"}}, Limit: L, Samples: S},
		// the epoch clock ticks while a receive / a first Send holds the box lock and a Send on another topic is about to collect
		{Name: "clock: recv T,Send T || Send U || tick", Ticks: true, Pre: []string{"s:Z", "k"}, Threads: [][]string{{"r:T:7:m1", "s:T"}, {"s:U"}, {"k"}}, Limit: min(L, 60000), Samples: min(S, 4000)},
		{Name: "clock: Send T,recv T || Send U || tick", Ticks: true, Pre: []string{"s:Z", "k"}, Threads: [][]string{{"s:T", "r:T:7:m1"}, {"s:U"}, {"k"}}, Limit: min(L, 60000), Samples: min(S, 4000)},
		{Name: "clock: m0 buffered; recv T,Send T || Send U,Send V || tick,tick", Ticks: true, Pre: []string{"s:Z", "k", "r:T:7:m0"}, Threads: [][]string{{"r:T:7:m1", "s:T"}, {"s:U", "s:V"}, {"k", "k"}}, Limit: min(L, 60000), Samples: min(S, 4000)},
		// a topic on which the local party keeps sending in every epoch never idles: it must stay started far beyond the expiry
		// (3 idle epochs here), so a message received for it after 10 epochs is forwarded at once (there is no later Send)
		{Name: "m0,m1 buffered; recv m2,m3 || Send || recv y1", Pre: []string{"r:T:7:m0", "r:T:7:m1"}, Threads: [][]string{{"r:T:7:m2", "r:T:7:m3"}, {"s:T"}, {"r:T:8:y1"}}, Limit: e.Pick(2000, 400000), Samples: S},
	}
}

func unitC14ctl(e common.Env, p *common.Part) {
	p.Rule = "real msg.Box under the controlled scheduler: every controlled thread parks at each verif yield point (lock boundaries and shared-state accesses inside critical sections) and at operation boundaries, one runs at a time, threads waiting for a lock are recognised by their goroutine wait state; configurations of concurrent receive and Send calls; distinct key = (configuration, schedule as the sequence of granted threads and yield points); non-trivial when the schedule granted at least two different threads before the first one finished its first operation (a receive overlapped a Send); stateless DFS up to the limit, then PRNG schedules"
	p.Assumptions = append(p.Assumptions, "interleavings at the granularity of the verif yield points of msg/msgbox.go; expiry out of reach (GCExpire 10 h on a real clock, or 2^40 epochs on the hand-driven clock of the 'clock:' configurations, where a tick is a schedulable operation) so that no message may legitimately vanish; the sender stays within the documented limits")
	cfgs := c14configs(e)
	for i, cfg := range cfgs {
		if !e.Mine(i) || p.ViolationCount() >= 3 {
			continue
		}
		cfg := cfg
		p.Begin(cfg.Name)
		points := map[string]bool{}
		visit := func(choices []int, hlog []string, s *ctlsched.Sched, ok bool) bool {
			tr := strings.Join(s.Trace, " ")
			switches := 0
			for j := 1; j < len(s.Trace); j++ {
				if s.Trace[j][0] != s.Trace[j-1][0] {
					switches++
				}
			}
			p.Case(cfg.Name+"#"+tr, switches >= 2)
			p.Count("handoffs", int64(len(hlog)))
			p.Count("schedules", 1)
			for pt := range s.Points {
				points[pt] = true
			}
			if !ok {
				p.Violate("stuck/"+cfg.Name, cfg.Name+": "+s.Deadlock, map[string]interface{}{"config": cfg, "schedule": s.Trace})
				return false
			}
			if sig, what := c14oracle(cfg, hlog); sig != "" {
				p.Violate(sig+"/"+cfg.Name, cfg.Name+": "+what, map[string]interface{}{"config": cfg, "schedule": s.Trace, "handed_over": hlog})
				return false
			}
			return true
		}
		execs, exhaustive := ctlsched.Explore(cfg.Limit, func(prefix []int) ([]int, []int) {
			ch, en, hlog, s, ok := runCtl(cfg, func(step, n int) int {
				if step < len(prefix) {
					return prefix[step]
				}
				return 0
			})
			if !visit(ch, hlog, s, ok) {
				return nil, nil
			}
			return ch, en
		}, func(ch []int) bool { return ch != nil && p.ViolationCount() < 3 })
		p.SetExhaustive(cfg.Name, exhaustive)
		if exhaustive {
			p.Count("configurations_exhaustive", 1)
		}
		sampled := 0
		if !exhaustive && cfg.Samples > 0 && p.ViolationCount() < 3 {
			rng := e.Rng("c14", cfg.Name)
			for k := 0; k < cfg.Samples && p.ViolationCount() < 3; k++ {
				// PCT-like: random priorities with a few change points
				bias := rng.Intn(3)
				ch, _, hlog, s, ok := runCtl(cfg, func(step, n int) int {
					switch bias {
					case 0:
						return rng.Intn(n)
					case 1:
						if rng.Intn(4) == 0 {
							return rng.Intn(n)
						}
						return n - 1
					default:
						if rng.Intn(6) == 0 {
							return rng.Intn(n)
						}
						return 0
					}
				})
				sampled++
				if !visit(ch, hlog, s, ok) {
					break
				}
			}
		}
		var pts []string
		for pt := range points {
			pts = append(pts, pt)
		}
		sort.Strings(pts)
		p.Sample(map[string]interface{}{"config": cfg.Name, "schedules_enumerated": execs, "exhaustive": exhaustive, "schedules_sampled": sampled, "yield_points_reached": pts})
		p.Write(false)
	}
}

// ---- arm 2: stress ----

// c14slowDispatcher: the hand-over inside the local party's first Send takes long - the dispatcher advances the epoch clock by more
// than the expiry while it is handed the buffered messages. The topic has just started (the local party has just sent on it): what
// arrives next is forwarded at once, whatever collection passes other Sends trigger in between; there is no later Send on the
// topic that could flush it. Sequential, hand-driven clock.
func c14slowDispatcher(e common.Env, p *common.Part) {
	for _, ratio := range []int{2, 3, 6} {
		for _, during := range []int{0, 1, ratio, ratio + 1, ratio + 2, 3 * ratio} {
			for _, buffered := range []int{1, 3} {
				key := fmt.Sprintf("slow dispatcher: expiry %d epochs, %d buffered, %d epochs pass during the hand-over of the first", ratio, buffered, during)
				p.Begin(key)
				h := &boxHandler{}
				b := newTickBox(h, ratio)
				tickc, _ := boxTicks.Load(b)
				tick := func() {
					select {
					case tickc.(chan time.Time) <- time.Time{}:
						time.Sleep(150 * time.Microsecond)
					case <-time.After(2 * time.Second):
					}
				}
				var once sync.Once
				h.onMsg = func(id string) {
					if id == "m0" {
						once.Do(func() {
							for k := 0; k < during; k++ {
								tick()
							}
						})
					}
				}
				msg.SetVerifHook(func(string) {})
				mkOp(b, "s:Z")() // starts the clock
				tick()
				want := []string{}
				for k := 0; k < buffered; k++ {
					mkOp(b, fmt.Sprintf("r:T:7:m%d", k))()
					want = append(want, fmt.Sprintf("T/7/m%d", k))
				}
				mkOp(b, "s:T")() // first Send: the buffered messages are handed over, the clock runs meanwhile
				mkOp(b, "s:U")() // other Sends: collection passes
				mkOp(b, "r:T:7:late1")()
				mkOp(b, "s:V")()
				mkOp(b, "r:T:8:late2")()
				want = append(want, "T/7/late1", "T/8/late2")
				time.Sleep(300 * time.Microsecond)
				b.Stop()
				boxTicks.Delete(b)
				h.mu.Lock()
				got := append([]string{}, h.log...)
				h.mu.Unlock()
				p.Case(key, during > 0)
				p.Count("slow_dispatcher_histories", 1)
				if fmt.Sprint(got) != fmt.Sprint(want) {
					p.Violate("lost/after-a-slow-first-hand-over", fmt.Sprintf("%s: the dispatcher was handed %v; the topic had just started, so everything that arrived afterwards is due at once: %v", key, got, want), map[string]interface{}{"ratio": ratio, "during": during, "buffered": buffered})
					return
				}
			}
		}
	}
}

// c14manySenders: many senders, each far within its own limit, buffer on ONE unstarted topic (a large session whose local party is
// slow to start): more than a hundred messages in all. The first Send hands every one of them over, per sender in arrival order.
func c14manySenders(e common.Env, p *common.Part) {
	for _, cfg := range [][2]int{{11, 11}, {30, 5}, {3, 100}, {60, 3}} {
		senders, per := cfg[0], cfg[1]
		key := fmt.Sprintf("%d senders x %d messages buffered on one unstarted topic", senders, per)
		p.Begin(key)
		h := &boxHandler{}
		b := newBox(h)
		msg.SetVerifHook(func(string) {})
		var want []string
		for k := 0; k < per; k++ {
			for s := 0; s < senders; s++ {
				mkOp(b, fmt.Sprintf("r:T:%d:m%d_%d", 100+s, s, k))()
			}
		}
		for s := 0; s < senders; s++ {
			for k := 0; k < per; k++ {
				want = append(want, fmt.Sprintf("T/%d/m%d_%d", 100+s, s, k))
			}
		}
		mkOp(b, "s:T")()
		b.Stop()
		h.mu.Lock()
		got := append([]string{}, h.log...)
		h.mu.Unlock()
		bySender := map[string][]string{}
		for _, l := range got {
			f := strings.SplitN(l, "/", 3)
			bySender[f[1]] = append(bySender[f[1]], l)
		}
		var flat []string
		for s := 0; s < senders; s++ {
			flat = append(flat, bySender[fmt.Sprint(100+s)]...)
		}
		p.Case(key, true)
		p.Count("many_sender_histories", 1)
		if len(got) != len(want) || fmt.Sprint(flat) != fmt.Sprint(want) {
			p.Violate("lost/many-senders-on-one-topic", fmt.Sprintf("%s (each sender within its limit of 100): %d of %d messages were handed over by the first Send, or not in per-sender arrival order", key, len(got), len(want)), map[string]interface{}{"senders": senders, "per_sender": per})
			return
		}
	}
}

func unitC14stress(e common.Env, p *common.Part) {
	if e.Mine(0) {
		ctlMu.Lock()
		c14slowDispatcher(e, p)
		c14manySenders(e, p)
		ctlMu.Unlock()
	}
	p.Rule = "real msg.Box, real goroutines (one per sender, one or two local senders), no hook installed, many short histories; plus sequential histories on a hand-driven epoch clock in which the dispatcher lets 0..3x the expiry pass while it is handed the first buffered message of a first Send, followed by Sends on other topics (collection passes) and two late arrivals on the topic, which are due at once; distinct key = history hash; non-trivial when the history has >=1 receive concurrent with a Send on the same topic"
	msg.SetVerifHook(func(string) {})
	n := e.Pick(3000, 60000)
	var wgAll sync.WaitGroup
	sem := make(chan struct{}, 4)
	for i := 0; i < n; i++ {
		if !e.Mine(i) || p.ViolationCount() >= 3 {
			continue
		}
		i := i
		sem <- struct{}{}
		wgAll.Add(1)
		go func() {
			defer wgAll.Done()
			defer func() { <-sem }()
			rng := e.Rng("c14stress", i)
			cfg := c14cfg{Name: fmt.Sprintf("stress-%d", i)}
			topics := []string{"T", "U"}[:1+rng.Intn(2)]
			senders := 1 + rng.Intn(3)
			for s := 0; s < senders; s++ {
				var th []string
				k := 1 + rng.Intn(5)
				for j := 0; j < k; j++ {
					th = append(th, fmt.Sprintf("r:%s:%d:m%d_%d", topics[rng.Intn(len(topics))], 10+s, s, j))
				}
				cfg.Threads = append(cfg.Threads, th)
			}
			if rng.Intn(2) == 0 {
				cfg.Pre = append(cfg.Pre, fmt.Sprintf("r:%s:%d:pre", topics[0], 10))
				// keep per-sender issue order: pre comes first for sender 10 on that topic
			}
			for _, t := range topics {
				th := []string{"s:" + t}
				if rng.Intn(3) == 0 {
					th = append(th, "s:"+t)
				}
				cfg.Threads = append(cfg.Threads, th)
			}
			h := &boxHandler{}
			b := newBox(h)
			for _, d := range cfg.Pre {
				mkOp(b, d)()
			}
			var wg sync.WaitGroup
			start := make(chan struct{})
			for _, th := range cfg.Threads {
				th := th
				var ops []func()
				for _, d := range th {
					ops = append(ops, mkOp(b, d))
				}
				delay := rng.Intn(30)
				wg.Add(1)
				go func() {
					defer wg.Done()
					<-start
					for k := 0; k < delay; k++ {
						_ = rand.Int()
					}
					for _, op := range ops {
						op()
					}
				}()
			}
			close(start)
			wg.Wait()
			b.Stop()
			h.mu.Lock()
			hlog := append([]string{}, h.log...)
			h.mu.Unlock()
			p.Case(fmt.Sprintf("%s:%v:%v", cfg.Name, cfg.Pre, cfg.Threads), true)
			p.Count("handoffs", int64(len(hlog)))
			if sig, what := c14oracle(cfg, hlog); sig != "" {
				p.Violate(sig+"/stress", what, map[string]interface{}{"config": cfg, "handed_over": hlog})
			}
			if i < 3 {
				p.Sample(map[string]interface{}{"history": cfg, "handed_over": hlog})
			}
		}()
	}
	wgAll.Wait()
}
