package main

// C12 — sessions leave no residue and do not interfere. PRNG histories of KeyGen/Sign calls
// (successful, too few callers, cancelled, immediate re-use, concurrent topics, duplicate topic, late and
// foreign traffic) on one cluster; because no residue may survive, the expected outcome of every
// operation depends on the operation alone. verifPoint holds make the schedule-dependent windows
// deterministic.

import (
	"bytes"
	"context"
	"fmt"
	"math/rand"
	"sort"
	"strings"
	"sync"
	"sync/atomic"
	"time"

	"github.com/IBM/TSS/threshold"
	tss "github.com/IBM/TSS/types"

	"verifharness/backend"
	"verifharness/cluster"
	"verifharness/common"
	"verifharness/simnet"
)

type c12op struct {
	Kind  string
	Topic string
	Arg   int
}

type c12hist struct {
	Idx   int
	N     int
	Mode  string // loud | barrier | silent
	Ops   []c12op
	Scale int // deadline multiplier (watchdog replay)
}

var c12script = backend.Script{Rounds: []uint8{1, 2}, Bcast: true, P2P: true}

type c12exec struct {
	h      c12hist
	c      *rcluster
	nodes  []uint16
	hold   atomic.Value // string: verif point at which goroutines are held
	parked int32
	gate   chan struct{}
	gmu    sync.Mutex
	hung   bool // a call did not return although its context had ended long before
}

func (x *c12exec) hook(p string) {
	h, _ := x.hold.Load().(string)
	if h == "" || h != p {
		return
	}
	x.gmu.Lock()
	g := x.gate
	x.gmu.Unlock()
	atomic.AddInt32(&x.parked, 1)
	<-g
}

func (x *c12exec) setHold(p string) {
	x.gmu.Lock()
	x.gate = make(chan struct{})
	x.gmu.Unlock()
	atomic.StoreInt32(&x.parked, 0)
	x.hold.Store(p)
}

func (x *c12exec) release() {
	x.hold.Store("")
	x.gmu.Lock()
	if x.gate != nil {
		close(x.gate)
		x.gate = nil
	}
	x.gmu.Unlock()
}

func (x *c12exec) waitParked(n int, max time.Duration) bool {
	deadline := time.Now().Add(max)
	for time.Now().Before(deadline) {
		if int(atomic.LoadInt32(&x.parked)) >= n {
			return true
		}
		time.Sleep(200 * time.Microsecond)
	}
	return false
}

func (x *c12exec) dl(ms int) time.Duration {
	return time.Duration(ms*x.h.Scale) * time.Millisecond
}

type callRes struct {
	node uint16
	out  []byte
	err  error
}

// call runs fn on the given nodes concurrently and collects the results.
func (x *c12exec) calls(nodes []uint16, fn func(u uint16) ([]byte, error)) map[uint16]callRes {
	var wg sync.WaitGroup
	var mu sync.Mutex
	res := map[uint16]callRes{}
	for _, u := range nodes {
		u := u
		wg.Add(1)
		go func() {
			defer wg.Done()
			out, err := fn(u)
			mu.Lock()
			res[u] = callRes{u, out, err}
			mu.Unlock()
		}()
	}
	done := make(chan struct{})
	go func() { wg.Wait(); close(done) }()
	select {
	case <-done:
	case <-time.After(time.Duration(40*x.h.Scale) * time.Second):
		// every context used here ends after at most 6 s x scale: a call that is still running is stuck for good
		x.hung = true
		mu.Lock()
		defer mu.Unlock()
		part := map[uint16]callRes{}
		for u, r := range res {
			part[u] = r
		}
		for _, u := range nodes {
			if _, ok := part[u]; !ok {
				part[u] = callRes{u, nil, fmt.Errorf("call had not returned 40 s after it was issued (its context ended long before)")}
			}
		}
		return part
	}
	return res
}

func (x *c12exec) pick(topic string, members []uint16) {
	if x.h.Mode == "silent" {
		m := append([]uint16{}, members...)
		sort.Slice(m, func(i, j int) bool { return m[i] < m[j] })
		x.c.SetPick(topic, m)
	}
}

func (x *c12exec) signers(rng *rand.Rand) []uint16 {
	k := x.c.Cfg.Threshold + 1
	perm := rng.Perm(len(x.nodes))
	var s []uint16
	for _, i := range perm[:k] {
		s = append(s, x.nodes[i])
	}
	sort.Slice(s, func(i, j int) bool { return s[i] < s[j] })
	return s
}

func digestFor(topic string) []byte { return []byte("digest-for-" + topic + "-0123456789abcdef") }

func (x *c12exec) sign(ctx context.Context, u uint16, topic string) ([]byte, error) {
	return x.c.Schemes[u].Sign(ctx, digestFor(topic), topic)
}

// checkSigs: every successful signer got a signature made for its own digest.
func checkSigs(res map[uint16]callRes, topic string) string {
	for u, r := range res {
		if r.err != nil {
			return fmt.Sprintf("Sign on topic %s failed at node %d: %v", topic, u, r.err)
		}
		if !bytes.HasSuffix(r.out, digestFor(topic)) {
			return fmt.Sprintf("Sign on topic %s at node %d returned a signature for another digest: %q", topic, u, r.out)
		}
	}
	return ""
}

type c12fail struct {
	sig, what string
	watchdog  bool // failure may be a deadline on a loaded machine: replay with longer deadlines before judging
}

func timedOut(err error) bool {
	return err != nil && (strings.Contains(err.Error(), "deadline") || strings.Contains(err.Error(), "synchronized") || strings.Contains(err.Error(), "acknowledgements") || strings.Contains(err.Error(), "canceled"))
}

func (x *c12exec) run(e common.Env, p *common.Part) *c12fail {
	h := x.h
	rng := e.Rng("c12-exec", h.Idx)
	m := map[uint16]uint16{}
	x.nodes = nil
	for i := 1; i <= h.N; i++ {
		m[uint16(i)] = uint16(i)
		x.nodes = append(x.nodes, uint16(i))
	}
	m[40] = 40 // a configured member that never takes part (foreign node)
	thr := h.N - 1
	if h.N > 3 && h.Idx%2 == 0 {
		thr = h.N - 2
	}
	_, pol := policyByIndex(h.Idx, rng, x.nodes)
	// the log sink is slow at the last message a key generation logs before it returns (a window in which the call has finished its
	// work but still owns the session's state)
	x.c = newRCluster(cluster.Config{Map: m, Silent: h.Mode == "silent", Barrier: h.Mode == "barrier", Threshold: thr, Script: c12script, Nodes: x.nodes,
		Logger: common.SlowLog{Prefixes: []string{"DKG completed", "Failed signing"}, Delay: 3 * time.Millisecond}}, rng, pol)
	defer x.c.Stop()
	threshold.SetVerifHook(x.hook)
	defer threshold.SetVerifHook(func(string) {})
	defer x.release()
	for _, u := range x.nodes {
		x.c.Schemes[u].SetStoredData([]byte("share-of-x"))
	}
	var lastSession struct {
		from, to uint64
		topic    string
	}
	for oi, op := range h.Ops {
		script := c12script
		script.InitHook = func(uint16) { x.hook("backend.init") }
		script.RunHook = func(uint16) { x.hook("backend.run") }
		x.c.NextSession(&script)
		from := x.c.logPos()
		fail := func(sig, what string, wd bool) *c12fail {
			return &c12fail{sig: sig + "/" + op.Kind, what: fmt.Sprintf("history %d (n=%d, %s) op %d %s(%s): %s", h.Idx, h.N, h.Mode, oi, op.Kind, op.Topic, what), watchdog: wd}
		}
		p.Count("ops", 1)
		p.Count("op_"+op.Kind, 1)
		switch op.Kind {
		case "keygen-ok":
			x.pick(tss.DkgTopicName, x.nodes)
			ctx, cancel := context.WithTimeout(context.Background(), x.dl(6000))
			res := x.calls(x.nodes, func(u uint16) ([]byte, error) { return x.c.Schemes[u].KeyGen(ctx, h.N, h.N-1) })
			cancel()
			for u, r := range res {
				if r.err != nil {
					return fail("keygen-refused-or-failed", fmt.Sprintf("KeyGen failed at node %d: %v", u, r.err), timedOut(r.err))
				}
			}
		case "keygen-with-foreign-traffic":
			// the membership has one more node (40) than the key generation has parties: node 40 and a non-member (77) re-send
			// everything the first node receives to all participants while the session is live
			x.pick(tss.DkgTopicName, x.nodes)
			tap := x.nodes[0]
			orig := x.c.Schemes[tap]
			x.c.Net.Attach(tap, simnet.HandlerFunc(func(mm *tss.IncMessage) {
				if mm.Source != 40 && mm.Source != 77 {
					for _, v := range x.nodes {
						x.c.Net.Inject(40, simnet.Outgoing{Dst: v, Type: mm.MsgType, Topic: mm.Topic, Data: mm.Data, Tag: "foreign"})
						x.c.Net.Inject(77, simnet.Outgoing{Dst: v, Type: mm.MsgType, Topic: mm.Topic, Data: mm.Data, Tag: "foreign"})
					}
				}
				orig.HandleMessage(mm)
			}))
			ctx, cancel := context.WithTimeout(context.Background(), x.dl(6000))
			res := x.calls(x.nodes, func(u uint16) ([]byte, error) { return x.c.Schemes[u].KeyGen(ctx, h.N, h.N-1) })
			cancel()
			x.c.Net.Attach(tap, orig)
			for u, r := range res {
				if r.err != nil {
					return fail("foreign-traffic-disturbs", fmt.Sprintf("KeyGen failed at node %d: %v", u, r.err), timedOut(r.err))
				}
			}
			if who, from, bad := foreignHandover(x.c, from, x.nodes); bad {
				return fail("foreign-traffic-reached-backend", fmt.Sprintf("node %d's protocol instance was handed a message attributed to party %d, which is not a participant of the session", who, from), false)
			}
			sc := sessCfg{Callers: x.nodes, Script: c12script}
			if sig, what := sessionTotality(x.c, sc, sessResult{FromSeq: from, Session: x.c.Session()}); sig != "" {
				return fail("foreign-traffic-reached-backend/"+sig, what, false)
			}
			p.Count("foreign_sessions", 1)
		case "keygen-duplicate":
			// a second KeyGen at one node while a key generation is live there must be refused and must not disturb the first
			x.pick(tss.DkgTopicName, x.nodes)
			victim := x.nodes[rng.Intn(len(x.nodes))]
			x.setHold("dkg.afterRBCRegister")
			ctx, cancel := context.WithTimeout(context.Background(), x.dl(6000))
			done := make(chan map[uint16]callRes, 1)
			go func() {
				done <- x.calls(x.nodes, func(u uint16) ([]byte, error) { return x.c.Schemes[u].KeyGen(ctx, h.N, h.N-1) })
			}()
			x.waitParked(h.N, x.dl(3000))
			c2, cancel2 := context.WithTimeout(context.Background(), x.dl(300))
			_, dupErr := x.c.Schemes[victim].KeyGen(c2, h.N, h.N-1)
			cancel2()
			x.release()
			res := <-done
			cancel()
			if dupErr == nil {
				return fail("duplicate-admitted", fmt.Sprintf("a second concurrent KeyGen was admitted at node %d", victim), false)
			}
			for u, r := range res {
				if r.err != nil {
					return fail("duplicate-disturbs-first", fmt.Sprintf("after a refused duplicate KeyGen at node %d the running key generation failed at node %d: %v", victim, u, r.err), timedOut(r.err))
				}
			}
			p.Count("held_windows", 1)
		case "keygen-missing-caller":
			callers := x.nodes[:len(x.nodes)-1]
			ctx, cancel := context.WithTimeout(context.Background(), x.dl(60))
			res := x.calls(callers, func(u uint16) ([]byte, error) { return x.c.Schemes[u].KeyGen(ctx, h.N, h.N-1) })
			cancel()
			for u, r := range res {
				if r.err == nil {
					return fail("completed-without-quorum", fmt.Sprintf("KeyGen at node %d succeeded although one party never took part", u), false)
				}
			}
		case "keygen-cancel":
			x.pick(tss.DkgTopicName, x.nodes)
			ctx, cancel := context.WithCancel(context.Background())
			go func() { time.Sleep(time.Duration(op.Arg) * 100 * time.Microsecond); cancel() }()
			x.calls(x.nodes, func(u uint16) ([]byte, error) { return x.c.Schemes[u].KeyGen(ctx, h.N, h.N-1) })
			cancel()
		case "keygen-cancel-held":
			// continuations parked right after the first synchronisation, call cancelled, continuations released afterwards
			// (or inside the set-up of the session, in the protocol instance's Init)
			x.setHold([]string{"dkg.callbackStart", "backend.init"}[op.Arg%2])
			ctx, cancel := context.WithCancel(context.Background())
			done := make(chan map[uint16]callRes, 1)
			go func() {
				done <- x.calls(x.nodes, func(u uint16) ([]byte, error) { return x.c.Schemes[u].KeyGen(ctx, h.N, h.N-1) })
			}()
			parked := x.waitParked(h.N, x.dl(3000))
			cancel()
			<-done
			x.release()
			if parked {
				p.Count("held_windows", 1)
			}
			time.Sleep(5 * time.Millisecond) // the released continuations run (they must not register anything)
		case "keygen-reissued-while-returning":
			// a second KeyGen is issued at one node at the moment its first KeyGen has finished the protocol and is on its way out
			// (the backend's KeyGen has returned; the orchestrator still logs and cleans up). It may be refused or admitted (then it
			// times out: its peers do not take part); nothing may panic and the next key generation must work.
			if h.Mode == "silent" {
				continue
			}
			x.pick(tss.DkgTopicName, x.nodes)
			victim := x.nodes[rng.Intn(len(x.nodes))]
			ctx, cancel := context.WithTimeout(context.Background(), x.dl(6000))
			done := make(chan map[uint16]callRes, 1)
			go func() {
				done <- x.calls(x.nodes, func(u uint16) ([]byte, error) { return x.c.Schemes[u].KeyGen(ctx, h.N, h.N-1) })
			}()
			var second callRes
			issued := false
			deadline := time.Now().Add(x.dl(3000))
			for time.Now().Before(deadline) {
				if b := x.c.LastBackend(victim); b != nil && b.Session == x.c.Session() && b.State() == backend.StDone {
					time.Sleep(time.Duration(200+rng.Intn(1500)) * time.Microsecond)
					c2, cn := context.WithTimeout(context.Background(), x.dl(80))
					o, e2 := x.c.Schemes[victim].KeyGen(c2, h.N, h.N-1)
					cn()
					second = callRes{victim, o, e2}
					issued = true
					break
				}
				time.Sleep(50 * time.Microsecond)
			}
			res := <-done
			cancel()
			for u, r := range res {
				if r.err != nil {
					return fail("concurrent-sessions-interfere", fmt.Sprintf("KeyGen failed at node %d while a second KeyGen was issued at node %d as the first one was returning: %v", u, victim, r.err), timedOut(r.err))
				}
			}
			if issued && second.err == nil {
				return fail("completed-without-quorum", fmt.Sprintf("a second KeyGen issued at node %d alone returned nil", victim), false)
			}
			if issued {
				p.Count("held_windows", 1)
			}
		case "keygen-second-sync-lost":
			// loud mode: the first synchronisation completes, the traffic of the second one (on the agreed member list) is lost, so
			// every KeyGen ends at its deadline INSIDE the second synchronisation; afterwards that lost traffic arrives late
			if h.Mode != "loud" {
				continue
			}
			memberT := cluster.MemberTopic(x.nodes)
			type lost struct {
				src  uint16
				dsts []uint16
				data []byte
			}
			var lmu sync.Mutex
			var losts []lost
			var dropped int32
			for _, u := range x.nodes {
				x.c.Net.SetInterceptor(u, func(nw *simnet.Net, src uint16, typ uint8, topic, data []byte, dsts []uint16) []simnet.Outgoing {
					if typ == uint8(tss.MsgTypeSync) && bytes.Equal(topic, memberT) {
						lmu.Lock()
						if len(losts) < 400 {
							losts = append(losts, lost{src, append([]uint16{}, dsts...), append([]byte{}, data...)})
						}
						lmu.Unlock()
						// only the responses (third message type of the synchroniser) are lost: the members announce themselves and
						// query each other, nobody ever gets an acknowledgement; everything is recorded and re-sent later
						if len(data) > 0 && data[0] == 3 {
							atomic.AddInt32(&dropped, 1)
							return nil
						}
					}
					var o []simnet.Outgoing
					for _, d := range dsts {
						o = append(o, simnet.Outgoing{Dst: d, Type: typ, Topic: topic, Data: data})
					}
					return o
				})
			}
			ctx, cancel := context.WithTimeout(context.Background(), x.dl(250))
			res := x.calls(x.nodes, func(u uint16) ([]byte, error) { return x.c.Schemes[u].KeyGen(ctx, h.N, h.N-1) })
			cancel()
			for _, u := range x.nodes {
				x.c.Net.SetInterceptor(u, nil)
			}
			for u, r := range res {
				if r.err == nil && atomic.LoadInt32(&dropped) > 0 {
					return fail("completed-without-second-synchronisation", fmt.Sprintf("KeyGen at node %d succeeded although responses of the second synchronisation were lost", u), false)
				}
			}
			x.c.drain(x.dl(300))
			time.Sleep(5 * time.Millisecond)
			mark := x.c.logPos()
			lmu.Lock()
			late := append([]lost{}, losts...)
			lmu.Unlock()
			nl := 0
			for _, l := range late {
				for _, d := range l.dsts {
					x.c.Net.Inject(l.src, simnet.Outgoing{Dst: d, Type: uint8(tss.MsgTypeSync), Topic: memberT, Data: l.data, Tag: "late-second-sync"})
					nl++
				}
			}
			p.Count("late_packets", int64(nl))
			x.c.drain(x.dl(1000))
			for _, ev := range x.c.eventsSince(mark) {
				if ev.Kind == simnet.EvSend {
					return fail("late-traffic-effect", fmt.Sprintf("node %d transmitted in response to synchronisation traffic of a key generation that had ended (its second synchronisation is still registered)", ev.Node), false)
				}
				if ev.Kind == simnet.EvOnMsg {
					return fail("late-traffic-effect", fmt.Sprintf("late traffic of the ended key generation reached the backend of node %d", ev.Node), false)
				}
			}
			if nl > 0 {
				p.Count("held_windows", 1)
			}
		case "sign-ok":
			s := x.signers(rng)
			x.pick(op.Topic, s)
			ctx, cancel := context.WithTimeout(context.Background(), x.dl(6000))
			res := x.calls(s, func(u uint16) ([]byte, error) { return x.sign(ctx, u, op.Topic) })
			cancel()
			if w := checkSigs(res, op.Topic); w != "" {
				wd := false
				for _, r := range res {
					wd = wd || timedOut(r.err)
				}
				return fail("sign-refused-or-failed", w, wd)
			}
			sc := sessCfg{Callers: s, Sign: true, Script: c12script}
			if sig, what := sessionTotality(x.c, sc, sessResult{FromSeq: from, Session: x.c.Session()}); sig != "" {
				return fail(sig, what, false)
			}
			lastSession.from, lastSession.to, lastSession.topic = from, x.c.logPos(), op.Topic
		case "sign-too-few":
			s := x.signers(rng)
			s = s[:len(s)-1]
			x.pick(op.Topic, append(append([]uint16{}, s...), 40))
			ctx, cancel := context.WithTimeout(context.Background(), x.dl(50))
			res := x.calls(s, func(u uint16) ([]byte, error) { return x.sign(ctx, u, op.Topic) })
			cancel()
			for u, r := range res {
				if r.err == nil {
					return fail("completed-without-quorum", fmt.Sprintf("Sign at node %d succeeded although too few signers took part", u), false)
				}
			}
		case "sign-too-many":
			// every node joins the topic although only Threshold+1 are expected: the membership synchroniser reports the surplus as
			// an error while the callers' contexts are still alive (a session that FAILED rather than timed out); no outcome is
			// demanded of it, the successful session that follows on the same topic is the test
			ctx, cancel := context.WithTimeout(context.Background(), x.dl(1500))
			res := x.calls(x.nodes, func(u uint16) ([]byte, error) { return x.sign(ctx, u, op.Topic) })
			alive := ctx.Err() == nil
			cancel()
			for _, r := range res {
				if r.err != nil && alive {
					p.Count("sessions_failed_with_live_context", 1)
					break
				}
			}
			time.Sleep(5 * time.Millisecond)
		case "sign-cancel":
			s := x.signers(rng)
			x.pick(op.Topic, s)
			ctx, cancel := context.WithCancel(context.Background())
			go func() { time.Sleep(time.Duration(op.Arg) * 100 * time.Microsecond); cancel() }()
			x.calls(s, func(u uint16) ([]byte, error) { return x.sign(ctx, u, op.Topic) })
			cancel()
		case "sign-cancel-held":
			pt := []string{"sign.callbackStart", "sign.afterPrepare", "backend.init"}[op.Arg%3]
			s := x.signers(rng)
			x.pick(op.Topic, s)
			x.setHold(pt)
			ctx, cancel := context.WithCancel(context.Background())
			done := make(chan map[uint16]callRes, 1)
			go func() { done <- x.calls(s, func(u uint16) ([]byte, error) { return x.sign(ctx, u, op.Topic) }) }()
			parked := x.waitParked(len(s), x.dl(3000))
			cancel()
			<-done
			x.release()
			if parked {
				p.Count("held_windows", 1)
			}
			time.Sleep(5 * time.Millisecond)
		case "sign-reuse-at-once":
			// every signer signs again on the same topic the moment its first call returns; the first
			// session's continuation is held right after it handed its result over
			s := x.signers(rng)
			x.pick(op.Topic, s)
			x.setHold("sign.afterResult")
			ctx, cancel := context.WithTimeout(context.Background(), x.dl(6000))
			type two struct{ first, second callRes }
			var mu sync.Mutex
			both := map[uint16]two{}
			var wg sync.WaitGroup
			for _, u := range s {
				u := u
				wg.Add(1)
				go func() {
					defer wg.Done()
					o1, e1 := x.sign(ctx, u, op.Topic)
					var o2 []byte
					var e2 error
					if e1 == nil {
						o2, e2 = x.sign(ctx, u, op.Topic)
					}
					mu.Lock()
					both[u] = two{callRes{u, o1, e1}, callRes{u, o2, e2}}
					mu.Unlock()
				}()
			}
			wg.Wait()
			cancel()
			x.release()
			for u, b := range both {
				if b.first.err != nil {
					return fail("sign-refused-or-failed", fmt.Sprintf("first Sign failed at node %d: %v", u, b.first.err), timedOut(b.first.err))
				}
				if b.second.err != nil {
					return fail("reuse-refused", fmt.Sprintf("a Sign issued at node %d the moment the previous Sign on the same topic had returned failed: %v", u, b.second.err), timedOut(b.second.err))
				}
			}
			p.Count("held_windows", 1)
		case "keygen-reuse-at-once":
			// every node calls KeyGen again the moment its first call returned; the first session's continuations are held right
			// after they handed their results over and are let go a PRNG moment (0..12 ms) after the last of them got there, i.e.
			// while the second key generation is being set up: whatever a continuation still does on its way out must not touch
			// what the next session has registered
			x.setHold("dkg.afterResult")
			ctx, cancel := context.WithTimeout(context.Background(), x.dl(6000))
			type two struct{ first, second callRes }
			var mu sync.Mutex
			both := map[uint16]two{}
			var wg sync.WaitGroup
			relDone := make(chan struct{})
			delay := time.Duration(op.Arg*300) * time.Microsecond
			go func() {
				defer close(relDone)
				x.waitParked(len(x.nodes), x.dl(5000))
				time.Sleep(delay)
				x.release()
			}()
			for _, u := range x.nodes {
				u := u
				wg.Add(1)
				go func() {
					defer wg.Done()
					o1, e1 := x.c.Schemes[u].KeyGen(ctx, len(x.nodes), x.c.Cfg.Threshold+1)
					var o2 []byte
					var e2 error
					if e1 == nil {
						o2, e2 = x.c.Schemes[u].KeyGen(ctx, len(x.nodes), x.c.Cfg.Threshold+1)
					}
					mu.Lock()
					both[u] = two{callRes{u, o1, e1}, callRes{u, o2, e2}}
					mu.Unlock()
				}()
			}
			wg.Wait()
			cancel()
			x.release()
			<-relDone
			for u, b := range both {
				if b.first.err != nil {
					return fail("keygen-refused-or-failed", fmt.Sprintf("first KeyGen failed at node %d: %v", u, b.first.err), timedOut(b.first.err))
				}
				if b.second.err != nil {
					return fail("reuse-refused", fmt.Sprintf("a KeyGen issued at node %d the moment the previous KeyGen had returned failed: %v", u, b.second.err), timedOut(b.second.err))
				}
			}
			p.Count("held_windows", 1)
			time.Sleep(3 * time.Millisecond)
		case "keygen-and-sign-at-once":
			// a key generation among all nodes and a signing session run at the same time on the same scheme objects
			s := x.signers(rng)
			x.pick(op.Topic, s)
			x.pick(tss.DkgTopicName, x.nodes)
			ctx, cancel := context.WithTimeout(context.Background(), x.dl(6000))
			var rk, rs map[uint16]callRes
			var wg sync.WaitGroup
			wg.Add(2)
			go func() {
				defer wg.Done()
				rk = x.calls(x.nodes, func(u uint16) ([]byte, error) { return x.c.Schemes[u].KeyGen(ctx, h.N, h.N-1) })
			}()
			go func() {
				defer wg.Done()
				rs = x.calls(s, func(u uint16) ([]byte, error) { return x.sign(ctx, u, op.Topic) })
			}()
			wg.Wait()
			cancel()
			for u, r := range rk {
				if r.err != nil {
					return fail("concurrent-sessions-interfere", fmt.Sprintf("KeyGen failed at node %d while a Sign was running: %v", u, r.err), timedOut(r.err))
				}
			}
			if w := checkSigs(rs, op.Topic); w != "" {
				return fail("concurrent-sessions-interfere", "while a KeyGen was running: "+w, strings.Contains(w, "deadline"))
			}
		case "sign-two-topics":
			s1 := x.signers(rng)
			s2 := x.signers(rng)
			t2 := op.Topic + "-b"
			// every second time both sessions sign the SAME digest (a payload submitted again under a fresh topic): whatever a
			// session derives from the digest must not serve as an address of its state
			d2 := t2
			if op.Arg%2 == 1 {
				d2 = op.Topic
			}
			x.pick(op.Topic, s1)
			x.pick(t2, s2)
			ctx, cancel := context.WithTimeout(context.Background(), x.dl(6000))
			var r1, r2 map[uint16]callRes
			var wg sync.WaitGroup
			wg.Add(2)
			go func() {
				defer wg.Done()
				r1 = x.calls(s1, func(u uint16) ([]byte, error) { return x.sign(ctx, u, op.Topic) })
			}()
			go func() {
				defer wg.Done()
				r2 = x.calls(s2, func(u uint16) ([]byte, error) { return x.c.Schemes[u].Sign(ctx, digestFor(d2), t2) })
			}()
			wg.Wait()
			cancel()
			if d2 == op.Topic {
				p.Count("concurrent_topics_with_one_digest", 1)
			}
			for _, w := range []string{checkSigs(r1, op.Topic), checkSigs(r2, d2)} {
				if w != "" {
					return fail("concurrent-topics-interfere", w, strings.Contains(w, "deadline"))
				}
			}
			// hand-overs must be exactly once per (node, sender, round, kind) and session-pure per topic: both
			// sessions share one session id here, so count = 2 where a node takes part in both
			cnt := map[string]int{}
			for _, ev := range x.c.eventsSince(from) {
				if ev.Kind == simnet.EvOnMsg {
					pl, _ := backend.Decode(ev.Data)
					cnt[fmt.Sprintf("%d/%c/%d/%d", ev.Node, pl.Kind, pl.Round, ev.Peer)]++
				}
			}
			in := func(s []uint16, u uint16) int {
				for _, v := range s {
					if v == u {
						return 1
					}
				}
				return 0
			}
			for k, c := range cnt {
				var node, round, from uint16
				var kind byte
				fmt.Sscanf(k, "%d/%c/%d/%d", &node, &kind, &round, &from)
				want := in(s1, node)*in(s1, from) + in(s2, node)*in(s2, from)
				if c != want {
					return fail("concurrent-topics-interfere", fmt.Sprintf("hand-overs %s: %d, expected %d", k, c, want), false)
				}
			}
		case "sign-duplicate":
			// a second Sign on a live topic at one node must be refused and must not disturb the first
			s := x.signers(rng)
			x.pick(op.Topic, s)
			victim := s[rng.Intn(len(s))]
			ctx, cancel := context.WithTimeout(context.Background(), x.dl(6000))
			var dupErr error
			var dupDone sync.WaitGroup
			// hold everybody's continuation so that the first session is certainly live when the duplicate arrives: during its set-up,
			// or - every second time - at the start of its protocol phase (all synchronisations done, the protocol call has begun)
			x.setHold([]string{"sign.afterPrepare", "backend.run"}[op.Arg%2])
			done := make(chan map[uint16]callRes, 1)
			go func() { done <- x.calls(s, func(u uint16) ([]byte, error) { return x.sign(ctx, u, op.Topic) }) }()
			x.waitParked(len(s), x.dl(3000))
			dupDone.Add(1)
			go func() {
				defer dupDone.Done()
				c2, cancel2 := context.WithTimeout(context.Background(), x.dl(300))
				defer cancel2()
				_, dupErr = x.sign(c2, victim, op.Topic)
			}()
			dupDone.Wait()
			x.release()
			res := <-done
			cancel()
			if dupErr == nil {
				return fail("duplicate-admitted", fmt.Sprintf("a second concurrent Sign on the live topic was admitted at node %d", victim), false)
			}
			if w := checkSigs(res, op.Topic); w != "" {
				return fail("duplicate-disturbs-first", "after a refused duplicate Sign at node "+fmt.Sprint(victim)+": "+w, false)
			}
			p.Count("held_windows", 1)
		case "sign-duplicate-racing":
			// two Sign calls on one topic are issued at one node at the same moment; the node's synchroniser factory (a dependency the
			// consumer supplies) lets the first caller wait briefly for the second, so that both are inside the admission step together.
			// Exactly one of them must be refused; the other one and the other nodes' calls must succeed.
			if h.Mode == "silent" {
				continue
			}
			s := x.signers(rng)
			x.pick(op.Topic, s)
			victim := s[rng.Intn(len(s))]
			sch, isScheme := x.c.Schemes[victim].(*threshold.Scheme)
			if !isScheme {
				continue
			}
			orig := sch.SyncFactory
			var arrivals, met, waiting int32
			gate := make(chan struct{})
			var gateOnce sync.Once
			sch.SyncFactory = func(members []uint16, bc func([]byte), send func([]byte, uint16)) tss.Synchronizer {
				switch atomic.AddInt32(&arrivals, 1) {
				case 1:
					atomic.StoreInt32(&waiting, 1)
					select {
					case <-gate:
					case <-time.After(time.Duration(40*x.h.Scale) * time.Millisecond):
					}
					atomic.StoreInt32(&waiting, 0)
				case 2:
					// the first caller is still inside the factory: it cannot have made this call itself, so this is the other Sign
					if atomic.LoadInt32(&waiting) == 1 {
						atomic.StoreInt32(&met, 1)
					}
					gateOnce.Do(func() { close(gate) })
				}
				return orig(members, bc, send)
			}
			ctx, cancel := context.WithTimeout(context.Background(), x.dl(6000))
			var r1, r2 callRes
			var dup sync.WaitGroup
			var dupReturned int32
			dup.Add(2)
			// the session of whichever call is admitted is kept LIVE (every continuation is held at its start) until the other call
			// has returned: on a loaded machine the admitted session could otherwise be over before the other call gets to its
			// admission check, which would then be a sequence of two calls and no duplicate at all
			x.setHold("sign.callbackStart")
			go func() {
				defer dup.Done()
				o, e := x.sign(ctx, victim, op.Topic)
				r1 = callRes{victim, o, e}
				atomic.AddInt32(&dupReturned, 1)
			}()
			go func() {
				defer dup.Done()
				o, e := x.sign(ctx, victim, op.Topic)
				r2 = callRes{victim, o, e}
				atomic.AddInt32(&dupReturned, 1)
			}()
			go func() {
				deadline := time.Now().Add(x.dl(5000))
				for atomic.LoadInt32(&dupReturned) == 0 && time.Now().Before(deadline) {
					time.Sleep(200 * time.Microsecond)
				}
				x.release()
			}()
			var others []uint16
			for _, u := range s {
				if u != victim {
					others = append(others, u)
				}
			}
			res := x.calls(others, func(u uint16) ([]byte, error) { return x.sign(ctx, u, op.Topic) })
			dupDone := make(chan struct{})
			go func() { dup.Wait(); close(dupDone) }()
			select {
			case <-dupDone:
			case <-time.After(time.Duration(40*x.h.Scale) * time.Second):
				x.hung = true
			}
			cancel()
			sch.SyncFactory = orig
			if x.hung {
				return fail("call-did-not-return", "one of two Sign calls issued together on one topic at node "+fmt.Sprint(victim)+" had not returned long after its context ended", false)
			}
			if atomic.LoadInt32(&met) == 0 {
				// the two calls did not meet in the admission step (the second one came after the first had gone on, possibly after it
				// had finished): whatever happened is a sequence of two calls, not a race, and is not judged here
				p.Count("rendezvous_missed", 1)
				continue
			}
			refused := 0
			var winner callRes
			for _, r := range []callRes{r1, r2} {
				if r.err != nil && strings.Contains(r.err.Error(), "already") {
					refused++
				} else {
					winner = r
				}
			}
			switch {
			case refused == 0:
				return fail("duplicate-admitted", fmt.Sprintf("two Sign calls issued together on the same topic at node %d: neither was refused (results: %v / %v)", victim, r1.err, r2.err), false)
			case refused == 2:
				return fail("duplicate-disturbs-first", fmt.Sprintf("two Sign calls issued together on the same topic at node %d were both refused", victim), false)
			}
			res[victim] = winner
			if w := checkSigs(res, op.Topic); w != "" {
				return fail("duplicate-disturbs-first", "after one of two racing Sign calls at node "+fmt.Sprint(victim)+" was refused: "+w, strings.Contains(w, "deadline"))
			}
			p.Count("held_windows", 1)
		case "late-replay":
			if lastSession.topic == "" || h.Mode == "silent" {
				continue
			}
			x.c.drain(x.dl(300))
			time.Sleep(3 * time.Millisecond)
			mark := x.c.logPos()
			n := 0
			for _, ev := range x.c.Net.Log() {
				if ev.Kind == simnet.EvDeliver && ev.Seq > lastSession.from && ev.Seq <= lastSession.to && n < 400 {
					x.c.Net.Inject(ev.Peer, simnet.Outgoing{Dst: ev.Node, Type: ev.Type, Topic: topicBytes(x.c, lastSession.topic, ev.Topic), Data: ev.Data, Tag: "late-replay"})
					n++
				}
			}
			p.Count("late_packets", int64(n))
			x.c.drain(x.dl(1000))
			for _, ev := range x.c.eventsSince(mark) {
				if ev.Kind == simnet.EvOnMsg {
					return fail("late-traffic-effect", fmt.Sprintf("traffic of the finished session on topic %s reached the backend of node %d", lastSession.topic, ev.Node), false)
				}
				if ev.Kind == simnet.EvSend {
					return fail("late-traffic-effect", fmt.Sprintf("node %d transmitted in response to traffic of a finished session", ev.Node), false)
				}
			}
		case "sign-with-foreign-traffic":
			// a configured member outside the session (40) and a non-member (77) re-send everything node s[0] receives to all signers
			s := x.signers(rng)
			x.pick(op.Topic, s)
			tap := s[0]
			orig := x.c.Schemes[tap]
			x.c.Net.Attach(tap, simnet.HandlerFunc(func(mm *tss.IncMessage) {
				if mm.Source != 40 && mm.Source != 77 {
					for _, v := range s {
						x.c.Net.Inject(40, simnet.Outgoing{Dst: v, Type: mm.MsgType, Topic: mm.Topic, Data: mm.Data, Tag: "foreign"})
						x.c.Net.Inject(77, simnet.Outgoing{Dst: v, Type: mm.MsgType, Topic: mm.Topic, Data: mm.Data, Tag: "foreign"})
					}
				}
				orig.HandleMessage(mm)
			}))
			ctx, cancel := context.WithTimeout(context.Background(), x.dl(6000))
			res := x.calls(s, func(u uint16) ([]byte, error) { return x.sign(ctx, u, op.Topic) })
			cancel()
			x.c.Net.Attach(tap, orig)
			if w := checkSigs(res, op.Topic); w != "" {
				return fail("foreign-traffic-disturbs", w, strings.Contains(w, "deadline"))
			}
			if who, from, bad := foreignHandover(x.c, from, s); bad {
				return fail("foreign-traffic-reached-backend", fmt.Sprintf("node %d's protocol instance was handed a message attributed to party %d, which is not a participant of the session", who, from), false)
			}
			sc := sessCfg{Callers: s, Sign: true, Script: c12script}
			if sig, what := sessionTotality(x.c, sc, sessResult{FromSeq: from, Session: x.c.Session()}); sig != "" {
				return fail("foreign-traffic-reached-backend/"+sig, what, false)
			}
			p.Count("foreign_sessions", 1)
		}
		if x.hung {
			return fail("call-did-not-return", "a KeyGen/Sign call had not returned 40 s after it was issued, long after its context ended; every later call on that node waits as well", false)
		}
		x.c.drain(x.dl(300))
	}
	return nil
}

// topicBytes recovers the full topic of a logged packet: events keep only a prefix, so recompute from the names in use.
func topicBytes(c *rcluster, topicName string, prefixHex string) []byte {
	cands := [][]byte{cluster.Hash([]byte(topicName)), cluster.Hash(cluster.Hash([]byte(topicName))), dkgTopic}
	for _, t := range cands {
		if simnet.TopicHex(t) == prefixHex {
			return t
		}
	}
	return cands[0]
}

func genC12(rng *rand.Rand, idx int, e common.Env) c12hist {
	h := c12hist{Idx: idx, N: 3 + rng.Intn(3), Mode: []string{"loud", "barrier", "silent", "loud"}[idx%4], Scale: 1}
	steps := 8 + rng.Intn(10)
	if e.Thorough() {
		steps = 10 + rng.Intn(30)
	}
	topics := []string{"alpha", "beta", "gamma", "delta"}[:2+rng.Intn(3)]
	fresh := 0
	keygens := 0
	for i := 0; i < steps; i++ {
		t := topics[rng.Intn(len(topics))]
		if h.Mode == "silent" {
			// topic re-use in silent mode is the subject of the separate sub-oracle (known finding): fresh topics only
			fresh++
			t = fmt.Sprintf("fresh-%d-%d", idx, fresh)
		}
		var kinds []string
		if h.Mode == "silent" {
			kinds = []string{"sign-ok", "sign-ok", "sign-two-topics", "sign-with-foreign-traffic", "sign-too-few", "sign-duplicate"}
			if keygens == 0 {
				kinds = append(kinds, "keygen-ok", "keygen-with-foreign-traffic")
			}
		} else {
			kinds = []string{"keygen-ok", "keygen-with-foreign-traffic", "keygen-duplicate", "keygen-missing-caller", "keygen-cancel", "keygen-cancel-held", "keygen-second-sync-lost", "keygen-reissued-while-returning", "sign-ok", "sign-ok", "sign-too-few", "sign-cancel", "sign-cancel-held",
				"sign-reuse-at-once", "sign-two-topics", "sign-duplicate", "sign-duplicate-racing", "late-replay", "sign-with-foreign-traffic", "keygen-and-sign-at-once", "keygen-reuse-at-once"}
			if h.Mode == "loud" && h.N > 3 && h.Idx%2 == 0 {
				kinds = append(kinds, "sign-too-many", "sign-too-many")
			}
		}
		k := kinds[rng.Intn(len(kinds))]
		if strings.HasPrefix(k, "keygen") {
			keygens++
		}
		h.Ops = append(h.Ops, c12op{Kind: k, Topic: t, Arg: rng.Intn(40)})
		// a failed / cancelled operation is followed by a successful one on the same topic: the residue test proper
		switch k {
		case "sign-too-few", "sign-too-many", "sign-cancel", "sign-cancel-held", "sign-duplicate", "sign-duplicate-racing":
			if h.Mode != "silent" {
				h.Ops = append(h.Ops, c12op{Kind: "sign-ok", Topic: t})
			}
		case "keygen-missing-caller", "keygen-cancel", "keygen-cancel-held", "keygen-second-sync-lost", "keygen-reissued-while-returning":
			h.Ops = append(h.Ops, c12op{Kind: "keygen-ok"})
		case "sign-ok":
			if h.Mode != "silent" && rng.Intn(3) == 0 {
				h.Ops = append(h.Ops, c12op{Kind: "late-replay"})
			}
		}
	}
	return h
}

func unitC12(e common.Env, p *common.Part) {
	p.Rule = "PRNG histories of 8..40 operations over 3..5 nodes and 2..4 topics on one cluster of real schemes (loud with real disc.Member, barrier, silent): successful / too-few-callers / cancelled KeyGen and Sign, cancellation with the continuation held at a verif point or inside the protocol instance's Init (between instance creation and handler registration), re-use of a topic the moment the previous call returned (continuation held after the result hand-off), two topics at once (every second time with one and the same digest), a key generation and a signing session at once, duplicate Sign on a live topic, two Sign calls on one topic issued together at one node (brought into the admission step together by the consumer-supplied synchroniser factory), replay of a finished session's traffic, a key generation whose second synchronisation's traffic is lost and arrives after the call ended, a second KeyGen issued at a node while its first one is on its way out (slow log sink at the last message it logs), foreign-node and non-member traffic during a live session; every failed or cancelled operation is followed by a successful one on the same topic; distinct key = history hash; non-trivial when the history re-uses a topic, overlaps sessions or injects late/foreign traffic"
	p.Assumptions = append(p.Assumptions, "silent-mode histories use a fresh topic per session (re-use in silent mode is the separate sub-oracle c12silent); expected failures use short deadlines, expected successes a 6 s watchdog with a replay of the whole history at 5x deadlines before a deadline is judged")
	n := e.Pick(64, 4000)
	for i := 0; i < n; i++ {
		if !e.Mine(i) || p.ViolationCount() >= 3 {
			continue
		}
		h := genC12(e.Rng("c12", i), i, e)
		var kinds []string
		for _, o := range h.Ops {
			kinds = append(kinds, o.Kind)
		}
		key := fmt.Sprintf("h%d n=%d %s %v", i, h.N, h.Mode, kinds)
		p.Begin(key)
		x := &c12exec{h: h}
		f := x.run(e, p)
		if f != nil && f.watchdog {
			p.Count("watchdog_replays", 1)
			h.Scale = 5
			x = &c12exec{h: h}
			f = x.run(e, p)
		}
		p.Case(key, true)
		if f != nil {
			p.Violate(f.sig, f.what, map[string]interface{}{"history": h})
		}
		if i%17 == 0 {
			p.Sample(map[string]interface{}{"history": i, "n": h.N, "mode": h.Mode, "ops": kinds})
		}
	}
}

// ---- silent-mode topic re-use (sub-oracle with its own finding signature) ----

func unitC12silent(e common.Env, p *common.Part) {
	p.Rule = "silent mode: a second session on a topic (Sign on the same topic; KeyGen after KeyGen) begun after the first one finished everywhere and its traffic drained, with the nodes starting a few milliseconds apart; distinct key = (operation, n, stagger order)"
	cases := e.Pick(4, 12)
	for i := 0; i < cases; i++ {
		if !e.Mine(i) {
			continue
		}
		rng := e.Rng("c12silent", i)
		n := 3 + i%2
		keygen := i%2 == 1
		m := map[uint16]uint16{}
		var nodes []uint16
		for k := 1; k <= n; k++ {
			m[uint16(k)] = uint16(k)
			nodes = append(nodes, uint16(k))
		}
		key := fmt.Sprintf("reuse keygen=%v n=%d #%d", keygen, n, i)
		p.Begin(key)
		c := newRCluster(cluster.Config{Map: m, Silent: true, Threshold: n - 1, Script: c12script}, rng, simnet.Uniform)
		for _, u := range nodes {
			c.Schemes[u].SetStoredData([]byte("share-of-x"))
		}
		topic := fmt.Sprintf("silent-reuse-%d", i)
		runOnce := func(stagger bool, deadline time.Duration) map[uint16]error {
			script := c12script
			c.NextSession(&script)
			if keygen {
				c.SetPick(tss.DkgTopicName, nodes)
			} else {
				c.SetPick(topic, nodes)
			}
			ctx, cancel := context.WithTimeout(context.Background(), deadline)
			defer cancel()
			errs := map[uint16]error{}
			var mu sync.Mutex
			var wg sync.WaitGroup
			for k, u := range nodes {
				u, k := u, k
				wg.Add(1)
				go func() {
					defer wg.Done()
					if stagger && k > 0 {
						// the first node's opening messages reach the others before they begin
						time.Sleep(5 * time.Millisecond)
						c.drain(200 * time.Millisecond)
					}
					var err error
					if keygen {
						_, err = c.Schemes[u].KeyGen(ctx, n, n-1)
					} else {
						_, err = c.Schemes[u].Sign(ctx, digestFor(topic), topic)
					}
					mu.Lock()
					errs[u] = err
					mu.Unlock()
				}()
			}
			wg.Wait()
			return errs
		}
		first := runOnce(true, 6*time.Second)
		for u, err := range first {
			if err != nil {
				p.Violate("silent-first-session-failed", fmt.Sprintf("%s: the first session failed at node %d: %v", key, u, err), nil)
			}
		}
		c.drain(500 * time.Millisecond)
		second := runOnce(true, 1500*time.Millisecond)
		failed := 0
		for _, err := range second {
			if err != nil {
				failed++
			}
		}
		p.Case(key, true)
		p.Count("reuse_sessions", 1)
		if failed > 0 {
			op := "sign"
			if keygen {
				op = "keygen"
			}
			p.Violate("silent-reuse/staggered-start/"+op, fmt.Sprintf("%s: after a finished session whose traffic had drained, a second session on the same topic begun 5 ms apart failed at %d of %d nodes (%v)", key, failed, n, second), map[string]interface{}{"n": n, "keygen": keygen})
		}
		p.Sample(map[string]interface{}{"case": key, "second_session_failures": failed})
		c.Stop()
	}
}

// foreignHandover: a hand-over (after log position `from`) attributed to a party that no session participant represents.
func foreignHandover(c *rcluster, from uint64, participants []uint16) (uint16, uint16, bool) {
	ok := map[uint16]bool{}
	for _, u := range participants {
		ok[c.Cfg.Map[u]] = true
	}
	for _, ev := range c.eventsSince(from) {
		if ev.Kind == simnet.EvOnMsg && !ok[ev.Peer] {
			return ev.Node, ev.Peer, true
		}
	}
	return 0, 0, false
}
