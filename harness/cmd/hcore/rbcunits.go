package main

import (
	"fmt"
	"math/rand"

	"verifharness/common"
	"verifharness/dfs"
	"verifharness/simnet"
)

// ---------------- C04 at rbc.Receiver level ----------------

type honestCfg struct {
	N       int
	Senders []uint16
	Rounds  int
	P2P     bool
	Limit   int // DFS execution limit; 0 = sample only
	Samples int
}

func (c honestCfg) name() string {
	return fmt.Sprintf("N=%d senders=%v rounds=%d p2p=%v", c.N, c.Senders, c.Rounds, c.P2P)
}

func idsUpTo(n int) []uint16 {
	var ids []uint16
	for i := 1; i <= n; i++ {
		ids = append(ids, uint16(i))
	}
	return ids
}

func (c honestCfg) world() *rworld {
	w := newRWorld(idsUpTo(c.N), nil)
	for r := 1; r <= c.Rounds; r++ {
		for _, s := range c.Senders {
			w.honestBroadcast(s, uint8(r))
			if c.P2P {
				w.honestP2P(s, uint8(r))
			}
		}
	}
	return w
}

func overtakingPolicy(rng *rand.Rand) func(*rand.Rand, []simnet.Link, int) simnet.Link {
	mode := rng.Intn(4)
	starve := uint16(1 + rng.Intn(5))
	return func(r *rand.Rand, en []simnet.Link, step int) simnet.Link {
		switch mode {
		case 0: // uniform
			return en[r.Intn(len(en))]
		case 1: // starve one sender's links: acknowledgements overtake its payloads
			var o []simnet.Link
			for _, l := range en {
				if l.Src != starve {
					o = append(o, l)
				}
			}
			if len(o) > 0 {
				return o[r.Intn(len(o))]
			}
			return en[r.Intn(len(en))]
		case 2: // serve one receiver as long as possible
			best := en[0]
			for _, l := range en {
				if l.Dst < best.Dst {
					best = l
				}
			}
			if r.Intn(5) == 0 {
				return en[r.Intn(len(en))]
			}
			return best
		default: // last enabled first
			if r.Intn(3) == 0 {
				return en[r.Intn(len(en))]
			}
			return en[len(en)-1]
		}
	}
}

func unitC04rbc(e common.Env, p *common.Part) {
	p.Rule = "all-honest rbc.Receiver worlds (N, senders, rounds, p2p); distinct key = (configuration, hash of the delivery sequence); non-trivial when >=2 senders or an acknowledgement reached a party before the payload it vouches for; small spaces enumerated by sleep-set DFS (exhaustive flags per configuration), others sampled with overtaking policies"
	p.Assumptions = append(p.Assumptions, "rbc level: per-link FIFO, every transmission eventually delivered, parties share no state (sleep-set independence: deliveries at different receivers commute)")
	var cfgs []honestCfg
	big := e.Pick(0, 1)
	cfgs = append(cfgs,
		honestCfg{N: 2, Senders: []uint16{1, 2}, Rounds: 3, P2P: true, Limit: 200000},
		honestCfg{N: 3, Senders: []uint16{1}, Rounds: 1, Limit: 200000},
		honestCfg{N: 3, Senders: []uint16{1}, Rounds: 1, P2P: true, Limit: 200000},
		honestCfg{N: 3, Senders: []uint16{1, 2}, Rounds: 1, Limit: 200000},
		honestCfg{N: 3, Senders: []uint16{1}, Rounds: 2, Limit: 200000},
		honestCfg{N: 4, Senders: []uint16{1}, Rounds: 1, Limit: 200000},
		honestCfg{N: 3, Senders: []uint16{1, 2, 3}, Rounds: 1, Limit: e.Pick(0, 400000), Samples: e.Pick(1500, 0)},
		honestCfg{N: 3, Senders: []uint16{1, 2, 3}, Rounds: 2, Samples: e.Pick(800, 400000)},
		honestCfg{N: 3, Senders: []uint16{1, 2, 3}, Rounds: 3, P2P: true, Samples: e.Pick(500, 200000)},
		honestCfg{N: 4, Senders: []uint16{1, 2}, Rounds: 1, Samples: e.Pick(800, 400000)},
		honestCfg{N: 4, Senders: []uint16{1, 2, 3, 4}, Rounds: 2, P2P: true, Samples: e.Pick(500, 200000)},
		honestCfg{N: 5, Senders: []uint16{1, 2, 3}, Rounds: 2, P2P: true, Samples: e.Pick(300, 150000)},
		honestCfg{N: 5, Senders: []uint16{1, 2, 3, 4, 5}, Rounds: 3, P2P: true, Samples: e.Pick(200, 80000)},
	)
	if big == 1 {
		cfgs = append(cfgs, honestCfg{N: 3, Senders: []uint16{1, 2}, Rounds: 1, P2P: true, Limit: 2000000},
			honestCfg{N: 4, Senders: []uint16{1}, Rounds: 1, P2P: true, Limit: 2000000},
			honestCfg{N: 6, Senders: []uint16{1, 2, 3, 4, 5, 6}, Rounds: 2, P2P: true, Samples: 40000})
	}
	for i, c := range cfgs {
		if !e.Mine(i) || p.ViolationCount() >= 3 {
			continue
		}
		c := c
		p.Begin(c.name())
		check := func(wd dfs.World, path []simnet.Link) bool {
			w := wd.(*rworld)
			ov := w.overtakes()
			p.Case(c.name()+"#"+dfs.PathHash(path), len(c.Senders) >= 2 || ov > 0)
			p.Count("handovers", int64(len(w.hand)))
			p.Count("deliveries", int64(len(w.deliv)))
			p.Count("ack_before_payload", int64(ov))
			if sig, what := w.checkTotality(); sig != "" {
				p.Violate(sig, c.name()+": "+what, map[string]interface{}{"config": c, "path": dfs.PathString(path)})
				return false
			}
			return true
		}
		nw := func() dfs.World { return c.world() }
		if c.Limit > 0 {
			r := dfs.Explore(nw, c.Limit, check)
			p.SetExhaustive(c.name(), r.Exhaustive)
			p.Count("traces_enumerated", int64(r.Traces))
			p.Sample(map[string]interface{}{"config": c.name(), "mode": "sleep-set DFS", "traces": r.Traces, "executions": r.Executions, "exhaustive": r.Exhaustive})
		}
		if c.Samples > 0 {
			rng := e.Rng("c04rbc", c.name())
			done := 0
			for done < c.Samples && p.ViolationCount() < 3 {
				batch := min(50, c.Samples-done)
				r := dfs.Sample(nw, batch, rng, overtakingPolicy(rng), check)
				done += batch
				p.Count("traces_sampled", int64(r.Traces))
			}
			p.Sample(map[string]interface{}{"config": c.name(), "mode": "sampled", "runs": done})
		}
		p.Write(false)
	}
}

// ---------------- C02 / C03 at rbc.Receiver level ----------------

type byzScenario struct {
	Name   string
	N      int
	Byz    []uint16
	Build  func(w *rworld)
	Limit  int
	Sample int
	// SharedPrefix > 0: all versions a sender shows for one round carry digests that agree on their first SharedPrefix bytes
	// (the digest is whatever the message type supplies; the layer must tell two digests apart wherever they differ)
	SharedPrefix int
}

// partitions2 lists the 2-partitions (both parts non-empty) of the given set; each unordered pair once.
func partitions2(set []uint16) [][2][]uint16 {
	var out [][2][]uint16
	n := len(set)
	for mask := 1; mask < 1<<n-1; mask++ {
		if mask&1 == 0 { // canonical: first element always in part A
			continue
		}
		var a, b []uint16
		for i, x := range set {
			if mask&(1<<i) != 0 {
				a = append(a, x)
			} else {
				b = append(b, x)
			}
		}
		out = append(out, [2][]uint16{a, b})
	}
	return out
}

func byzCatalogue(e common.Env) []byzScenario {
	var out []byzScenario
	const S = uint16(1)
	add := func(name string, n int, byz []uint16, limit, sample int, build func(w *rworld)) {
		out = append(out, byzScenario{Name: fmt.Sprintf("N=%d byz=%v %s", n, byz, name), N: n, Byz: byz, Build: build, Limit: limit, Sample: sample})
	}
	for _, n := range []int{3, 4, 5} {
		for acc := 0; acc <= n-3; acc++ {
			byz := []uint16{S}
			for a := 0; a < acc; a++ {
				byz = append(byz, uint16(n-a)) // accomplices are the highest ids
			}
			var honest []uint16
			for i := 2; i <= n-acc; i++ {
				honest = append(honest, uint16(i))
			}
			limit := e.Pick(60000, 600000)
			sample := e.Pick(150, 40000)
			if n >= 5 {
				limit = 0
				sample = e.Pick(200, 60000)
			}
			if n == 4 && !e.Thorough() {
				limit = 3000
			}
			accomplices := byz[1:]
			for _, part := range partitions2(honest) {
				A, B := part[0], part[1]
				for _, round := range []uint8{1, 0} {
					if round == 0 && n > 3 {
						continue
					}
					round := round
					send := func(w *rworld, group []uint16, version int, before, after bool, payload bool) {
						m := payloadMsg(S, round, version, true, 0xffff)
						for _, g := range group {
							if before {
								w.push(S, g, ackMsg(S, round, m.digest, "self"))
							}
							if payload {
								w.push(S, g, m)
							}
							if after {
								w.push(S, g, ackMsg(S, round, m.digest, "self"))
							}
						}
					}
					vouch := func(w *rworld, group []uint16, version int) {
						m := payloadMsg(S, round, version, true, 0xffff)
						for _, a := range accomplices {
							for _, g := range group {
								w.push(a, g, ackMsg(S, round, m.digest, fmt.Sprintf("accomplice%d", a)))
							}
						}
					}
					tag := fmt.Sprintf("split=%v|%v round=%d", A, B, round)
					add("equivocate "+tag, n, byz, limit, sample, func(w *rworld) {
						send(w, A, 1, false, false, true)
						send(w, B, 2, false, false, true)
						vouch(w, A, 1)
						vouch(w, B, 2)
					})
					add("equivocate+selfack-after "+tag, n, byz, limit, sample, func(w *rworld) {
						send(w, A, 1, false, true, true)
						send(w, B, 2, false, true, true)
						vouch(w, A, 1)
						vouch(w, B, 2)
					})
					add("equivocate+selfack-before "+tag, n, byz, limit, sample, func(w *rworld) {
						send(w, A, 1, true, false, true)
						send(w, B, 2, true, false, true)
						vouch(w, A, 1)
						vouch(w, B, 2)
					})
					// vouchers of the sender for its own payload that NAME SOMEBODY ELSE (a member of the other group, the receiver
					// itself, an identifier that does not exist): the digest is the right one, the named sender is not
					for _, disguise := range []string{"other-group", "receiver", "nobody"} {
						disguise := disguise
						for _, before := range []bool{true, false} {
							before := before
							add(fmt.Sprintf("equivocate+vouchers-naming-%s before=%v %s", disguise, before, tag), n, byz, limit, sample, func(w *rworld) {
								for gi, group := range [][]uint16{A, B} {
									m := payloadMsg(S, round, gi+1, true, 0xffff)
									other := B
									if gi == 1 {
										other = A
									}
									for _, g := range group {
										about := uint16(99)
										switch disguise {
										case "other-group":
											about = other[0]
										case "receiver":
											about = g
										}
										if before {
											w.push(S, g, ackMsg(about, round, m.digest, "disguised"))
										}
										w.push(S, g, m)
										if !before {
											w.push(S, g, ackMsg(about, round, m.digest, "disguised"))
										}
									}
								}
								vouch(w, A, 1)
								vouch(w, B, 2)
							})
						}
					}
					add("selfack-instead-of-payload "+tag, n, byz, limit, sample, func(w *rworld) {
						send(w, A, 1, false, true, true)
						send(w, B, 1, true, true, false) // B gets only vouchers for version 1
						vouch(w, B, 1)
					})
					add("accomplice-vouches-both-to-everyone "+tag, n, byz, limit, sample, func(w *rworld) {
						send(w, A, 1, false, false, true)
						send(w, B, 2, false, false, true)
						vouch(w, append(append([]uint16{}, A...), B...), 1)
						vouch(w, append(append([]uint16{}, A...), B...), 2)
					})
				}
			}
			all := honest
			add("two-versions-to-everyone", n, byz, limit, sample, func(w *rworld) {
				for _, g := range all {
					w.push(S, g, payloadMsg(S, 1, 1, true, 0xffff))
					w.push(S, g, payloadMsg(S, 1, 2, true, 0xffff))
				}
			})
			add("two-versions-in-opposite-orders", n, byz, limit, sample, func(w *rworld) {
				for i, g := range all {
					a, b := payloadMsg(S, 1, 1, true, 0xffff), payloadMsg(S, 1, 2, true, 0xffff)
					if i%2 == 1 {
						a, b = b, a
					}
					w.push(S, g, a)
					w.push(S, g, b)
				}
			})
			add("two-versions-in-opposite-orders+selfacks+accomplices", n, byz, limit, sample, func(w *rworld) {
				for i, g := range all {
					a, b := payloadMsg(S, 1, 1, true, 0xffff), payloadMsg(S, 1, 2, true, 0xffff)
					if i%2 == 1 {
						a, b = b, a
					}
					w.push(S, g, a)
					w.push(S, g, b)
					w.push(S, g, ackMsg(S, 1, a.digest, "self"))
					for _, ac := range accomplices {
						w.push(ac, g, ackMsg(S, 1, a.digest, "acc-first"))
						w.push(ac, g, ackMsg(S, 1, b.digest, "acc-second"))
					}
				}
			})
			// several rounds: the sender broadcasts round 1, then round 2, consistently, and afterwards ANOTHER payload for round 1
			// (to everybody, or to one party only): whatever an implementation forgets about completed rounds, the second
			// payload for round 1 must never be handed over
			for _, target := range []string{"everybody", "one party"} {
				target := target
				add("later-round-then-other-payload-for-earlier-round to "+target, n, byz, limit, sample, func(w *rworld) {
					x, z, y := payloadMsg(S, 1, 1, true, 0xffff), payloadMsg(S, 2, 1, true, 0xffff), payloadMsg(S, 1, 2, true, 0xffff)
					for i, g := range honest {
						w.push(S, g, x)
						w.push(S, g, z)
						if target == "everybody" || i == 0 {
							w.push(S, g, y)
						}
					}
					for _, a := range accomplices {
						for _, g := range honest {
							w.push(a, g, ackMsg(S, 1, x.digest, fmt.Sprintf("accomplice%d", a)))
							w.push(a, g, ackMsg(S, 2, z.digest, fmt.Sprintf("accomplice%d", a)))
							w.push(a, g, ackMsg(S, 1, y.digest, fmt.Sprintf("accomplice%d", a)))
						}
					}
				})
			}
			add("resend-after-delivery", n, byz, limit, sample, func(w *rworld) {
				m := payloadMsg(S, 1, 1, true, 0xffff)
				for _, g := range all {
					w.push(S, g, m)
					w.push(S, g, m)
					w.push(S, g, ackMsg(S, 1, m.digest, "self"))
					w.push(S, g, m)
				}
				for _, a := range accomplices {
					for _, g := range all {
						w.push(a, g, ackMsg(S, 1, m.digest, "acc"))
						w.push(a, g, ackMsg(S, 1, m.digest, "acc-again"))
					}
				}
			})
			add("ack-under-other-round", n, byz, limit, sample, func(w *rworld) {
				m := payloadMsg(S, 1, 1, true, 0xffff)
				for _, g := range all {
					w.push(S, g, m)
					w.push(S, g, ackMsg(S, 2, m.digest, "self-other-round"))
					w.push(S, g, ackMsg(g, 1, m.digest, "about-the-receiver"))
				}
			})
			if len(honest) >= 2 {
				H := honest[0]
				add("byzantine-acks-about-honest-sender", n, byz, limit, sample, func(w *rworld) {
					w.honestBroadcast(H, 1)
					real := payloadMsg(H, 1, 1, true, 0xffff)
					forged := payloadMsg(H, 1, 2, true, 0xffff)
					for _, g := range all {
						if g == H {
							continue
						}
						// S answers for H: re-sends H's payload as its own, vouches for it repeatedly, and vouches for a forged version
						w.push(S, g, ackMsg(H, 1, real.digest, "byz"))
						w.push(S, g, ackMsg(H, 1, real.digest, "byz-again"))
						w.push(S, g, real)
					}
					_ = forged
				})
				add("byzantine-forged-ack-about-honest-sender", n, byz, limit, sample, func(w *rworld) {
					w.honestBroadcast(H, 1)
					forged := payloadMsg(H, 1, 2, true, 0xffff)
					for _, g := range all {
						if g == H {
							continue
						}
						w.push(S, g, ackMsg(H, 1, forged.digest, "byz-forged"))
						for _, a := range accomplices {
							w.push(a, g, ackMsg(H, 1, forged.digest, "acc-forged"))
						}
					}
				})
				add("honest-and-byzantine-senders-with-p2p", n, byz, limit/4, sample, func(w *rworld) {
					w.honestBroadcast(H, 1)
					w.honestP2P(H, 1)
					m1 := payloadMsg(S, 1, 1, true, 0xffff)
					m2 := payloadMsg(S, 1, 2, true, 0xffff)
					for i, g := range all {
						if i%2 == 0 {
							w.push(S, g, m1)
							w.push(S, g, ackMsg(S, 1, m1.digest, "self"))
						} else {
							w.push(S, g, m2)
							w.push(S, g, ackMsg(S, 1, m2.digest, "self"))
						}
						w.push(S, g, payloadMsg(S, 1, 1, false, g))
					}
				})
			}
		}
	}
	// PRNG mixtures: the Byzantine parties send a random list of messages drawn from a pool (both versions of their own
	// broadcast for two rounds, acknowledgements about anybody with the digest of any known payload, copies of the honest
	// sender's payload) to random honest destinations; honest parties broadcast concurrently.
	mixes := e.Pick(40, 600)
	for k := 0; k < mixes; k++ {
		k := k
		n := 3 + k%3
		acc := 0
		if n >= 4 {
			acc = k % (n - 2)
		}
		byz := []uint16{S}
		for a := 0; a < acc; a++ {
			byz = append(byz, uint16(n-a))
		}
		var honest []uint16
		for i := 2; i <= n-acc; i++ {
			honest = append(honest, uint16(i))
		}
		seed := e.Rng("byzmix", k).Int63()
		add(fmt.Sprintf("random-mixture #%d", k), n, byz, 0, e.Pick(40, 300), func(w *rworld) {
			rng := rand.New(rand.NewSource(seed))
			H := honest[rng.Intn(len(honest))]
			w.honestBroadcast(H, 1)
			if rng.Intn(2) == 0 {
				w.honestP2P(H, 1)
			}
			var pool []*rmsg
			for _, r := range []uint8{1, 2} {
				for v := 1; v <= 2; v++ {
					m := payloadMsg(S, r, v, true, 0xffff)
					pool = append(pool, m)
					pool = append(pool, ackMsg(S, r, m.digest, "mix-self"))
				}
			}
			hp := payloadMsg(H, 1, 1, true, 0xffff)
			hf := payloadMsg(H, 1, 2, true, 0xffff)
			for _, about := range []uint16{H, honest[0], 99} {
				m := payloadMsg(S, 1, 1+rng.Intn(2), true, 0xffff)
				pool = append(pool, ackMsg(about, 1, m.digest, "mix-disguised"))
			}
			pool = append(pool, hp, ackMsg(H, 1, hp.digest, "mix-about-honest"), ackMsg(H, 1, hf.digest, "mix-forged-about-honest"), ackMsg(H, 2, hp.digest, "mix-other-round"),
				payloadMsg(S, 1, 1, false, honest[0]))
			cnt := 4 + rng.Intn(10)
			for i := 0; i < cnt; i++ {
				from := byz[rng.Intn(len(byz))]
				to := honest[rng.Intn(len(honest))]
				m := pool[rng.Intn(len(pool))]
				if !m.isAck && m.bcast && from != S && string(m.payload) != string(hp.payload) {
					// an accomplice re-sending the Byzantine sender's payload under its own identity is a broadcast of the accomplice
				}
				cp := *m
				w.push(from, to, &cp)
			}
		})
	}
	// every participant but one is Byzantine (the properties quantify over all Byzantine participants): all N-1 others vouch,
	// towards the one honest party, for a broadcast nobody transmitted to it - attributed to a participant that sent nothing,
	// to the honest party itself, to an identifier outside the session, or to the sender with the payload withheld
	for _, n := range []int{3, 4} {
		var byz []uint16
		for i := 1; i <= n; i++ {
			if i != 2 {
				byz = append(byz, uint16(i))
			}
		}
		for _, about := range []uint16{S, 2, uint16(n), 99} {
			for _, withPayloadOfAnotherVersion := range []bool{false, true} {
				about, other := about, withPayloadOfAnotherVersion
				add(fmt.Sprintf("one-honest-party: all others vouch for an untransmitted broadcast attributed to %d (other version transmitted: %v)", about, other), n, byz, e.Pick(20000, 200000), e.Pick(100, 4000), func(w *rworld) {
					m := payloadMsg(S, 1, 1, true, 0xffff)
					for _, b := range byz {
						w.push(b, 2, ackMsg(about, 1, m.digest, fmt.Sprintf("voucher%d", b)))
					}
					if other {
						w.push(S, 2, payloadMsg(S, 1, 2, true, 0xffff))
					}
				})
			}
		}
	}
	return out
}

func unitByzRbc(e common.Env, p *common.Part) {
	p.Rule = "rbc.Receiver worlds with a Byzantine sender (id 1), 0..N-3 accomplices and >=2 honest parties; strategy catalogue x every 2-partition of the honest set x round; distinct key = (scenario, delivery-sequence hash); non-trivial when at least one Byzantine transmission was delivered to an honest party; N=3 (and N=4 up to the limit) enumerated by sleep-set DFS, the rest sampled"
	p.Assumptions = append(p.Assumptions, "Byzantine transmissions are pre-scheduled per link (their interleaving with honest traffic is explored, their content is not adaptive)", "traffic towards Byzantine parties is not simulated at this level")
	cat := byzCatalogue(e)
	// every third scenario once more with digests that differ only behind a common prefix of 8 (resp. 31) bytes
	for i, n := 0, len(cat); i < n; i += 3 {
		c := cat[i]
		c.SharedPrefix = []int{8, 31}[(i/3)%2]
		c.Name += fmt.Sprintf(" (digests of one sender and round agree on their first %d bytes)", c.SharedPrefix)
		if c.Limit > 2000 {
			c.Limit = 2000
		}
		cat = append(cat, c)
	}
	p.Note("scenarios", len(cat))
	for i, sc := range cat {
		if !e.Mine(i) || p.ViolationCount() >= 3 {
			continue
		}
		sc := sc
		p.Begin(sc.Name)
		nw := func() dfs.World {
			w := newRWorld(idsUpTo(sc.N), sc.Byz)
			digestSharedPrefix = sc.SharedPrefix
			sc.Build(w)
			digestSharedPrefix = 0
			return w
		}
		isByz := map[uint16]bool{}
		for _, b := range sc.Byz {
			isByz[b] = true
		}
		check := func(wd dfs.World, path []simnet.Link) bool {
			w := wd.(*rworld)
			byzDelivered := 0
			for _, d := range w.deliv {
				if isByz[d.Src] && w.honest[d.Dst] {
					byzDelivered++
				}
			}
			p.Case(sc.Name+"#"+dfs.PathHash(path), byzDelivered > 0)
			p.Count("handovers", int64(len(w.hand)))
			p.Count("byzantine_deliveries", int64(byzDelivered))
			var sig, what string
			if e.Property == "C03" {
				sig, what = w.checkIntegrity()
			} else {
				sig, what = w.checkAgreement()
				if sig == "" && len(w.panics) > 0 {
					sig, what = "agreement/panic", w.panics[0]
				}
			}
			if sig != "" {
				var hs []string
				for _, h := range w.hand {
					id := "<nil>"
					if h.M != nil {
						id = h.M.id
					}
					hs = append(hs, fmt.Sprintf("at %d from %d: %s", h.At, h.From, id))
				}
				p.Violate(sig+"/"+scenarioClass(sc.Name), sc.Name+": "+what, map[string]interface{}{"scenario": sc.Name, "path": dfs.PathString(path), "handovers": hs})
				return false
			}
			return true
		}
		if sc.Limit > 0 {
			r := dfs.Explore(nw, sc.Limit, check)
			p.SetExhaustive(sc.Name, r.Exhaustive)
			p.Count("traces_enumerated", int64(r.Traces))
			if r.Exhaustive {
				p.Count("scenarios_exhaustive", 1)
			}
			if i%7 == 0 {
				p.Sample(map[string]interface{}{"scenario": sc.Name, "mode": "sleep-set DFS", "traces": r.Traces, "exhaustive": r.Exhaustive})
			}
			if r.Exhaustive {
				continue
			}
		}
		rng := e.Rng("byzrbc", sc.Name)
		r := dfs.Sample(nw, sc.Sample, rng, overtakingPolicy(rng), check)
		p.Count("traces_sampled", int64(r.Traces))
	}
}

// scenarioClass strips the parameters from a scenario name: the finding signature names the strategy, not the split.
func scenarioClass(name string) string {
	var n int
	var rest string
	fmt.Sscanf(name, "N=%d", &n)
	for i := 0; i < len(name); i++ {
		if name[i] == ']' {
			rest = name[i+2:]
			break
		}
	}
	for i := 0; i < len(rest); i++ {
		if rest[i] == ' ' {
			rest = rest[:i]
			break
		}
	}
	return rest
}
