package main

// C14 at the level of the real SilentScheme: "handed to the protocol dispatcher exactly once, messages of one sender in their
// arrival order" is a promise of the scheme as wired (transport -> buffer -> dispatcher), not of msg.Box alone. A sender's
// messages m1..mK for a node arrive in three phases of that node's session: before the node has called at all, while its session
// is set up (handlers registered, held at a verif point, nothing sent yet) and after its first transmission. The point-to-point
// messages of a session are handed to the protocol instance in the order in which the dispatcher saw them, so the instance's own
// record of (sender, sequence number) is the observation.

import (
	"context"
	"fmt"
	"sync"
	"sync/atomic"
	"time"

	"github.com/IBM/TSS/threshold"
	tss "github.com/IBM/TSS/types"

	"verifharness/cluster"
	"verifharness/common"
	"verifharness/simnet"
)

type seqBackend struct {
	self    uint16
	parties []uint16
	send    func([]byte, bool, uint16)
	total   int
	first   int           // messages sent at once; the rest after gate closes (gate nil: everything at once)
	gate    chan struct{} // closed by the scenario
	mu      sync.Mutex
	cond    *sync.Cond
	got     map[uint16][]string
}

func newSeqBackend(self uint16, total, first int, gate chan struct{}) *seqBackend {
	b := &seqBackend{self: self, total: total, first: first, gate: gate, got: map[uint16][]string{}}
	b.cond = sync.NewCond(&b.mu)
	return b
}

func (b *seqBackend) ClassifyMsg(m []byte) (uint8, bool, error) {
	if len(m) > 0 && m[0] == 'Q' {
		return 1, false, nil
	}
	return 0, false, fmt.Errorf("unknown message")
}

func (b *seqBackend) Init(parties []uint16, _ int, send func([]byte, bool, uint16)) {
	b.parties = append([]uint16{}, parties...)
	b.send = send
}

func (b *seqBackend) OnMsg(m []byte, from uint16, _ bool) {
	b.mu.Lock()
	b.got[from] = append(b.got[from], string(m))
	b.cond.Broadcast()
	b.mu.Unlock()
}

func (b *seqBackend) emit(from, to int) {
	for k := from; k < to; k++ {
		for _, p := range b.parties {
			if p != b.self {
				b.send([]byte(fmt.Sprintf("Q|%d|%d", b.self, k)), false, p)
			}
		}
	}
}

func (b *seqBackend) run(ctx context.Context) error {
	if b.gate == nil {
		b.emit(0, b.total)
	} else {
		b.emit(0, b.first)
		select {
		case <-b.gate:
		case <-ctx.Done():
			return ctx.Err()
		}
		b.emit(b.first, b.total)
	}
	stop := make(chan struct{})
	defer close(stop)
	go func() {
		select {
		case <-ctx.Done():
			b.mu.Lock()
			b.cond.Broadcast()
			b.mu.Unlock()
		case <-stop:
		}
	}()
	b.mu.Lock()
	defer b.mu.Unlock()
	for {
		done := true
		for _, p := range b.parties {
			if p != b.self && len(b.got[p]) < b.total {
				done = false
			}
		}
		if done {
			return nil
		}
		if ctx.Err() != nil {
			return ctx.Err()
		}
		b.cond.Wait()
	}
}

func (b *seqBackend) KeyGen(ctx context.Context) ([]byte, error) {
	if err := b.run(ctx); err != nil {
		return nil, err
	}
	return []byte("share-seq"), nil
}
func (b *seqBackend) SetShareData([]byte) error { return nil }
func (b *seqBackend) Sign(ctx context.Context, msg []byte) ([]byte, error) {
	if err := b.run(ctx); err != nil {
		return nil, err
	}
	return append([]byte("sig|"), msg...), nil
}
func (b *seqBackend) ThresholdPK() ([]byte, error) { return []byte("tpk"), nil }

func unitC14scheme(e common.Env, p *common.Part) {
	p.Rule = "real SilentSchemes (msg.Box in front of the dispatcher) on the simulated network, N = 3; every protocol instance sends K = 6 numbered point-to-point messages to every peer; for a receiver R and a sender S the messages arrive in three phases of R's session: the first a before R has called KeyGen / Sign at all, the next b while R's session is set up and held at a verif point behind the registration of its handlers (dkg.afterRBCRegister / sign.afterPrepare) with nothing sent yet, the rest after R's first transmission; every (a, b) with a + b <= K, every choice of R; oracle: each protocol instance was handed every peer's messages exactly once and in their sending (= arrival, links are FIFO) order, every call returns nil; distinct key = (operation, R, a, b); non-trivial when R was parked at the verif point while the second group arrived"
	const K = 6
	idx := 0
	ids := []uint16{1, 2, 3}
	for _, sign := range []bool{false, true} {
		for _, R := range ids {
			for a := 0; a <= 3; a++ {
				for b := 0; a+b <= 5; b++ {
					idx++
					if !e.Mine(idx) || p.ViolationCount() >= 3 {
						continue
					}
					if !e.Thorough() && (a+b+int(R))%2 == 1 {
						continue
					}
					key := fmt.Sprintf("sign=%v receiver=%d before-the-call=%d during-set-up=%d", sign, R, a, b)
					p.Begin(key)
					gate1 := make(chan struct{})
					var bmu sync.Mutex
					backs := map[uint16]*seqBackend{}
					mk := func(node uint16) *seqBackend {
						bmu.Lock()
						defer bmu.Unlock()
						var sb *seqBackend
						if node == R {
							sb = newSeqBackend(node, K, K, nil)
						} else {
							sb = newSeqBackend(node, K, a, gate1) // a at once, the next group when gate1 closes ...
							sb.total = K
						}
						backs[node] = sb
						return sb
					}
					c := newRCluster(cluster.Config{Map: identityMap(ids...), Silent: true, Threshold: 2,
						KGF: func(node uint16) tss.KeyGenerator { return mk(node) }, SF: func(node uint16) tss.Signer { return mk(node) }}, e.Rng("c14scheme", idx), simnet.Uniform)
					topic := "c14scheme-topic"
					c.SetPick(tss.DkgTopicName, ids)
					c.SetPick(topic, ids)
					for _, u := range ids {
						c.Schemes[u].SetStoredData([]byte("share-seq"))
					}
					point := "dkg.afterRBCRegister"
					if sign {
						point = "sign.afterPrepare"
					}
					var armed, parked int32
					release := make(chan struct{})
					threshold.SetVerifHook(func(pt string) {
						if pt == point && atomic.LoadInt32(&armed) == 1 && atomic.CompareAndSwapInt32(&parked, 0, 1) {
							<-release
						}
					})
					ctx, cancel := context.WithTimeout(context.Background(), 8*time.Second)
					errs := map[uint16]error{}
					var emu sync.Mutex
					var wg sync.WaitGroup
					call := func(u uint16) {
						wg.Add(1)
						go func() {
							defer wg.Done()
							var err error
							if sign {
								_, err = c.Schemes[u].Sign(ctx, []byte("0123456789abcdef0123456789abcdef"), topic)
							} else {
								_, err = c.Schemes[u].KeyGen(ctx, 3, 2)
							}
							emu.Lock()
							errs[u] = err
							emu.Unlock()
						}()
					}
					// phase 1: the senders call; their first `a` messages reach R, which has not called yet
					for _, u := range ids {
						if u != R {
							call(u)
						}
					}
					waitSent := func(n int) {
						deadline := time.Now().Add(3 * time.Second)
						for time.Now().Before(deadline) {
							bmu.Lock()
							ready := len(backs) >= 2
							bmu.Unlock()
							if ready && c.drain(20*time.Millisecond) {
								return
							}
							time.Sleep(time.Millisecond)
						}
					}
					waitSent(a)
					c.drain(100 * time.Millisecond)
					// phase 2: R calls and is parked behind the registration of its handlers; the senders' next b messages arrive
					atomic.StoreInt32(&armed, 1)
					call(R)
					deadline := time.Now().Add(3 * time.Second)
					for atomic.LoadInt32(&parked) == 0 && time.Now().Before(deadline) {
						time.Sleep(200 * time.Microsecond)
					}
					wasParked := atomic.LoadInt32(&parked) == 1
					bmu.Lock()
					for _, u := range ids {
						if sb := backs[u]; sb != nil && u != R {
							sb.mu.Lock()
							sb.first = a + b
							sb.mu.Unlock()
						}
					}
					bmu.Unlock()
					// emit the second group directly (the instances are parked in run() on gate1; the group is sent on their behalf with
					// their own send functions, in order, which is all a protocol instance's later transmissions are)
					for _, u := range ids {
						bmu.Lock()
						sb := backs[u]
						bmu.Unlock()
						if sb != nil && u != R {
							sb.emit(a, a+b)
						}
					}
					c.drain(100 * time.Millisecond)
					// phase 3: R goes on (its first transmission), the senders send the rest
					close(release)
					for _, u := range ids {
						bmu.Lock()
						sb := backs[u]
						bmu.Unlock()
						if sb != nil && u != R {
							sb.mu.Lock()
							sb.first = a + b // run() continues from here once the gate opens
							sb.mu.Unlock()
						}
					}
					close(gate1)
					wg.Wait()
					cancel()
					threshold.SetVerifHook(func(string) {})
					c.drain(50 * time.Millisecond)
					c.Stop()
					what := ""
					for _, u := range ids {
						if errs[u] != nil && what == "" {
							what = fmt.Sprintf("node %d: %v", u, errs[u])
						}
					}
					bmu.Lock()
					for _, u := range ids {
						sb := backs[u]
						if sb == nil {
							continue
						}
						sb.mu.Lock()
						for _, f := range ids {
							if f == u {
								continue
							}
							var want []string
							for k := 0; k < K; k++ {
								want = append(want, fmt.Sprintf("Q|%d|%d", f, k))
							}
							if got := sb.got[f]; fmt.Sprint(got) != fmt.Sprint(want) && (what == "" || errs[u] != nil) {
								what = fmt.Sprintf("the protocol instance of node %d was handed the messages of party %d as %v; they were sent, and arrived, as %v (the first %d before node %d called, the next %d while its session was being set up)", u, f, got, want, a, R, b)
							}
						}
						sb.mu.Unlock()
					}
					bmu.Unlock()
					p.Case(key, wasParked)
					p.Count("sessions", 1)
					if wasParked {
						p.Count("sessions_with_receiver_parked_during_set_up", 1)
					}
					if what != "" {
						p.Violate("order-or-multiplicity/scheme-level", key+": "+what, map[string]interface{}{"sign": sign, "receiver": R, "a": a, "b": b})
					}
				}
			}
		}
	}
}
