package main

// C16 — the transport attributes traffic only to peers that proved their registered identity.

import (
	"bytes"
	"crypto"
	"crypto/ecdsa"
	"crypto/ed25519"
	"crypto/rand"
	"crypto/rsa"
	"crypto/sha256"
	"crypto/x509"
	"encoding/asn1"
	"encoding/pem"
	"fmt"
	"math/big"
	"strings"
	"sync"
	"time"

	comm "github.com/IBM/TSS/net"
	"github.com/IBM/TSS/testutil/tlsgen"

	"verifharness/common"
)

type c16case struct {
	Field, Mutation string
	// hostile AuthFunc-level case (through the library's own client)
	Domain string
	Auth   func(binding []byte) comm.Handshake
	// raw-level case: bytes written after the TLS handshake instead of a valid handshake (built per connection)
	Raw func(valid []byte) []byte
	// the identity this connection is entitled to (0xffff = none: nothing may be attributed)
	Entitled uint16
	EntDom   string
	// MayReject: the connection is entitled to the identity, but the library may also refuse it (unusual encodings of a valid handshake)
	MayReject bool
}

// rawHS is the handshake with the domain as a raw ASN.1 value, so that a raw client can choose its string type
type rawHS struct {
	Domain     asn1.RawValue
	TLSBinding []byte
	Identity   []byte
	Timestamp  int64
	Signature  []byte
}

func signWith(kp *tlsgen.CertKeyPair, h *comm.Handshake) {
	h.Signature = nil
	d := sha256.Sum256(h.Bytes())
	h.Signature, _ = kp.Sign(rand.Reader, d[:], nil)
}

func unitC16(e common.Env, p *common.Part) {
	p.Rule = "real listeners on 127.0.0.1 with identities registered in two domains; hostile connections interleaved with honest ones; field-level cases through the library's own client with a hostile AuthFunc (domain: other registered / unregistered / empty / boundary shifted into the identity / every registered identity, one of them registered without a domain, claiming every domain with its own valid signature; binding: zero / random / truncated / recorded on another connection, also with a signed creation time 31 s / 1 h in the past, at or before 1970, 1 h ahead; identity: unregistered, another node's certificate, registered identities of several PEM blocks signed with the first / the last certificate's key, PEM with leading garbage, non-PEM, RSA, Ed25519, P-384; signature: absent / random / by another registered key / over another binding / garbled / computed from the public key alone for an empty digest, with the claimed domain cut inside a multi-byte character of a registered one), encoding-level cases through a raw TLS client (every truncation length of the encoded handshake [every 4th in quick], length-prefix lies, trailing bytes, whole-handshake replay); every connection then sends a frame with a unique marker; oracle: marker <-> connection <-> entitled identity table, judged after a fence of honest markers and a grace period; plus large messages of a node that the application holds while other connections (one sending 65535 junk bytes as its handshake, one authenticated and sending 1 MiB messages) are read: they must still carry that node's bytes; distinct key = (field, mutation, identity); non-trivial when the handshake differs from a valid one for that connection"
	p.Assumptions = append(p.Assumptions, "timestamp staleness is not in the property's list and is not judged; 'no attributed message' is bounded by a fence (honest markers sent afterwards have arrived) plus a grace period, so a slow machine can only cause a missed detection, never an alarm")
	if !e.Mine(0) {
		return
	}
	if e.Property == "C10" {
		// under C10 only the survival of the acceptor and of the service is judged (a crash kills the child); attribution is C16's subject
		p.Rule = "the hostile handshake catalogue of C16 (about 270 handshakes incl. every 4th truncation length, foreign key types, garbage) against a real listener: the accepting process must survive and honest traffic continue"
	}
	viol := func(sig, what string, w interface{}) {
		if e.Property != "C10" { // under C10 only crashes (seen by the parent) count
			p.Violate(sig, what, w)
		}
	}
	ids := []uint16{1, 2, 3, 5}
	doms := []string{"dom", "dom", "other", "dom"}
	env, err := newNetEnv(ids, doms)
	if err != nil {
		p.Inconcl("cannot create the network environment: " + err.Error())
		return
	}
	defer env.stopAll()
	env.listen(1, true) // node 1 is the server under test
	srv := env.nodes[1]
	fk := newForeignKeys()
	// identities with other key types are REGISTERED as nodes 7 (RSA), 8 (Ed25519) and 9 (P-384): presenting them must still
	// yield nothing for the unsupported types, whatever the signature, and for P-384 only with a valid signature
	env.p2id[lookupKey("dom", fk.rsaCert)] = 7
	env.p2id[lookupKey("dom", fk.edCert)] = 8
	env.p2id[lookupKey("dom", fk.p384Cert)] = 9
	env.p2id[lookupKey("dom", fk.rsaIssued)] = 10
	env.p2id[lookupKey("dom", fk.edIssued)] = 11
	// an identity registered WITHOUT a domain (node 12 in the empty domain) and nowhere else
	nodom, _ := env.ca.NewClientCertKeyPair()
	env.p2id[lookupKey("", nodom.Cert)] = 12
	// identities that consist of several PEM blocks (a certificate followed by another one, e.g. its issuer's): the key that
	// speaks for the identity is the first certificate's; nodes 13 and 14
	k1, _ := env.ca.NewClientCertKeyPair()
	k2, _ := env.ca.NewClientCertKeyPair()
	chain := append(append([]byte{}, k1.Cert...), k2.Cert...)
	chain3 := append(append(append([]byte{}, k1.Cert...), []byte("-----BEGIN PUBLIC KEY-----\nAAAA\n-----END PUBLIC KEY-----\n")...), k2.Cert...)
	env.p2id[lookupKey("dom", chain)] = 13
	env.p2id[lookupKey("dom", chain3)] = 14
	// node 15: registered under a domain that ends in a multi-byte character, with an identity file that starts with a text line
	// (the lookup key is the hash of domain || identity, so the boundary between the two can be claimed elsewhere)
	k15, _ := env.ca.NewClientCertKeyPair()
	id15 := append([]byte("rich\n"), k15.Cert...)
	env.p2id[lookupKey("z\xc3\xbc", id15)] = 15
	unreg, _ := env.ca.NewClientCertKeyPair() // a valid certificate of the same CA that is not registered
	n2, n3, n5 := env.nodes[2], env.nodes[3], env.nodes[5]

	var cases []c16case
	add := func(c c16case) { cases = append(cases, c) }
	none := uint16(0xffff)
	// --- valid reference: must be attributed (sanity, also proves the marker path works)
	add(c16case{Field: "none", Mutation: "valid handshake of node 2", Domain: "dom", Auth: honestAuth(n2.ident, "dom"), Entitled: 2, EntDom: "dom"})
	add(c16case{Field: "none", Mutation: "valid handshake of node 3 (domain other)", Domain: "other", Auth: honestAuth(n3.ident, "other"), Entitled: 3, EntDom: "other"})
	// --- domain
	add(c16case{Field: "domain", Mutation: "identity of node 2 under the other registered domain", Domain: "other", Auth: honestAuth(n2.ident, "other"), Entitled: none})
	add(c16case{Field: "domain", Mutation: "unregistered domain", Domain: "nowhere", Auth: honestAuth(n2.ident, "nowhere"), Entitled: none})
	add(c16case{Field: "domain", Mutation: "empty domain", Domain: "", Auth: honestAuth(n2.ident, ""), Entitled: none})
	add(c16case{Field: "domain", Mutation: "signed under dom, claimed other", Domain: "other", Auth: honestAuth(n2.ident, "dom"), Entitled: none})
	// every registered identity claims every domain, correctly signed by its owner: entitled exactly where it is registered
	for _, who := range []struct {
		name string
		kp   *tlsgen.CertKeyPair
		id   uint16
		dom  string
	}{{"node 2", n2.ident, 2, "dom"}, {"node 3", n3.ident, 3, "other"}, {"the identity registered without a domain", nodom, 12, ""}} {
		for _, claim := range []string{"dom", "other", "", "nowhere"} {
			who, claim := who, claim
			c := c16case{Field: "domain", Mutation: fmt.Sprintf("%s claims domain %q with its own valid signature", who.name, claim), Domain: claim, Auth: honestAuth(who.kp, claim), Entitled: none}
			if claim == who.dom {
				c.Field, c.Entitled, c.EntDom = "none", who.id, who.dom
			}
			add(c)
		}
	}
	// boundary shifted into the identity: domain "do", identity "m"+PEM (same concatenation, PEM decoding skips leading garbage)
	add(c16case{Field: "domain", Mutation: "boundary shifted into the identity (domain 'do', identity 'm'+PEM)", Domain: "do", Auth: func(b []byte) comm.Handshake {
		h := comm.Handshake{Domain: "do", TLSBinding: b, Identity: append([]byte("m"), n2.ident.Cert...), Timestamp: time.Now().Unix()}
		signWith(n2.ident, &h)
		return h
	}, Entitled: none})
	add(c16case{Field: "domain", Mutation: "boundary shifted into the domain (domain 'dom-----', identity without its first dashes)", Domain: "dom-----", Auth: func(b []byte) comm.Handshake {
		h := comm.Handshake{Domain: "dom-----", TLSBinding: b, Identity: n2.ident.Cert[5:], Timestamp: time.Now().Unix()}
		signWith(n2.ident, &h)
		return h
	}, Entitled: none})
	// --- binding
	mutBinding := func(name string, f func(b []byte) []byte) {
		add(c16case{Field: "binding", Mutation: name, Domain: "dom", Auth: func(b []byte) comm.Handshake {
			h := comm.Handshake{Domain: "dom", TLSBinding: f(b), Identity: n2.ident.Cert, Timestamp: time.Now().Unix()}
			signWith(n2.ident, &h)
			return h
		}, Entitled: none})
	}
	mutBinding("all zero", func(b []byte) []byte { return make([]byte, len(b)) })
	mutBinding("random", func(b []byte) []byte { r := make([]byte, len(b)); rand.Read(r); return r })
	mutBinding("truncated", func(b []byte) []byte { return b[:max(0, len(b)-1)] })
	mutBinding("empty", func(b []byte) []byte { return nil })
	mutBinding("one bit flipped", func(b []byte) []byte {
		c := append([]byte{}, b...)
		if len(c) == 0 {
			return []byte{0x10}
		}
		c[len(c)/4] ^= 0x10
		return c
	})
	// recorded on another connection: a complete valid handshake of node 2 replayed on a later connection
	var recorded *comm.Handshake
	var recMu sync.Mutex
	add(c16case{Field: "none", Mutation: "valid handshake of node 2 (recorded for the replay)", Domain: "dom", Auth: func(b []byte) comm.Handshake {
		h := honestAuth(n2.ident, "dom")(b)
		recMu.Lock()
		c := h
		recorded = &c
		recMu.Unlock()
		return h
	}, Entitled: 2, EntDom: "dom"})
	add(c16case{Field: "binding", Mutation: "whole handshake recorded on another connection", Domain: "dom", Auth: func(b []byte) comm.Handshake {
		recMu.Lock()
		defer recMu.Unlock()
		if recorded == nil {
			return comm.Handshake{Domain: "dom"}
		}
		return *recorded
	}, Entitled: none})
	// the same with handshakes whose signed creation time is not "now" (the signer's clock is off, or the recording is old): the time
	// may or may not make the library refuse the handshake on its own connection, but it never makes a recording valid elsewhere
	for _, age := range []struct {
		name string
		ts   func() int64
	}{{"31 s old", func() int64 { return time.Now().Unix() - 31 }}, {"one hour old", func() int64 { return time.Now().Unix() - 3600 }}, {"from 1970", func() int64 { return 0 }},
		{"before 1970", func() int64 { return -1 }}, {"one hour ahead", func() int64 { return time.Now().Unix() + 3600 }}} {
		age := age
		var rec *comm.Handshake
		add(c16case{Field: "none", Mutation: "valid handshake of node 2 whose signed creation time is " + age.name + " (recorded for the replay)", Domain: "dom", Auth: func(b []byte) comm.Handshake {
			h := comm.Handshake{Domain: "dom", TLSBinding: b, Identity: n2.ident.Cert, Timestamp: age.ts()}
			signWith(n2.ident, &h)
			recMu.Lock()
			c := h
			rec = &c
			recMu.Unlock()
			return h
		}, Entitled: 2, EntDom: "dom", MayReject: true})
		add(c16case{Field: "binding", Mutation: "whole handshake recorded on another connection, signed creation time " + age.name, Domain: "dom", Auth: func(b []byte) comm.Handshake {
			recMu.Lock()
			defer recMu.Unlock()
			if rec == nil {
				return comm.Handshake{Domain: "dom"}
			}
			return *rec
		}, Entitled: none})
	}
	// --- identity
	identity := func(name string, ident []byte, sign func(h *comm.Handshake)) {
		add(c16case{Field: "identity", Mutation: name, Domain: "dom", Auth: func(b []byte) comm.Handshake {
			h := comm.Handshake{Domain: "dom", TLSBinding: b, Identity: ident, Timestamp: time.Now().Unix()}
			sign(&h)
			return h
		}, Entitled: none})
	}
	identity("unregistered certificate of the same CA, own valid signature", unreg.Cert, func(h *comm.Handshake) { signWith(unreg, h) })
	identity("certificate of node 5 with the signature of node 2", n5.ident.Cert, func(h *comm.Handshake) { signWith(n2.ident, h) })
	identity("certificate of node 5 with the signature of an unregistered key", n5.ident.Cert, func(h *comm.Handshake) { signWith(unreg, h) })
	identity("PEM of node 2 with leading garbage", append([]byte("garbage\n"), n2.ident.Cert...), func(h *comm.Handshake) { signWith(n2.ident, h) })
	identity("PEM of node 2 with trailing garbage", append(append([]byte{}, n2.ident.Cert...), []byte("trailing")...), func(h *comm.Handshake) { signWith(n2.ident, h) })
	identity("not PEM at all", []byte("this is not a certificate"), func(h *comm.Handshake) { signWith(n2.ident, h) })
	identity("empty identity", nil, func(h *comm.Handshake) { signWith(n2.ident, h) })
	identity("PEM block that is not a certificate", []byte("-----BEGIN CERTIFICATE-----\nAAAA\n-----END CERTIFICATE-----\n"), func(h *comm.Handshake) { signWith(n2.ident, h) })
	identity("RSA certificate", fk.rsaCert, func(h *comm.Handshake) { signWith(n2.ident, h) })
	identity("Ed25519 certificate", fk.edCert, func(h *comm.Handshake) { signWith(n2.ident, h) })
	p384sign := func(h *comm.Handshake) {
		h.Signature = nil
		d := sha256.Sum256(h.Bytes())
		h.Signature, _ = fk.p384Key.Sign(rand.Reader, d[:], nil)
	}
	for _, reg := range []struct {
		name string
		cert []byte
	}{{"registered RSA identity", fk.rsaCert}, {"registered Ed25519 identity", fk.edCert}, {"registered RSA identity certified by an ECDSA CA", fk.rsaIssued}, {"registered Ed25519 identity certified by an ECDSA CA", fk.edIssued}} {
		reg := reg
		identity(reg.name+", no signature", reg.cert, func(h *comm.Handshake) {})
		identity(reg.name+", junk signature", reg.cert, func(h *comm.Handshake) { h.Signature = bytes.Repeat([]byte{0x30}, 64) })
		identity(reg.name+", signature of a registered ECDSA key", reg.cert, func(h *comm.Handshake) { signWith(n2.ident, h) })
	}
	identity("registered RSA identity, valid RSA signature of its owner", fk.rsaCert, func(h *comm.Handshake) {
		h.Signature = nil
		d := sha256.Sum256(h.Bytes())
		h.Signature, _ = rsa.SignPKCS1v15(rand.Reader, fk.rsaKey, crypto.SHA256, d[:])
	})
	identity("registered Ed25519 identity, valid Ed25519 signature of its owner", fk.edCert, func(h *comm.Handshake) {
		h.Signature = nil
		h.Signature = ed25519.Sign(fk.edKey, h.Bytes())
	})
	identity("registered P-384 identity, no signature", fk.p384Cert, func(h *comm.Handshake) {})
	identity("registered P-384 identity, signature of another key", fk.p384Cert, func(h *comm.Handshake) { signWith(n2.ident, h) })
	add(c16case{Field: "none", Mutation: "registered P-384 (ECDSA) identity with a valid signature of its owner", Domain: "dom", Auth: func(b []byte) comm.Handshake {
		h := comm.Handshake{Domain: "dom", TLSBinding: b, Identity: fk.p384Cert, Timestamp: time.Now().Unix()}
		p384sign(&h)
		return h
	}, Entitled: 9, EntDom: "dom"})
	for _, mc := range []struct {
		name string
		id   []byte
		node uint16
	}{{"two certificates", chain, 13}, {"certificate, another PEM block, certificate", chain3, 14}} {
		mc := mc
		add(c16case{Field: "none", Mutation: "registered identity of " + mc.name + ", signed with the first certificate's key", Domain: "dom", Auth: func(b []byte) comm.Handshake {
			h := comm.Handshake{Domain: "dom", TLSBinding: b, Identity: mc.id, Timestamp: time.Now().Unix()}
			signWith(k1, &h)
			return h
		}, Entitled: mc.node, EntDom: "dom"})
		identity("registered identity of "+mc.name+", signed with the LAST certificate's key", mc.id, func(h *comm.Handshake) { signWith(k2, h) })
		identity("registered identity of "+mc.name+", signed with an unrelated registered key", mc.id, func(h *comm.Handshake) { signWith(n2.ident, h) })
	}
	// --- signature
	sigCase := func(name string, f func(h *comm.Handshake, b []byte)) {
		add(c16case{Field: "signature", Mutation: name, Domain: "dom", Auth: func(b []byte) comm.Handshake {
			h := comm.Handshake{Domain: "dom", TLSBinding: b, Identity: n2.ident.Cert, Timestamp: time.Now().Unix()}
			f(&h, b)
			return h
		}, Entitled: none})
	}
	sigCase("absent", func(h *comm.Handshake, b []byte) {})
	sigCase("random bytes", func(h *comm.Handshake, b []byte) { h.Signature = make([]byte, 70); rand.Read(h.Signature) })
	sigCase("by another registered key (node 5)", func(h *comm.Handshake, b []byte) { signWith(n5.ident, h) })
	sigCase("by an unregistered key", func(h *comm.Handshake, b []byte) { signWith(unreg, h) })
	sigCase("over another binding", func(h *comm.Handshake, b []byte) {
		real := h.TLSBinding
		h.TLSBinding = make([]byte, len(real))
		signWith(n2.ident, h)
		h.TLSBinding = real
	})
	sigCase("over another domain", func(h *comm.Handshake, b []byte) { h.Domain = "other"; signWith(n2.ident, h); h.Domain = "dom" })
	sigCase("over another timestamp", func(h *comm.Handshake, b []byte) { signWith(n2.ident, h); h.Timestamp += 5 })
	sigCase("asn.1-garbled", func(h *comm.Handshake, b []byte) { signWith(n2.ident, h); h.Signature[1] ^= 0x7f })
	sigCase("truncated", func(h *comm.Handshake, b []byte) {
		signWith(n2.ident, h)
		h.Signature = h.Signature[:len(h.Signature)-2]
	})
	sigCase("last byte changed", func(h *comm.Handshake, b []byte) { signWith(n2.ident, h); h.Signature[len(h.Signature)-1] ^= 1 })
	// a signature the service has ACCEPTED before (node 2's recorded handshake above) is not a credential: presented over this
	// connection's own, fresh binding it proves nothing - neither for node 2 again nor for any other registered identity
	reuse := func(name string, ident []byte) {
		add(c16case{Field: "signature", Mutation: name, Domain: "dom", Auth: func(b []byte) comm.Handshake {
			recMu.Lock()
			defer recMu.Unlock()
			if recorded == nil {
				return comm.Handshake{Domain: "dom"}
			}
			return comm.Handshake{Domain: "dom", TLSBinding: b, Identity: ident, Timestamp: time.Now().Unix(), Signature: append([]byte{}, recorded.Signature...)}
		}, Entitled: none})
	}
	reuse("signature bytes of an earlier, accepted handshake of node 2 over this connection's fresh binding", n2.ident.Cert)
	reuse("signature bytes of an earlier, accepted handshake of node 2 presented with node 5's identity", n5.ident.Cert)
	add(c16case{Field: "binding", Mutation: "handshake recorded on another connection (accepted there) with only the binding replaced by this connection's", Domain: "dom", Auth: func(b []byte) comm.Handshake {
		recMu.Lock()
		defer recMu.Unlock()
		if recorded == nil {
			return comm.Handshake{Domain: "dom"}
		}
		h := *recorded
		h.TLSBinding = b
		return h
	}, Entitled: none})
	// --- encoding level (raw client). valid = the encoded valid handshake for that very connection.
	add(c16case{Field: "none", Mutation: "raw client, unmodified handshake (format self-check)", Raw: func(v []byte) []byte { return v }, Entitled: 2, EntDom: "dom"})
	sample := encodeHandshake(honestAuth(n2.ident, "dom")(make([]byte, 32)))
	step := e.Pick(4, 1)
	for l := 0; l < len(sample); l += step {
		l := l
		add(c16case{Field: "encoding", Mutation: fmt.Sprintf("truncated to %d bytes, connection kept open", l), Raw: func(v []byte) []byte { return v[:min(l, len(v)-1)] }, Entitled: none}) // the signature's DER length varies per connection: always cut at least one byte
	}
	for _, cut := range []int{1, 2, 9, len(sample) / 2, len(sample) - 10} {
		cut := cut
		add(c16case{Field: "encoding", Mutation: fmt.Sprintf("body shortened by %d bytes with a matching length prefix", cut), Raw: func(v []byte) []byte {
			body := v[2:]
			l := max(0, len(body)-cut)
			return append([]byte{byte(l), byte(l >> 8)}, body[:l]...)
		}, Entitled: none})
	}
	add(c16case{Field: "encoding", Mutation: "length prefix one too small (last byte spills into the frame)", Raw: func(v []byte) []byte {
		out := append([]byte{}, v...)
		n := int(out[0]) | int(out[1])<<8
		n--
		out[0], out[1] = byte(n), byte(n>>8)
		return out
	}, Entitled: none})
	add(c16case{Field: "encoding", Mutation: "length prefix zero", Raw: func(v []byte) []byte { return append([]byte{0, 0}, v[2:]...) }, Entitled: none})
	add(c16case{Field: "encoding", Mutation: "length prefix 0xffff", Raw: func(v []byte) []byte { return append([]byte{0xff, 0xff}, v[2:]...) }, Entitled: none})
	add(c16case{Field: "encoding", Mutation: "one byte of the body changed", Raw: func(v []byte) []byte { o := append([]byte{}, v...); o[len(o)/2] ^= 0x20; return o }, Entitled: none})
	add(c16case{Field: "encoding", Mutation: "garbage instead of a handshake", Raw: func(v []byte) []byte { return append([]byte{40, 0}, bytes.Repeat([]byte{0xa5}, 40)...) }, Entitled: none})
	// trailing bytes inside the announced length: asn.1 trailing data is ignored by the decoder; the signed bytes are the re-encoding, so the
	// handshake itself is still the valid one -> entitled
	add(c16case{Field: "encoding", Mutation: "valid handshake with 3 trailing bytes inside the announced length", Raw: func(v []byte) []byte {
		body := append(append([]byte{}, v[2:]...), 0, 0, 0)
		return append([]byte{byte(len(body)), byte(len(body) >> 8)}, body...)
	}, Entitled: 2, EntDom: "dom"})

	// domain string types: the decoder accepts several ASN.1 string types, the signed bytes are the receiver's re-encoding
	domCase := func(name string, tag int, raw []byte, canonical string, ent uint16) {
		add(c16case{Field: "encoding", Mutation: "domain as " + name, Raw: func(v []byte) []byte {
			var hv comm.Handshake
			if _, err := asn1.Unmarshal(v[2:], &hv); err != nil {
				return v[:1]
			}
			r := rawHS{Domain: asn1.RawValue{Class: asn1.ClassUniversal, Tag: tag, Bytes: raw}, TLSBinding: hv.TLSBinding, Identity: hv.Identity, Timestamp: hv.Timestamp}
			var signed []byte
			if canonical != "" {
				signed = comm.Handshake{Domain: canonical, TLSBinding: hv.TLSBinding, Identity: hv.Identity, Timestamp: hv.Timestamp}.Bytes()
			} else {
				signed, _ = asn1.Marshal(r)
			}
			d := sha256.Sum256(signed)
			r.Signature, _ = n2.ident.Sign(rand.Reader, d[:], nil)
			body, err := asn1.Marshal(r)
			if err != nil {
				return v[:1]
			}
			return append([]byte{byte(len(body)), byte(len(body) >> 8)}, body...)
		}, Entitled: ent, EntDom: "dom", MayReject: ent != none})
	}
	domCase("T61String with bytes that are not UTF-8", asn1.TagT61String, []byte{0xff, 'o', 'm'}, "", none)
	domCase("T61String 'dom' followed by a byte that is not UTF-8", asn1.TagT61String, []byte{'d', 'o', 'm', 0xfe}, "", none)
	domCase("GeneralString with bytes that are not UTF-8", asn1.TagGeneralString, []byte{0xc3, 0x28}, "", none)
	domCase("T61String 'dom'", asn1.TagT61String, []byte("dom"), "dom", 2)
	domCase("IA5String 'dom'", asn1.TagIA5String, []byte("dom"), "dom", 2)
	domCase("UTF8String 'dom'", asn1.TagUTF8String, []byte("dom"), "dom", 2)
	domCase("BMPString 'dom'", asn1.TagBMPString, []byte{0, 'd', 0, 'o', 0, 'm'}, "dom", 2)
	domCase("BMPString of odd length", asn1.TagBMPString, []byte{0, 'd', 0}, "", none)
	domCase("NumericString with letters", asn1.TagNumericString, []byte("dom"), "", none)
	domCase("UTF8String that is not UTF-8", asn1.TagUTF8String, []byte{'d', 0xff}, "", none)
	domCase("OCTET STRING", asn1.TagOctetString, []byte("dom"), "", none)
	domCase("UTF8String 'dom' with a NUL appended", asn1.TagUTF8String, []byte("dom\x00"), "", none)

	// node 15 itself, with its own key and a valid signature, claims the domain "z\xc3\xbcr" (one more character) and presents its
	// identity file minus that character: the hash of domain || identity is the registered one, but node 15 is not registered under
	// the claimed domain and what it presents is not the identity registered for it
	add(c16case{Field: "domain", Mutation: "boundary between domain and identity moved by the key holder itself (identity file with a leading text line)", Domain: "z\xc3\xbcr", Auth: func(b []byte) comm.Handshake {
		h := comm.Handshake{Domain: "z\xc3\xbcr", TLSBinding: b, Identity: append([]byte("ich\n"), k15.Cert...), Timestamp: time.Now().Unix()}
		signWith(k15, &h)
		return h
	}, Entitled: none})
	add(c16case{Field: "none", Mutation: "valid handshake of node 15 (domain ending in a multi-byte character, identity file with a leading text line)", Domain: "z\xc3\xbc", Auth: func(b []byte) comm.Handshake {
		h := comm.Handshake{Domain: "z\xc3\xbc", TLSBinding: b, Identity: id15, Timestamp: time.Now().Unix()}
		signWith(k15, &h)
		return h
	}, Entitled: 15, EntDom: "z\xc3\xbc"})
	// somebody WITHOUT any private key: the claimed domain is node 15's cut inside its last character (as a T61String, which may carry
	// such bytes but cannot be re-encoded), the identity is the rest of that character followed by node 15's identity file - the
	// lookup key is node 15's. The signature is the one anybody can compute from a public key alone for the all-zero digest
	// (r = x(vQ), s = r/v): it verifies exactly if the receiver ends up checking it against an empty digest. Controls: the same
	// signature with the domain sent as UTF8String (not decodable / not registered), and with node 15's genuine split.
	if blk, _ := pem.Decode(k15.Cert); blk != nil {
		if cert, err := x509.ParseCertificate(blk.Bytes); err == nil {
			if pub, ok := cert.PublicKey.(*ecdsa.PublicKey); ok {
				forge := func() []byte {
					n := pub.Curve.Params().N
					v, _ := rand.Int(rand.Reader, new(big.Int).Sub(n, big.NewInt(2)))
					v.Add(v, big.NewInt(1))
					x, _ := pub.Curve.ScalarMult(pub.X, pub.Y, v.Bytes())
					r := new(big.Int).Mod(x, n)
					sg := new(big.Int).Mul(r, new(big.Int).ModInverse(v, n))
					sg.Mod(sg, n)
					b, _ := asn1.Marshal(struct{ R, S *big.Int }{r, sg})
					return b
				}
				for _, v := range []struct {
					name     string
					tag      int
					dom, idn []byte
				}{
					{"domain cut inside a multi-byte character (T61String), rest of the character in front of the identity", asn1.TagT61String, []byte("z\xc3"), append([]byte("\xbc"), id15...)},
					{"domain cut inside a multi-byte character (GeneralString), rest of the character in front of the identity", asn1.TagGeneralString, []byte("z\xc3"), append([]byte("\xbc"), id15...)},
					{"domain cut inside a multi-byte character (UTF8String)", asn1.TagUTF8String, []byte("z\xc3"), append([]byte("\xbc"), id15...)},
					{"node 15's own domain and identity", asn1.TagUTF8String, []byte("z\xc3\xbc"), id15},
					{"domain cut before the multi-byte character (T61String)", asn1.TagT61String, []byte("z"), append([]byte("\xc3\xbc"), id15...)},
				} {
					v := v
					add(c16case{Field: "signature", Mutation: "computed from the public key alone for an empty digest; " + v.name, Raw: func(valid []byte) []byte {
						var hv comm.Handshake
						if _, err := asn1.Unmarshal(valid[2:], &hv); err != nil {
							return valid[:1]
						}
						r := rawHS{Domain: asn1.RawValue{Class: asn1.ClassUniversal, Tag: v.tag, Bytes: v.dom}, TLSBinding: hv.TLSBinding, Identity: v.idn, Timestamp: hv.Timestamp, Signature: forge()}
						body, err := asn1.Marshal(r)
						if err != nil {
							return valid[:1]
						}
						return append([]byte{byte(len(body)), byte(len(body) >> 8)}, body...)
					}, Entitled: none})
				}
			}
		}
	}

	// --- run: hostile connections interleaved with honest ones (node 5 keeps sending honest traffic)
	honest := env.client(1, "dom", honestAuth(n5.ident, "dom"))
	topic := bytes.Repeat([]byte{7}, 32)
	type sent struct {
		c    c16case
		mark []byte
	}
	var sents []sent
	var conns []interface{ Close() error }
	honestSent := 0
	for i, c := range cases {
		mk := marker("c16", i)
		sents = append(sents, sent{c, mk})
		p.Begin(c.Field + ": " + c.Mutation)
		if c.Raw == nil {
			cl := env.client(1, c.Domain, c.Auth)
			cl.Send(uint8(comm.MsgTypeMPC), topic, mk, 1)
		} else {
			conn, binding, err := env.rawDial(srv.addr)
			if err != nil {
				if e.Property == "C10" && len(conns) > 0 {
					// earlier connections of this catalogue left their handshakes unfinished and are still open; a new client that
					// cannot even connect (10 s, TLS handshake included) means the service to other peers has stopped
					p.Violate("wedged/listener-after-unfinished-handshakes", fmt.Sprintf("after %d connections whose handshakes were left unfinished (still open), a new client could not connect to the service within 10 s: %v", len(conns), err), nil)
					break
				}
				p.Inconcl("raw dial failed: " + err.Error())
				continue
			}
			conns = append(conns, conn)
			valid := encodeHandshake(honestAuth(n2.ident, "dom")(binding))
			conn.Write(c.Raw(valid))
			conn.Write(frame(uint8(comm.MsgTypeMPC), topic, mk))
		}
		if i%3 == 0 {
			honest.Send(uint8(comm.MsgTypeMPC), topic, marker("honest", honestSent), 1)
			honestSent++
		}
	}
	// fence: honest markers sent after all hostile connections were started must all arrive, then a grace period
	for k := 0; k < 5; k++ {
		honest.Send(uint8(comm.MsgTypeMPC), topic, marker("honest", honestSent), 1)
		honestSent++
	}
	deadline := time.Now().Add(20 * time.Second)
	for time.Now().Before(deadline) {
		got := 0
		for _, m := range srv.received() {
			if bytes.HasPrefix(m.Data, []byte("MARK|honest|")) {
				got++
			}
		}
		if got >= honestSent {
			break
		}
		time.Sleep(5 * time.Millisecond)
	}
	time.Sleep(time.Duration(e.Pick(400, 1500)) * time.Millisecond)
	for _, c := range conns {
		c.Close()
	}
	recv := srv.received()
	honestGot := 0
	for _, m := range recv {
		if bytes.HasPrefix(m.Data, []byte("MARK|honest|")) {
			honestGot++
			if m.From != 5 || m.Domain != "dom" {
				viol("misattributed/honest", fmt.Sprintf("an honest message of node 5 was attributed to node %d in domain %q", m.From, m.Domain), nil)
			}
		}
	}
	p.Count("honest_messages_received", int64(honestGot))
	if honestGot < honestSent {
		p.Inconcl(fmt.Sprintf("only %d of %d honest fence messages arrived", honestGot, honestSent))
	}
	selfCheckOK := true
	for _, s := range sents {
		var hits []comm.InMsg
		for _, m := range recv {
			if bytes.Equal(m.Data, s.mark) {
				hits = append(hits, m)
			}
		}
		key := s.c.Field + ": " + s.c.Mutation
		p.Case(key, s.c.Field != "none")
		p.Count("handshakes", 1)
		wit := map[string]interface{}{"field": s.c.Field, "mutation": s.c.Mutation}
		if s.c.Entitled == 0xffff {
			p.Count("hostile_handshakes", 1)
			if len(hits) > 0 {
				viol("attributed/"+s.c.Field+"/"+shortMut(s.c.Mutation), fmt.Sprintf("a message sent after a handshake with %s = %s was attributed to node %d in domain %q", s.c.Field, s.c.Mutation, hits[0].From, hits[0].Domain), wit)
			}
		} else {
			if len(hits) == 0 {
				if s.c.MayReject {
					p.Count("unusual_encodings_refused", 1)
				} else if s.c.Raw != nil && s.c.Field == "none" {
					selfCheckOK = false
				} else if s.c.Field == "none" {
					viol("valid-handshake-rejected", "a message sent after a valid handshake ("+s.c.Mutation+") never arrived", wit)
				}
			} else if hits[0].From != s.c.Entitled || hits[0].Domain != s.c.EntDom {
				viol("misattributed/"+s.c.Field, fmt.Sprintf("%s: attributed to node %d in domain %q, entitled is node %d in %q", s.c.Mutation, hits[0].From, hits[0].Domain, s.c.Entitled, s.c.EntDom), wit)
			} else {
				p.Count("valid_handshakes_attributed", 1)
			}
		}
	}
	if !selfCheckOK {
		p.Inconcl("the raw client's unmodified handshake was not accepted: encoding-level cases have no power in this build")
	}
	// what was attributed stays what it was: large messages of node 2 (64 KiB .. 2.5 MiB, in non-ascending order of size) are received and HELD by the
	// application while other connections - one that never proves any identity and sends 65535 junk bytes as its "handshake", and
	// another authenticated node sending large messages - are read by the same service. Afterwards the held messages still carry
	// node 2's bytes.
	{
		h2 := env.client(1, "dom", honestAuth(n2.ident, "dom"))
		var want [][]byte
		for k, size := range []int{5 << 19, 1<<20 + 4096, 64 << 10, 1<<20 + 17, 3 << 19, 1 << 20} { // not ascending: a later one fits an earlier one's buffer
			b := bytes.Repeat([]byte{0x5a}, size)
			copy(b, []byte(fmt.Sprintf("HELD|node2|%d|", k)))
			want = append(want, b)
			h2.Send(1, topic, b, 1)
		}
		find := func() []comm.InMsg {
			var out []comm.InMsg
			for _, m := range srv.received() {
				if bytes.HasPrefix(m.Data, []byte("HELD|node2|")) && len(m.Data) >= 64<<10 {
					out = append(out, m)
				}
			}
			return out
		}
		if waitFor(20*time.Second, func() bool { return len(find()) >= len(want) }) {
			held := find() // the application keeps these
			if c, _, err := env.rawDial(srv.addr); err == nil {
				junk := append([]byte{0xff, 0xff}, bytes.Repeat([]byte{0xee}, 65535)...)
				c.Write(junk)
				time.Sleep(20 * time.Millisecond)
				c.Close()
			}
			h5 := env.client(1, "dom", honestAuth(n5.ident, "dom"))
			before := len(srv.received())
			for k := 0; k < 4; k++ {
				h5.Send(1, topic, bytes.Repeat([]byte{0xdd}, 1<<20+1000*(4-k)), 1)
			}
			waitFor(20*time.Second, func() bool { return len(srv.received()) >= before+4 })
			time.Sleep(20 * time.Millisecond)
			for _, m := range held {
				ok := m.From == 2
				match := false
				for _, w := range want {
					if bytes.Equal(m.Data, w) {
						match = true
					}
				}
				p.Count("held_messages_rechecked", 1)
				if !ok || !match {
					off := 0
					for off < len(m.Data) && (off < 16 || m.Data[off] == 0x5a) {
						off++
					}
					viol("attributed-content-overwritten", fmt.Sprintf("a %d-byte message that was attributed to node 2 and is held by the application no longer carries node 2's bytes after other connections were read (first foreign byte 0x%02x at offset %d)", len(m.Data), m.Data[min(off, len(m.Data)-1)], off), nil)
					break
				}
			}
		} else {
			p.Inconcl("the large messages of node 2 did not arrive")
		}
	}
	for i, s := range sents {
		if i%13 == 0 {
			p.Sample(map[string]interface{}{"field": s.c.Field, "mutation": s.c.Mutation})
		}
	}
}

func shortMut(m string) string {
	if i := strings.IndexAny(m, "(,"); i > 0 {
		m = m[:i]
	}
	if strings.HasPrefix(m, "truncated to ") {
		return "truncated"
	}
	return strings.TrimSpace(m)
}
