package main

// C17 — the transport frames faithfully and isolates a failing peer.

import (
	"bytes"
	"crypto/sha256"
	"encoding/binary"
	"fmt"
	"net"
	"sync"
	"sync/atomic"
	"time"

	comm "github.com/IBM/TSS/net"

	"verifharness/common"
)

const frameLimit = 1024 * 1024 * 20 // the documented limit of the transport (20 MiB)

type c17msg struct {
	typ   uint8
	topic []byte
	data  []byte
}

// payload: id (conn, goroutine, seq) in the first 12 bytes when it fits; shorter payloads carry the id in the topic.
func mkPayload(size int, conn, gor, seq uint32) (data, topic []byte) {
	topic = make([]byte, 32)
	binary.BigEndian.PutUint32(topic[0:], conn)
	binary.BigEndian.PutUint32(topic[4:], gor)
	binary.BigEndian.PutUint32(topic[8:], seq)
	binary.BigEndian.PutUint32(topic[12:], uint32(size))
	data = make([]byte, size)
	for i := range data {
		data[i] = byte(i*31) ^ byte(seq) ^ byte(gor)
	}
	return
}

func waitFor(max time.Duration, cond func() bool) bool {
	deadline := time.Now().Add(max)
	for time.Now().Before(deadline) {
		if cond() {
			return true
		}
		time.Sleep(3 * time.Millisecond)
	}
	return cond()
}

func unitC17(e common.Env, p *common.Part) {
	p.Rule = "3..5 real endpoints on 127.0.0.1; payload lengths {0,1,31,32,33,255,256,65535,65536,1 MiB, limit-1, limit, limit+1}; type/topic forms (types 1,2 with a 32-byte topic; types 0,3,9 without); 1..8 concurrent sending goroutines per connection; 480 (thorough 3000) fresh peer handles whose first Send is issued by 8 goroutines released together; connections that stay quiet for 0.2 s, 2 s and 31.5 s between two frames; faults, each in turn: a peer that never listened, a listener closed mid-run, a peer that accepts but never reads, a peer whose port accepts TCP connections but never answers the TLS handshake, a peer that listens but never accepts, an authenticated client writing a truncated frame / an oversize length / garbage; oracle: per (connection, goroutine) sequence equality and multiset equality on ids and SHA-256 of type/topic/payload at the receiver, oversize never delivered, process alive, messages between healthy peers all received; distinct key = (scenario, size, form, senders, fault); non-trivial when >=2 concurrent senders, a boundary size or a fault is involved"
	p.Assumptions = append(p.Assumptions, "the 10 s enqueue stall towards a dead peer is reported, not judged; 'all received' is bounded by message count with a 60 s watchdog; the id of a message rides in its topic (types 1,2) or the payload head")
	type scen struct {
		name string
		run  func() (string, string)
	}
	doms := []string{"d", "d", "d", "d", "d"}
	ids := []uint16{1, 2, 3, 4, 5}
	digest := func(typ uint8, topic, data []byte) [32]byte {
		h := sha256.New()
		h.Write([]byte{typ})
		h.Write(topic)
		h.Write([]byte{0xff})
		h.Write(data)
		var o [32]byte
		copy(o[:], h.Sum(nil))
		return o
	}
	// --- scenario A: sizes x forms, sequential and concurrent goroutines, fidelity + order
	scenA := func(sizes []int, goroutines, perG int, withTopic bool) (string, string) {
		env, err := newNetEnv(ids, doms)
		if err != nil {
			return "", ""
		}
		defer env.stopAll()
		env.listen(1, true)
		env.listen(2, true)
		cl := env.client(1, "d", honestAuth(env.nodes[3].ident, "d"))
		cl2 := env.client(2, "d", honestAuth(env.nodes[3].ident, "d"))
		both := comm.SocketRemoteParties{1: cl[1], 2: cl2[2]}
		type exp struct {
			sum [32]byte
		}
		var mu sync.Mutex
		expect := map[uint32][]exp{} // goroutine -> sequence of digests
		var wg sync.WaitGroup
		total := 0
		for g := 0; g < goroutines; g++ {
			g := g
			wg.Add(1)
			go func() {
				defer wg.Done()
				for s := 0; s < perG; s++ {
					size := sizes[(g+s)%len(sizes)]
					data, topic := mkPayload(size, 1, uint32(g), uint32(s))
					typ := uint8(1 + (g+s)%2)
					if !withTopic {
						typ = []uint8{0, 3, 9}[(g+s)%3]
						topic = nil
						if size < 12 {
							size = 12
							data = make([]byte, 12)
						}
						binary.BigEndian.PutUint32(data[0:], 1)
						binary.BigEndian.PutUint32(data[4:], uint32(g))
						binary.BigEndian.PutUint32(data[8:], uint32(s))
					}
					mu.Lock()
					expect[uint32(g)] = append(expect[uint32(g)], exp{digest(typ, topic, data)})
					total++
					mu.Unlock()
					both.Send(typ, topic, data, 1, 2)
				}
			}()
		}
		wg.Wait()
		for _, rid := range []uint16{1, 2} {
			rn := env.nodes[rid]
			if !waitFor(60*time.Second, func() bool { return len(rn.received()) >= total }) {
				return "missing", fmt.Sprintf("receiver %d got %d of %d messages", rid, len(rn.received()), total)
			}
			time.Sleep(30 * time.Millisecond)
			got := map[uint32][][32]byte{}
			for _, m := range rn.received() {
				var g uint32
				if len(m.Topic) == 32 {
					g = binary.BigEndian.Uint32(m.Topic[4:])
				} else if len(m.Data) >= 12 {
					g = binary.BigEndian.Uint32(m.Data[4:])
				}
				if m.From != 3 {
					return "misattributed", fmt.Sprintf("message attributed to %d", m.From)
				}
				got[g] = append(got[g], digest(m.Type, m.Topic, m.Data))
			}
			if len(rn.received()) != total {
				return "duplicated", fmt.Sprintf("receiver %d got %d messages, %d were sent", rid, len(rn.received()), total)
			}
			for g, want := range expect {
				if len(got[g]) != len(want) {
					return "missing", fmt.Sprintf("receiver %d: goroutine %d sent %d messages, %d arrived", rid, g, len(want), len(got[g]))
				}
				for i := range want {
					if got[g][i] != want[i].sum {
						return "modified-or-reordered", fmt.Sprintf("receiver %d: message %d of sending goroutine %d differs from what was sent (type, topic or payload) or arrived out of order", rid, i, g)
					}
				}
			}
		}
		p.Count("messages_checked", int64(2*total))
		return "", ""
	}
	small := []int{0, 1, 31, 32, 33, 255, 256, 65535, 65536}
	scens := []scen{
		{"sizes 0..65536, one sender, types 1/2 with topic", func() (string, string) { return scenA(small, 1, 4*len(small), true) }},
		{"sizes 0..65536, 8 concurrent senders, types 1/2 with topic", func() (string, string) { return scenA(small, 8, e.Pick(60, 400), true) }},
		{"sizes 0..65536, 4 concurrent senders, types 0/3/9 without topic", func() (string, string) { return scenA(small, 4, e.Pick(40, 300), false) }},
		{"1 MiB and 3 MiB payloads, 2 senders", func() (string, string) { return scenA([]int{1 << 20, 3 << 20, 17}, 2, 6, true) }},
		{"limit-1 and limit payloads", func() (string, string) { return scenA([]int{frameLimit - 1, frameLimit}, 1, 2, true) }},
	}
	// --- scenario A': the FIRST Send on a fresh peer handle is issued by 8 goroutines at the same instant (they spin on a gate), for
	// many fresh handles: whatever the handle sets up on first use (sender goroutine, connection, handshake) is set up once
	scens = append(scens, scen{"first Send on a fresh handle issued by 8 goroutines at the same instant", func() (string, string) {
		env, err := newNetEnv(ids, doms)
		if err != nil {
			return "", ""
		}
		defer env.stopAll()
		env.listen(1, true)
		attempts, G, perG := e.Pick(480, 3000), 8, 10
		rn := env.nodes[1]
		checked := 0
		for a0 := 0; a0 < attempts; a0 += 20 {
			for a := a0; a < a0+20 && a < attempts; a++ {
				cl := env.client(1, "d", honestAuth(env.nodes[3].ident, "d"))
				var gate int32
				var wg sync.WaitGroup
				for g := 0; g < G; g++ {
					g := g
					wg.Add(1)
					go func() {
						defer wg.Done()
						for atomic.LoadInt32(&gate) == 0 {
						}
						for sq := 0; sq < perG; sq++ {
							data, topic := mkPayload(40+(g*7+sq*13)%900, uint32(a), uint32(g), uint32(sq))
							cl.Send(1, topic, data, 1)
						}
					}()
				}
				time.Sleep(200 * time.Microsecond)
				atomic.StoreInt32(&gate, 1)
				wg.Wait()
			}
			want := min(a0+20, attempts) * G * perG
			if !waitFor(30*time.Second, func() bool { return len(rn.received()) >= want }) {
				// which handle lost messages
				per := map[uint32]int{}
				for _, m := range rn.received() {
					if len(m.Topic) == 32 {
						per[binary.BigEndian.Uint32(m.Topic[0:])]++
					}
				}
				for a := a0; a < a0+20 && a < attempts; a++ {
					if per[uint32(a)] != G*perG {
						return "missing/first-send-by-several-goroutines", fmt.Sprintf("fresh handle #%d: %d goroutines issued its first Send together and sent %d messages in all, %d arrived", a, G, G*perG, per[uint32(a)])
					}
				}
				return "missing/first-send-by-several-goroutines", fmt.Sprintf("%d of %d messages arrived", len(rn.received()), want)
			}
		}
		time.Sleep(30 * time.Millisecond)
		next := map[[2]uint32]uint32{}
		for _, m := range rn.received() {
			if len(m.Topic) != 32 || m.From != 3 || m.Type != 1 {
				return "modified/first-send-by-several-goroutines", fmt.Sprintf("a message arrived with type %d, a %d-byte topic, attributed to %d", m.Type, len(m.Topic), m.From)
			}
			a, g, sq, size := binary.BigEndian.Uint32(m.Topic[0:]), binary.BigEndian.Uint32(m.Topic[4:]), binary.BigEndian.Uint32(m.Topic[8:]), binary.BigEndian.Uint32(m.Topic[12:])
			wantData, _ := mkPayload(int(size), a, g, sq)
			if int(size) > 1000 || !bytes.Equal(wantData, m.Data) {
				return "modified/first-send-by-several-goroutines", fmt.Sprintf("fresh handle #%d: message %d of goroutine %d arrived with another payload than was sent", a, sq, g)
			}
			k := [2]uint32{a, g}
			if sq != next[k] {
				return "reordered-or-duplicated/first-send-by-several-goroutines", fmt.Sprintf("fresh handle #%d: goroutine %d's message %d arrived where its message %d was due", a, g, sq, next[k])
			}
			next[k]++
			checked++
		}
		if checked != attempts*G*perG {
			return "duplicated/first-send-by-several-goroutines", fmt.Sprintf("%d messages arrived, %d were sent", checked, attempts*G*perG)
		}
		p.Count("messages_checked", int64(checked))
		p.Count("fresh_handles_first_used_by_8_goroutines", int64(attempts))
		return "", ""
	}})
	// --- scenario A'': connections that stay quiet for a while between two frames (0.2 s, 2 s, and 31.5 s - beyond the half-minute
	// that time-outs in this code base use): what is sent after the pause arrives like everything else
	for _, pause := range []time.Duration{200 * time.Millisecond, 2 * time.Second, 31500 * time.Millisecond} {
		pause := pause
		scens = append(scens, scen{fmt.Sprintf("a connection that is quiet for %v between two frames", pause), func() (string, string) {
			env, err := newNetEnv(ids, doms)
			if err != nil {
				return "", ""
			}
			defer env.stopAll()
			env.listen(1, true)
			cl := env.client(1, "d", honestAuth(env.nodes[3].ident, "d"))
			d0, t0 := mkPayload(100, 7, 0, 0)
			cl.Send(1, t0, d0, 1)
			if !waitFor(10*time.Second, func() bool { return len(env.nodes[1].received()) >= 1 }) {
				return "missing", "the first frame did not arrive"
			}
			time.Sleep(pause)
			for k := 1; k <= 3; k++ {
				d, t := mkPayload(100+k, 7, 0, uint32(k))
				cl.Send(1, t, d, 1)
			}
			if !waitFor(15*time.Second, func() bool { return len(env.nodes[1].received()) >= 4 }) {
				return "missing/after-a-quiet-period", fmt.Sprintf("%d of the 3 frames sent after a pause of %v on an established connection arrived within 15 s", len(env.nodes[1].received())-1, pause)
			}
			for i, m := range env.nodes[1].received() {
				if len(m.Topic) != 32 || binary.BigEndian.Uint32(m.Topic[8:]) != uint32(i) || m.From != 3 {
					return "modified-or-reordered", "frames around a quiet period out of order or misattributed"
				}
			}
			p.Count("messages_checked", 4)
			p.Count("quiet_period_scenarios", 1)
			return "", ""
		}})
	}
	// --- scenario B: a frame announcing more than the limit is refused, and the process survives
	scens = append(scens, scen{"limit+1 refused", func() (string, string) {
		env, err := newNetEnv(ids, doms)
		if err != nil {
			return "", ""
		}
		defer env.stopAll()
		env.listen(1, true)
		cl := env.client(1, "d", honestAuth(env.nodes[3].ident, "d"))
		data, topic := mkPayload(frameLimit+1, 1, 0, 0)
		cl.Send(1, topic, data, 1)
		// a healthy connection from another peer afterwards
		cl4 := env.client(1, "d", honestAuth(env.nodes[4].ident, "d"))
		d2, t2 := mkPayload(100, 2, 0, 0)
		cl4.Send(1, t2, d2, 1)
		if !waitFor(30*time.Second, func() bool {
			for _, m := range env.nodes[1].received() {
				if m.From == 4 {
					return true
				}
			}
			return false
		}) {
			return "healthy-peer-blocked", "after an oversize frame of node 3 the message of node 4 never arrived"
		}
		time.Sleep(300 * time.Millisecond)
		for _, m := range env.nodes[1].received() {
			if len(m.Data) > frameLimit {
				return "oversize-delivered", fmt.Sprintf("a payload of %d bytes (limit %d) was delivered", len(m.Data), frameLimit)
			}
		}
		p.Count("oversize_refused", 1)
		return "", ""
	}})
	// --- scenario C: garbling authenticated clients (raw), healthy traffic continues
	garble := func(name string, bad func(valid []byte) []byte) scen {
		return scen{"garbling client: " + name, func() (string, string) {
			env, err := newNetEnv(ids, doms)
			if err != nil {
				return "", ""
			}
			defer env.stopAll()
			env.listen(1, true)
			healthy := env.client(1, "d", honestAuth(env.nodes[4].ident, "d"))
			for i := 0; i < 20; i++ {
				d, t := mkPayload(50, 2, 0, uint32(i))
				healthy.Send(1, t, d, 1)
			}
			conn, binding, err := env.rawDial(env.nodes[1].addr)
			if err != nil {
				return "", ""
			}
			conn.Write(encodeHandshake(honestAuth(env.nodes[3].ident, "d")(binding)))
			good := frame(1, bytes.Repeat([]byte{1}, 32), []byte("before-the-broken-frame"))
			conn.Write(good)
			conn.Write(bad(good))
			time.Sleep(20 * time.Millisecond)
			conn.Close()
			for i := 20; i < 40; i++ {
				d, t := mkPayload(50, 2, 0, uint32(i))
				healthy.Send(1, t, d, 1)
			}
			if !waitFor(30*time.Second, func() bool {
				c := 0
				for _, m := range env.nodes[1].received() {
					if m.From == 4 {
						c++
					}
				}
				return c >= 40
			}) {
				return "healthy-peer-blocked", "traffic of a healthy peer stopped after another peer sent a broken frame (" + name + ")"
			}
			seq := uint32(0)
			for _, m := range env.nodes[1].received() {
				if m.From == 4 {
					if binary.BigEndian.Uint32(m.Topic[8:]) != seq {
						return "modified-or-reordered", "healthy peer's messages out of order"
					}
					seq++
				}
				if m.From == 3 && !bytes.Equal(m.Data, []byte("before-the-broken-frame")) {
					return "garbage-delivered", fmt.Sprintf("a broken frame was delivered as a message of %d bytes", len(m.Data))
				}
			}
			p.Count("messages_checked", 40)
			p.Count("fault_scenarios", 1)
			return "", ""
		}}
	}
	scens = append(scens,
		garble("truncated frame then close", func(g []byte) []byte { return g[:len(g)-7] }),
		garble("header only then close", func(g []byte) []byte { return g[:5] }),
		garble("length 0xffffffff", func(g []byte) []byte {
			o := append([]byte{}, g...)
			o[1], o[2], o[3], o[4] = 0xff, 0xff, 0xff, 0xff
			return o
		}),
		garble("length limit+1 announced, no data", func(g []byte) []byte {
			o := append([]byte{}, g[:5+32]...)
			binary.LittleEndian.PutUint32(o[1:], frameLimit+1)
			return o
		}),
		garble("random garbage", func(g []byte) []byte { return bytes.Repeat([]byte{0xde, 0xad, 0xbe, 0xef}, 64) }),
	)
	// --- scenario D: unreachable / closed / stalled peers do not stop traffic to healthy peers
	isolate := func(name string, setup func(env *netEnv) (deadAddr string), count int) scen {
		return scen{"isolation: " + name, func() (string, string) {
			env, err := newNetEnv(ids, doms)
			if err != nil {
				return "", ""
			}
			defer env.stopAll()
			env.listen(1, true)
			deadAddr := setup(env)
			h := env.client(1, "d", honestAuth(env.nodes[3].ident, "d"))
			dead := env.clientAddr(2, deadAddr, "d", honestAuth(env.nodes[3].ident, "d"))
			both := comm.SocketRemoteParties{1: h[1], 2: dead[2]}
			start := time.Now()
			done := make(chan struct{})
			go func() {
				defer close(done)
				for i := 0; i < count; i++ {
					d, t := mkPayload(64, 3, 0, uint32(i))
					both.Send(1, t, d, 2, 1) // the dead peer first
				}
			}()
			select {
			case <-done:
			case <-time.After(time.Duration(60+12*max(0, count-1000)) * time.Second):
				return "sender-blocked", fmt.Sprintf("Send towards {dead peer, healthy peer} had not returned after %v", time.Since(start).Round(time.Second))
			}
			p.Note("isolation "+name+" send time", time.Since(start).Round(time.Millisecond).String())
			if !waitFor(30*time.Second, func() bool { return len(env.nodes[1].received()) >= count }) {
				return "healthy-peer-starved", fmt.Sprintf("the healthy peer received %d of %d messages while another peer was %s", len(env.nodes[1].received()), count, name)
			}
			for i, m := range env.nodes[1].received() {
				if binary.BigEndian.Uint32(m.Topic[8:]) != uint32(i) {
					return "modified-or-reordered", "messages to the healthy peer out of order"
				}
			}
			p.Count("messages_checked", int64(count))
			p.Count("fault_scenarios", 1)
			return "", ""
		}}
	}
	scens = append(scens,
		isolate("never listening", func(env *netEnv) string {
			l, _ := net.Listen("tcp", "127.0.0.1:0")
			a := l.Addr().String()
			l.Close()
			return a
		}, 600),
		isolate("listener closed mid-run", func(env *netEnv) string {
			env.listen(2, true)
			n := env.nodes[2]
			go func() { time.Sleep(30 * time.Millisecond); n.stop() }()
			return n.addr
		}, 600),
		isolate("accepting but never reading", func(env *netEnv) string {
			env.listen(2, false)
			return env.nodes[2].addr
		}, 600),
		// the peer's port is open but nobody completes the TLS handshake there (a hung process): the TCP connection is accepted and
		// then nothing is ever said, or it is never even accepted (the kernel completes the TCP handshake from the backlog)
		isolate("accepting TCP connections but never answering the TLS handshake", func(env *netEnv) string {
			l, _ := net.Listen("tcp", "127.0.0.1:0")
			go func() {
				var keep []net.Conn
				for {
					c, err := l.Accept()
					if err != nil {
						for _, k := range keep {
							k.Close()
						}
						return
					}
					keep = append(keep, c)
				}
			}()
			go func() { time.Sleep(100 * time.Second); l.Close() }()
			return l.Addr().String()
		}, 600),
		isolate("listening but never accepting a connection", func(env *netEnv) string {
			l, _ := net.Listen("tcp", "127.0.0.1:0")
			go func() { time.Sleep(100 * time.Second); l.Close() }()
			return l.Addr().String()
		}, 600),
	)
	// --- scenario F: sending side under back-pressure. The peer is not listening yet while one goroutine sends more messages than
	// the send queue holds (the calls beyond the queue's capacity wait for room); the peer comes up after 300 ms. Whatever
	// arrives must arrive in sending order, and nothing that was accepted before the peer came up may be lost silently.
	for _, total := range []int{1012, 1400} {
		total := total
		scens = append(scens, scen{fmt.Sprintf("back-pressure: %d messages towards a peer that starts listening late", total), func() (string, string) {
			env, err := newNetEnv(ids, doms)
			if err != nil {
				return "", ""
			}
			defer env.stopAll()
			l, err := net.Listen("tcp", "127.0.0.1:0")
			if err != nil {
				return "", ""
			}
			addr := l.Addr().String()
			l.Close()
			drops := &dropCounter{}
			late := env.clientAddrLog(2, addr, "d", honestAuth(env.nodes[3].ident, "d"), drops)
			done := make(chan struct{})
			go func() {
				defer close(done)
				for i := 0; i < total; i++ {
					d, t := mkPayload(64, 3, 0, uint32(i))
					late.Send(1, t, d, 2)
				}
			}()
			time.Sleep(300 * time.Millisecond)
			if !env.listenAt(2, addr) {
				<-done
				return "", "" // the reserved port was taken: scenario skipped
			}
			select {
			case <-done:
			case <-time.After(90 * time.Second):
				return "sender-blocked", "Send towards a peer that came up after 300 ms had not returned after 90 s"
			}
			waitFor(20*time.Second, func() bool { return len(env.nodes[2].received()) >= total })
			got := env.nodes[2].received()
			last := -1
			for _, m := range got {
				k := int(binary.BigEndian.Uint32(m.Topic[8:]))
				if k <= last {
					return "modified-or-reordered", fmt.Sprintf("messages sent by one goroutine over one connection arrived out of sending order (%d after %d) after the peer's send queue had been full", k, last)
				}
				last = k
			}
			// no-loss: the sender reports every message it gives up on ("timeout sending ..., dropping message"); when it reported
			// none, every one of the messages was accepted for sending and the peer that came up late must have received them all
			if d := drops.n(); d == 0 && len(got) < total {
				first := -1
				if len(got) > 0 {
					first = int(binary.BigEndian.Uint32(got[0].Topic[8:]))
				}
				return "lost/peer-down-when-sent", fmt.Sprintf("%d messages were sent to a peer that started listening 300 ms later; the sender reported no message as dropped, yet only %d arrived within 20 s of the last Send (first one to arrive: #%d)", total, len(got), first)
			}
			p.Count("late_peer_messages_all_received", int64(len(got)))
			p.Count("messages_checked", int64(len(got)))
			p.Count("fault_scenarios", 1)
			if len(got) < 1000 {
				p.Note("back-pressure deliveries", fmt.Sprintf("%d of %d", len(got), total))
			}
			return "", ""
		}})
	}
	// --- scenario G: an established, used connection is RESET from the peer's side while the sender is idle (peer killed with unread
	// data / linger 0, or a middle box resetting the flow); then the sender goes on sending to that peer and to a healthy one. The
	// sending process must survive; the healthy peer gets everything; the reset peer is reached again over a new connection.
	scens = append(scens, scen{"reset: established connection reset by the peer between two frames", func() (string, string) {
		env, err := newNetEnv(ids, doms)
		if err != nil {
			return "", ""
		}
		defer env.stopAll()
		env.listen(1, true)
		env.listen(2, true)
		both := comm.SocketRemoteParties{}
		for k, v := range env.client(1, "d", honestAuth(env.nodes[3].ident, "d")) {
			both[k] = v
		}
		for k, v := range env.client(2, "d", honestAuth(env.nodes[3].ident, "d")) {
			both[k] = v
		}
		seq := uint32(0)
		send := func(payload int) {
			d, t := mkPayload(payload, 3, 0, seq)
			seq++
			both.Send(1, t, d, 2, 1)
		}
		send(64)
		if !waitFor(10*time.Second, func() bool { return len(env.nodes[1].received()) >= 1 && len(env.nodes[2].received()) >= 1 }) {
			return "", "" // could not even establish: nothing to judge
		}
		resets := 0
		for round := 0; round < 3; round++ {
			resets += env.nodes[2].rec.resetAll()
			time.Sleep(60 * time.Millisecond) // the reset reaches the sender's socket
			// an empty payload first (a frame that is header only), then ordinary ones
			send(0)
			send(64)
			time.Sleep(30 * time.Millisecond)
		}
		for k := 0; k < 5; k++ {
			send(64)
			time.Sleep(250 * time.Millisecond) // the sender re-dials once per second at most
		}
		total := int(seq)
		if !waitFor(20*time.Second, func() bool { return len(env.nodes[1].received()) >= total }) {
			return "healthy-peer-starved", fmt.Sprintf("the healthy peer received %d of %d messages while connections to another peer were being reset", len(env.nodes[1].received()), total)
		}
		if !waitFor(20*time.Second, func() bool { return len(env.nodes[2].received()) >= 2 }) {
			return "peer-not-reached-again", "after its connection had been reset the peer was never reached again over a new connection"
		}
		last := -1
		for _, m := range env.nodes[2].received() {
			k := int(binary.BigEndian.Uint32(m.Topic[8:]))
			if k <= last {
				return "modified-or-reordered", "messages to the peer whose connection was reset arrived out of sending order"
			}
			last = k
		}
		p.Note("connection resets", resets)
		p.Count("messages_checked", int64(total+len(env.nodes[2].received())))
		p.Count("fault_scenarios", 1)
		return "", ""
	}})
	// --- scenario E: inbound peers that stall (before, during and after the TLS handshake, inside the application handshake,
	// inside a frame) do not stop other peers from connecting to the same listener and delivering
	for _, stall := range []string{"silent after TCP connect", "truncated TLS record header", "TLS done, no handshake", "handshake length prefix only", "valid handshake, frame header only"} {
		stall := stall
		scens = append(scens, scen{"inbound stall: " + stall, func() (string, string) {
			env, err := newNetEnv(ids, doms)
			if err != nil {
				return "", ""
			}
			defer env.stopAll()
			env.listen(1, true)
			srv := env.nodes[1]
			var open []net.Conn
			defer func() {
				for _, c := range open {
					c.Close()
				}
			}()
			for k := 0; k < 4; k++ {
				switch stall {
				case "silent after TCP connect", "truncated TLS record header":
					c, err := net.Dial("tcp", srv.addr)
					if err != nil {
						return "", ""
					}
					open = append(open, c)
					if stall == "truncated TLS record header" {
						c.Write([]byte{0x16, 0x03, 0x01})
					}
				default:
					c, binding, err := env.rawDial(srv.addr)
					if err != nil {
						return "", ""
					}
					open = append(open, c)
					valid := encodeHandshake(honestAuth(env.nodes[2].ident, "d")(binding))
					switch stall {
					case "handshake length prefix only":
						c.Write(valid[:2])
					case "valid handshake, frame header only":
						c.Write(valid)
						c.Write([]byte{uint8(comm.MsgTypeMPC), 0xe8, 0x03, 0, 0})
					}
				}
			}
			time.Sleep(20 * time.Millisecond)
			// now a healthy peer opens a NEW connection to the same listener
			const count = 200
			h := env.client(1, "d", honestAuth(env.nodes[3].ident, "d"))
			go func() {
				for i := 0; i < count; i++ {
					d, t := mkPayload(64, 3, 0, uint32(i))
					h.Send(1, t, d, 1)
				}
			}()
			if !waitFor(30*time.Second, func() bool { return len(srv.received()) >= count }) {
				return "healthy-peer-starved", fmt.Sprintf("a healthy peer that connected after 4 stalled inbound connections (%s) got %d of %d messages through in 30 s", stall, len(srv.received()), count)
			}
			for i, m := range srv.received() {
				if m.From != 3 || binary.BigEndian.Uint32(m.Topic[8:]) != uint32(i) {
					return "modified-or-reordered", "messages of the healthy peer out of order or misattributed while other inbound connections were stalled"
				}
			}
			p.Count("messages_checked", count)
			p.Count("fault_scenarios", 1)
			return "", ""
		}})
	}
	if e.Thorough() {
		// saturate the queue of the unreachable peer: three 10 s stalls are expected (reported, not judged), never a panic
		scens = append(scens, isolate("never listening, queue saturated (1003 messages)", func(env *netEnv) string {
			l, _ := net.Listen("tcp", "127.0.0.1:0")
			a := l.Addr().String()
			l.Close()
			return a
		}, 1003))
	}
	var wg sync.WaitGroup
	sem := make(chan struct{}, 3)
	for i, sc := range scens {
		if !e.Mine(i) {
			continue
		}
		sc := sc
		sem <- struct{}{}
		wg.Add(1)
		go func() {
			defer wg.Done()
			defer func() { <-sem }()
			p.Begin(sc.name)
			sig, what := sc.run()
			p.Case(sc.name, true)
			if sig != "" {
				p.Violate(sig+"/"+shortMut(sc.name), sc.name+": "+what, map[string]interface{}{"scenario": sc.name})
			}
			p.Sample(map[string]interface{}{"scenario": sc.name, "verdict": map[bool]string{true: "held", false: sig}[sig == ""]})
		}()
	}
	wg.Wait()
}
