package main

// Orchestrator-level stepped world: real threshold.Scheme objects (LoudScheme) with the barrier
// synchroniser, scripted backends that transmit their whole script at session start and then only
// listen. After set-up the scheduler is the only active thread: every step is one synchronous
// HandleMessage, acknowledgements come from the real code into the link queues, so a run is a
// deterministic function of the choice sequence and can be enumerated (dfs package).

import (
	"bytes"
	"context"
	"crypto/sha256"
	"fmt"
	"sort"
	"sync"
	"time"

	tss "github.com/IBM/TSS/types"

	"verifharness/backend"
	"verifharness/cluster"
	"verifharness/simnet"
)

type oconfig struct {
	Name      string
	Map       map[uint16]uint16 // node -> party
	Callers   []uint16          // nodes that call KeyGen/Sign
	Sign      bool
	Silent    bool // SilentScheme (msg.Box + silent synchroniser) instead of LoudScheme + barrier
	Script    backend.Script
	Byz       map[uint16]*byzPlan // Byzantine nodes (must be callers, so that the session starts)
	Outsiders []outsiderPlan
	// Threshold: Scheme.Threshold when it is not len(Callers)-1 (key generation: every party takes part whatever the threshold)
	Threshold int
}

// byzPlan describes a Byzantine participant built from real transmissions.
type byzPlan struct {
	// RouteVersion: broadcast version v of this node's backend reaches only these nodes (equivocation).
	RouteVersion map[uint8][]uint16
	// ReflectAcks: every acknowledgement an honest node sends to this node is sent back to its origin
	// as this node's own transmission (a self-acknowledgement when it is about this node, an
	// accomplice's voucher otherwise).
	ReflectAcks bool
	// ReflectTwice: reflect each acknowledgement twice (replayed voucher).
	ReflectTwice bool
	// DropOwnAcks: the node's own rbc acknowledgements are not transmitted.
	DropOwnAcks bool
	// Mute: inbound protocol traffic is not processed by the node's real scheme (pure reflector).
	Mute bool
	// ResendPayloads: every payload transmission is sent this many extra times.
	ResendPayloads int
	// ReverseVersionsFor: these nodes receive the broadcast versions in the opposite order (the first version is held
	// until the second one is transmitted).
	ReverseVersionsFor map[uint16]bool
	// WithholdPayloadFrom: these nodes get no payload at all (only vouchers).
	WithholdPayloadFrom map[uint16]bool
	// CopyAs: broadcast version v is additionally transmitted, at the moment it is emitted, under the transport identity of an
	// accomplice to the given nodes (the accomplice broadcasts the same bytes as its own message)
	CopyAs map[uint8]copyAs
	// ReflectOnlyVersion: with ReflectAcks, an acknowledgement of node h is reflected only if it vouches for this broadcast version
	// of the sender (recognised by content: it contains the SHA-256 of that version's bytes, with or without the frame marker);
	// a targeted accomplice instead of one that reflects everything
	ReflectOnlyVersion map[uint16]uint8
}

type copyAs struct {
	As uint16
	To []uint16
}

// outsiderPlan: a node that is not part of the session replays what it observes.
type outsiderPlan struct {
	ID uint16 // in the membership map but not a caller, or not in the map at all
	// every MPC packet delivered to `Tap` is copied and injected from ID to Victims
	Tap     uint16
	Victims []uint16
	// PayloadsOnly: acknowledgements are not replayed
	PayloadsOnly bool
}

type oworld struct {
	cfg      oconfig
	c        *cluster.Cluster
	cancel   context.CancelFunc
	wg       sync.WaitGroup
	honest   map[uint16]bool
	panics   []string
	topic    []byte
	results  map[uint16]error
	rmu      sync.Mutex
	setupErr string
	vdata    map[uint8][]byte // wire bytes of the broadcast versions emitted by Byzantine senders
}

var dkgTopic = cluster.Hash([]byte(tss.DkgTopicName))

func newOWorld(cfg oconfig) *oworld {
	w := &oworld{cfg: cfg, honest: map[uint16]bool{}, results: map[uint16]error{}}
	sc := cfg.Script
	sc.AllAtOnce = true
	sc.Hold = true
	thr := len(cfg.Callers) - 1
	if cfg.Threshold > 0 {
		thr = cfg.Threshold
	}
	w.c = cluster.New(cluster.Config{Map: cfg.Map, Threshold: thr, Barrier: !cfg.Silent, Silent: cfg.Silent, Script: sc})
	w.c.Net.KeepData = true
	for _, u := range cfg.Callers {
		if cfg.Byz[u] == nil {
			w.honest[u] = true
		}
	}
	topicName := tss.DkgTopicName
	if cfg.Sign {
		topicName = "sign-topic"
	}
	w.topic = cluster.Hash([]byte(topicName))
	if cfg.Silent {
		callers := append([]uint16{}, cfg.Callers...)
		sort.Slice(callers, func(i, j int) bool { return callers[i] < callers[j] })
		w.c.SetPick(topicName, callers)
	}
	// Byzantine nodes
	for id, plan := range cfg.Byz {
		id, plan := id, plan
		w.c.Net.SetInterceptor(id, w.byzInterceptor(id, plan))
		real := w.c.Schemes[id]
		w.c.Net.Attach(id, simnet.HandlerFunc(func(m *tss.IncMessage) {
			if m.MsgType == uint8(tss.MsgTypeMPC) && bytes.Equal(m.Topic, w.topic) && plan.ReflectAcks && !w.isPayload(m.Data) && w.vouchesFor(plan, m.Source, m.Data) {
				// an acknowledgement of an honest node: send the very same bytes back as our own transmission
				w.c.Net.Inject(id, simnet.Outgoing{Dst: m.Source, Type: m.MsgType, Topic: m.Topic, Data: m.Data, Tag: "reflected-ack"})
				if plan.ReflectTwice {
					w.c.Net.Inject(id, simnet.Outgoing{Dst: m.Source, Type: m.MsgType, Topic: m.Topic, Data: m.Data, Tag: "reflected-ack-again"})
				}
			}
			if !plan.Mute {
				real.HandleMessage(m)
			}
		}))
	}
	for _, o := range cfg.Outsiders {
		o := o
		tapped := w.c.Schemes[o.Tap]
		prev := simnet.Handler(tapped)
		w.c.Net.Attach(o.Tap, simnet.HandlerFunc(func(m *tss.IncMessage) {
			if m.MsgType == uint8(tss.MsgTypeMPC) && m.Source != o.ID && (!o.PayloadsOnly || w.isPayload(m.Data)) { // never replay one's own replays
				for _, v := range o.Victims {
					w.c.Net.Inject(o.ID, simnet.Outgoing{Dst: v, Type: m.MsgType, Topic: m.Topic, Data: m.Data, Tag: "outsider-replay"})
				}
			}
			prev.HandleMessage(m)
		}))
	}
	ctx, cancel := context.WithCancel(context.Background())
	w.cancel = cancel
	n := len(cfg.Callers)
	for _, u := range cfg.Callers {
		u := u
		s := w.c.Schemes[u]
		if cfg.Sign {
			s.SetStoredData([]byte("share-for-signing"))
		}
		w.wg.Add(1)
		go func() {
			defer w.wg.Done()
			var err error
			if cfg.Sign {
				_, err = s.Sign(ctx, []byte("digest-0123456789abcdef0123456789"), "sign-topic")
			} else {
				kt := n - 1
				if cfg.Threshold > 0 {
					kt = cfg.Threshold
				}
				_, err = s.KeyGen(ctx, n, kt)
			}
			w.rmu.Lock()
			w.results[u] = err
			w.rmu.Unlock()
		}()
	}
	// wait until every backend has transmitted its script and is listening
	deadline := time.Now().Add(10 * time.Second)
	for _, u := range cfg.Callers {
		for {
			b := w.c.LastBackend(u)
			if b != nil {
				select {
				case <-b.Started:
				case <-time.After(time.Until(deadline)):
					w.setupErr = fmt.Sprintf("backend of node %d did not start", u)
				}
				break
			}
			if time.Now().After(deadline) {
				w.setupErr = fmt.Sprintf("no backend was created at node %d", u)
				break
			}
			time.Sleep(50 * time.Microsecond)
		}
	}
	// all KeyGen goroutines must be parked in their backends before the first step
	for _, u := range cfg.Callers {
		b := w.c.LastBackend(u)
		for b != nil && b.State() != backend.StBlocked && time.Now().Before(deadline) {
			time.Sleep(20 * time.Microsecond)
		}
	}
	return w
}

// matchPayload tells whether wire data carries a payload emitted by some backend of this session
// (recognised as a suffix, so no assumption about the framing the orchestrator adds).
func (w *oworld) matchPayload(data []byte) (backend.Payload, bool) {
	for _, b := range w.c.AllBackends() {
		for _, s := range b.SentCopy() {
			if bytes.HasSuffix(data, s.Payload) {
				p, err := backend.Decode(s.Payload)
				return p, err == nil
			}
		}
	}
	return backend.Payload{}, false
}

// vouchesFor: no filter, or the acknowledgement contains the digest of the version the plan wants vouched at that node.
func (w *oworld) vouchesFor(plan *byzPlan, node uint16, ack []byte) bool {
	v, filtered := plan.ReflectOnlyVersion[node]
	if plan.ReflectOnlyVersion == nil {
		return true
	}
	if !filtered {
		return false
	}
	w.rmu.Lock()
	data := w.vdata[v]
	w.rmu.Unlock()
	if data == nil {
		return false
	}
	d1, d2 := sha256.Sum256(data), sha256.Sum256(data[1:])
	return bytes.Contains(ack, d1[:]) || bytes.Contains(ack, d2[:])
}

func (w *oworld) isPayload(data []byte) bool { _, ok := w.matchPayload(data); return ok }

func (w *oworld) payloadVersion(data []byte) (backend.Payload, bool) { return w.matchPayload(data) }

func (w *oworld) byzInterceptor(id uint16, plan *byzPlan) simnet.Interceptor {
	held := map[uint16][]simnet.Outgoing{}
	return func(n *simnet.Net, src uint16, typ uint8, topic, data []byte, dsts []uint16) []simnet.Outgoing {
		var outs []simnet.Outgoing
		if typ != uint8(tss.MsgTypeMPC) {
			for _, d := range dsts {
				outs = append(outs, simnet.Outgoing{Dst: d, Type: typ, Topic: topic, Data: data})
			}
			return outs
		}
		p, isPayload := w.payloadVersion(data)
		if !isPayload {
			if plan.DropOwnAcks {
				return nil
			}
			for _, d := range dsts {
				outs = append(outs, simnet.Outgoing{Dst: d, Type: typ, Topic: topic, Data: data})
			}
			return outs
		}
		if p.Kind == 'B' {
			w.rmu.Lock()
			if w.vdata == nil {
				w.vdata = map[uint8][]byte{}
			}
			w.vdata[p.Version] = append([]byte{}, data...)
			w.rmu.Unlock()
		}
		if ca, ok := plan.CopyAs[p.Version]; ok && p.Kind == 'B' {
			for _, d := range ca.To {
				n.Inject(ca.As, simnet.Outgoing{Dst: d, Type: typ, Topic: topic, Data: data, Tag: fmt.Sprintf("v%d-as-%d", p.Version, ca.As)})
			}
		}
		for _, d := range dsts {
			if plan.WithholdPayloadFrom[d] {
				continue
			}
			if p.Kind == 'B' && plan.RouteVersion != nil {
				ok := false
				for _, x := range plan.RouteVersion[p.Version] {
					if x == d {
						ok = true
					}
				}
				if !ok {
					continue
				}
			}
			if p.Kind == 'B' && plan.ReverseVersionsFor[d] {
				if p.Version == 1 {
					held[d] = append(held[d], simnet.Outgoing{Dst: d, Type: typ, Topic: topic, Data: data, Tag: "v1-held"})
					continue
				}
				outs = append(outs, simnet.Outgoing{Dst: d, Type: typ, Topic: topic, Data: data, Tag: fmt.Sprintf("v%d-first", p.Version)})
				outs = append(outs, held[d]...)
				held[d] = nil
				continue
			}
			outs = append(outs, simnet.Outgoing{Dst: d, Type: typ, Topic: topic, Data: data, Tag: fmt.Sprintf("v%d", p.Version)})
			for k := 0; k < plan.ResendPayloads; k++ {
				outs = append(outs, simnet.Outgoing{Dst: d, Type: typ, Topic: topic, Data: data, Tag: "resend"})
			}
		}
		return outs
	}
}

func (w *oworld) Enabled() []simnet.Link { return w.c.Net.Enabled() }

func (w *oworld) Step(l simnet.Link) {
	func() {
		defer func() {
			if x := recover(); x != nil {
				p := w.c.Net.Head(l)
				_ = p
				w.panics = append(w.panics, fmt.Sprintf("HandleMessage at node %d of a message from %d panicked: %v", l.Dst, l.Src, x))
			}
		}()
		w.c.Net.Step(l)
	}()
}

func (w *oworld) Close() {
	w.cancel()
	w.wg.Wait()
	w.c.Net.Stop()
}

// ---- oracles over the event log ----

type onmsg struct {
	Node    uint16
	From    uint16 // party id as handed to the backend
	Bcast   bool
	Payload []byte
	Seq     uint64
}

func (w *oworld) onmsgs() []onmsg {
	var out []onmsg
	for _, e := range w.c.Net.Log() {
		if e.Kind == simnet.EvOnMsg {
			out = append(out, onmsg{Node: e.Node, From: e.Peer, Bcast: e.Bcast, Payload: e.Data, Seq: e.Seq})
		}
	}
	return out
}

func (w *oworld) nodeOfParty(pid uint16) (uint16, bool) {
	for _, u := range w.cfg.Callers {
		if w.cfg.Map[u] == pid {
			return u, true
		}
	}
	return 0, false
}

func (w *oworld) checkAgreement() (string, string) {
	if len(w.panics) > 0 {
		return "agreement/panic", w.panics[0]
	}
	type k struct {
		from  uint16
		round uint8
	}
	seen := map[k][]byte{}
	at := map[k]uint16{}
	for _, m := range w.onmsgs() {
		if !m.Bcast || !w.honest[m.Node] {
			continue
		}
		p, err := backend.Decode(m.Payload)
		if err != nil {
			continue
		}
		key := k{m.From, p.Round}
		if prev, ok := seen[key]; ok && !bytes.Equal(prev, m.Payload) {
			return "agreement", fmt.Sprintf("node %d accepted version %d and node %d accepted version %d of the round-%d broadcast attributed to party %d", at[key], prev[10], m.Node, m.Payload[10], p.Round, m.From)
		}
		seen[key] = m.Payload
		at[key] = m.Node
	}
	return "", ""
}

func (w *oworld) checkIntegrity() (string, string) {
	if len(w.panics) > 0 {
		return "integrity/panic", w.panics[0]
	}
	log := w.c.Net.Log()
	count := map[string]int{}
	for _, m := range w.onmsgs() {
		if !w.honest[m.Node] {
			continue
		}
		if len(m.Payload) == 0 {
			return "integrity/empty-handover", fmt.Sprintf("node %d was handed an empty message attributed to party %d", m.Node, m.From)
		}
		src, ok := w.nodeOfParty(m.From)
		if !ok {
			return "integrity/non-participant", fmt.Sprintf("node %d was handed a message attributed to party %d, which no session participant represents", m.Node, m.From)
		}
		// the attributed node must have transmitted exactly this payload directly to this node, earlier
		auth := false
		for _, e := range log {
			if e.Seq > m.Seq {
				break
			}
			if e.Kind == simnet.EvDeliver && e.Node == m.Node && e.Peer == src && bytes.HasSuffix(e.Data, m.Payload) && len(e.Data)-len(m.Payload) <= 4 {
				auth = true
				break
			}
		}
		if !auth {
			return "integrity/not-authentic", fmt.Sprintf("node %d was handed a payload attributed to party %d (node %d) that this node never transmitted to it", m.Node, m.From, src)
		}
		p, err := backend.Decode(m.Payload)
		if err != nil {
			return "integrity/garbled", fmt.Sprintf("node %d was handed an undecodable payload", m.Node)
		}
		if p.Sender != m.From {
			return "integrity/misattributed", fmt.Sprintf("node %d was handed a payload written by party %d attributed to party %d", m.Node, p.Sender, m.From)
		}
		if (p.Kind == 'B') != m.Bcast {
			return "integrity/class", fmt.Sprintf("node %d: payload of kind %c handed over with broadcast=%v", m.Node, p.Kind, m.Bcast)
		}
		if m.Bcast {
			k := fmt.Sprintf("%d/%d/%d", m.Node, m.From, p.Round)
			count[k]++
			if count[k] > 1 {
				return "integrity/handed-over-twice", fmt.Sprintf("node %d was handed the round-%d broadcast of party %d %d times", m.Node, p.Round, m.From, count[k])
			}
		} else {
			// p2p: never more often than received
			k := fmt.Sprintf("P/%d/%x", m.Node, m.Payload[:15])
			count[k]++
			recv := 0
			for _, e := range log {
				if e.Kind == simnet.EvDeliver && e.Node == m.Node && e.Peer == src && bytes.HasSuffix(e.Data, m.Payload) {
					recv++
				}
			}
			if count[k] > recv {
				return "integrity/p2p-count", fmt.Sprintf("node %d was handed a point-to-point message %d times but received it %d times", m.Node, count[k], recv)
			}
		}
	}
	return "", ""
}

// checkTotality: all-honest run at quiescence: every transmitting party's script arrived exactly once everywhere.
func (w *oworld) checkTotality() (string, string) {
	if len(w.panics) > 0 {
		return "totality/panic", w.panics[0]
	}
	if w.setupErr != "" {
		return "totality/setup", w.setupErr
	}
	got := map[string]int{}
	for _, m := range w.onmsgs() {
		p, err := backend.Decode(m.Payload)
		if err != nil {
			return "totality/garbled", "undecodable payload handed over"
		}
		got[fmt.Sprintf("%d/%c/%d/%d", m.Node, p.Kind, p.Round, m.From)]++
	}
	var callers []uint16
	callers = append(callers, w.cfg.Callers...)
	sort.Slice(callers, func(i, j int) bool { return callers[i] < callers[j] })
	for _, x := range callers {
		for _, s := range callers {
			if s == x {
				continue
			}
			sp := w.cfg.Map[s]
			if w.cfg.Script.Transmit != nil && !w.cfg.Script.Transmit[sp] {
				continue
			}
			for _, r := range w.cfg.Script.Rounds {
				if w.cfg.Script.Bcast {
					if c := got[fmt.Sprintf("%d/B/%d/%d", x, r, sp)]; c != 1 {
						return "totality/broadcast", fmt.Sprintf("round-%d broadcast of party %d was handed over %d times at node %d", r, sp, c, x)
					}
				}
				if w.cfg.Script.P2P {
					if c := got[fmt.Sprintf("%d/P/%d/%d", x, r, sp)]; c != 1 {
						return "totality/p2p", fmt.Sprintf("round-%d point-to-point message of party %d was handed over %d times at node %d", r, sp, c, x)
					}
				}
			}
		}
	}
	return "", ""
}

func (w *oworld) byzDeliveries() int {
	n := 0
	for _, e := range w.c.Net.Log() {
		if e.Kind == simnet.EvDeliver && w.honest[e.Node] && !w.honest[e.Peer] && e.Type == uint8(tss.MsgTypeMPC) {
			n++
		}
	}
	return n
}

func (w *oworld) handovers() int { return len(w.onmsgs()) }

func (w *oworld) witness(path []simnet.Link) map[string]interface{} {
	return map[string]interface{}{"config": w.cfg.Name, "path": pathStrings(path), "log_tail": simnet.LogTail(w.c.Net.Log(), 60)}
}

func pathStrings(path []simnet.Link) []string {
	var s []string
	for _, l := range path {
		s = append(s, l.String())
	}
	return s
}
