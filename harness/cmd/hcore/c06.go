package main

// C06 — node-id / party-id translation. Scripted sessions over PRNG membership maps (injective
// non-identity, several nodes per party); the oracle compares INIT / ONMSG / SEND events with the
// harness's own translation of the agreed participant list.

import (
	"fmt"
	"math/rand"
	"sort"
	"strings"
	"sync"
	"time"

	tss "github.com/IBM/TSS/types"

	"verifharness/backend"
	"verifharness/cluster"
	"verifharness/common"
	"verifharness/simnet"
)

type c06case struct {
	Name    string
	Map     map[uint16]uint16
	Callers []uint16
	Mode    string // loud | barrier | silent
	Dup     bool   // two callers represent the same party: must be refused everywhere
}

func genC06(rng *rand.Rand, idx int, wide bool) c06case {
	k := 2 + rng.Intn(4) // session size 2..5
	lim := 250
	if wide {
		lim = 65535
	}
	zeroFirst := false
	pick := func(used map[uint16]bool, boundary bool) uint16 {
		if zeroFirst && !used[0] {
			zeroFirst = false
			used[0] = true
			return 0
		}
		for {
			var v uint16
			if wide && rng.Intn(3) == 0 {
				b := []uint16{0, 1, 255, 256, 257, 511, 512, 32767, 32768, 65279, 65280, 65534, 65535}
				v = b[rng.Intn(len(b))]
			} else {
				v = uint16(rng.Intn(lim + 1))
			}
			if !used[v] {
				used[v] = true
				return v
			}
		}
	}
	c := c06case{Map: map[uint16]uint16{}}
	usedN, usedP := map[uint16]bool{}, map[uint16]bool{}
	var parties []uint16
	// identifier 0 is a legal node and party identifier: make sure it takes part regularly
	forceNode0 := idx%10 == 3 || idx%10 == 8
	if idx%10 == 6 {
		parties = append(parties, 0)
		usedP[0] = true
	}
	for len(parties) < k {
		parties = append(parties, pick(usedP, true))
	}
	kind := idx % 6
	if forceNode0 && kind == 0 {
		kind = 1
	}
	zeroFirst = forceNode0
	var nodes []uint16
	switch kind {
	case 0: // shifted
		shift := uint16(1 + rng.Intn(40))
		for _, p := range parties {
			n := p + shift
			for usedN[n] {
				n++
			}
			usedN[n] = true
			c.Map[n] = p
			nodes = append(nodes, n)
		}
		c.Name = "shifted"
	case 1, 2: // random injective (permuted / disjoint)
		for _, p := range parties {
			n := pick(usedN, true)
			c.Map[n] = p
			nodes = append(nodes, n)
		}
		c.Name = "injective"
	default: // replicas: 1..3 nodes per party, one of them takes part
		for _, p := range parties {
			reps := 1 + rng.Intn(3)
			var mine []uint16
			for r := 0; r < reps; r++ {
				n := pick(usedN, true)
				c.Map[n] = p
				mine = append(mine, n)
			}
			nodes = append(nodes, mine[rng.Intn(len(mine))])
		}
		c.Name = "replicas"
		if kind == 5 && k >= 2 {
			// duplicate: a second replica of one party takes part instead of another party's node. The duplicated party is, in
			// turn, the one with the lowest, a middle and the highest party id among the participants (idx/6 cycles through them).
			order := append([]uint16{}, parties...)
			sort.Slice(order, func(i, j int) bool { return order[i] < order[j] })
			dupParty := order[[]int{0, len(order) / 2, len(order) - 1}[(idx/6)%3]]
			dupIdx := 0
			for i, p := range parties {
				if p == dupParty {
					dupIdx = i
				}
			}
			var victim uint16
			found := false
			for n, p := range c.Map {
				if p == dupParty && n != nodes[dupIdx] {
					victim, found = n, true
					break
				}
			}
			if !found {
				victim = pick(usedN, true)
				c.Map[victim] = dupParty
			}
			// the node replaced is one of another party (if any), so that the duplicated party keeps both of its nodes
			repl := (dupIdx + 1) % len(nodes)
			nodes[repl] = victim
			c.Dup = true
			c.Name = "duplicate-party"
		}
	}
	// some extra members that do not take part
	for x := 0; x < rng.Intn(3); x++ {
		c.Map[pick(usedN, true)] = pick(usedP, true)
	}
	c.Callers = nodes
	sort.Slice(c.Callers, func(i, j int) bool { return c.Callers[i] < c.Callers[j] })
	c.Mode = []string{"loud", "barrier", "silent"}[rng.Intn(3)]
	return c
}

func mapString(m map[uint16]uint16) string {
	var ks []int
	for k := range m {
		ks = append(ks, int(k))
	}
	sort.Ints(ks)
	var sb strings.Builder
	for _, k := range ks {
		fmt.Fprintf(&sb, "%d>%d ", k, m[uint16(k)])
	}
	return strings.TrimSpace(sb.String())
}

// c06oracle checks one finished session.
func c06oracle(c *rcluster, cs c06case, sc sessCfg, res sessResult) (string, string) {
	ev := c.eventsSince(res.FromSeq)
	var wantParties []uint16
	rep := map[uint16]uint16{} // party -> node representing it in this session
	for _, u := range cs.Callers {
		wantParties = append(wantParties, cs.Map[u])
		rep[cs.Map[u]] = u
	}
	sort.Slice(wantParties, func(i, j int) bool { return wantParties[i] < wantParties[j] })
	if cs.Dup {
		for _, u := range cs.Callers {
			if res.Errs[u] == nil {
				return "duplicate-party-admitted", fmt.Sprintf("node %d completed a session in which two selected nodes represent the same party", u)
			}
		}
		return "", ""
	}
	inits := 0
	for _, e := range ev {
		switch e.Kind {
		case simnet.EvInit:
			inits++
			if fmt.Sprint(e.Parties) != fmt.Sprint(wantParties) {
				return "init-parties", fmt.Sprintf("backend of node %d was initialised with %v, the sorted party identifiers of the participants are %v", e.Node, e.Parties, wantParties)
			}
		case simnet.EvOnMsg:
			p, err := backend.Decode(e.Data)
			if err != nil {
				return "garbled", "undecodable payload handed over"
			}
			if e.Peer != p.Sender {
				return "attribution", fmt.Sprintf("node %d was handed a message written by party %d attributed to %d", e.Node, p.Sender, e.Peer)
			}
			// the delivering link's source node must map to that party
			ok := false
			for _, d := range ev {
				if d.Kind == simnet.EvDeliver && d.Node == e.Node && d.Seq < e.Seq && hasSuffixPayload(d.Data, e.Data) && cs.Map[d.Peer] == e.Peer {
					ok = true
					break
				}
			}
			if !ok {
				return "attribution", fmt.Sprintf("node %d: message attributed to party %d did not arrive from a node of that party", e.Node, e.Peer)
			}
		}
	}
	if inits < len(cs.Callers) {
		return "init-missing", fmt.Sprintf("only %d of %d backends were initialised", inits, len(cs.Callers))
	}
	// every point-to-point message a backend emitted: exactly one transmission, to the representative of the addressee
	for _, u := range cs.Callers {
		b := c.LastBackend(u)
		if b == nil {
			continue
		}
		for _, s := range b.Sent {
			if s.Bcast {
				continue
			}
			var dsts [][]uint16
			for _, e := range ev {
				if e.Kind == simnet.EvSend && e.Node == u && hasSuffixPayload(e.Data, s.Payload) {
					dsts = append(dsts, e.Dsts)
				}
			}
			if _, represented := rep[s.To]; !represented {
				// nobody represents the addressed party in this session: the message goes nowhere
				if len(dsts) != 0 {
					return "p2p-destination/party-without-a-node-in-the-session", fmt.Sprintf("node %d's protocol instance addressed a point-to-point message to party %d, which no participant of the session represents; it was transmitted to %v", u, s.To, dsts)
				}
				continue
			}
			want := rep[s.To]
			if len(dsts) != 1 || len(dsts[0]) != 1 || dsts[0][0] != want {
				return "p2p-destination", fmt.Sprintf("node %d's point-to-point message for party %d was transmitted to %v; it must go to exactly node %d", u, s.To, dsts, want)
			}
		}
	}
	if u, err := allNil(res, cs.Callers); err != nil {
		return "session-failed", fmt.Sprintf("honest session failed at node %d: %v", u, err)
	}
	if sig, what := sessionTotality(c, sc, res); sig != "" {
		return sig, what
	}
	return "", ""
}

func unitC06(e common.Env, p *common.Part) {
	p.Rule = "scripted key-generation + signing sessions over PRNG membership maps (shifted, random injective, 1..3 replicas per party with a PRNG choice of the participating replica, duplicate party; in every third case the party assignment of the same nodes is replaced between sessions on the same scheme objects), loud (real disc.Member), barrier and silent mode, session sizes 2..5, random delivery policies; in every fifth case the Membership function hands out its own table, which is updated in place (two participants' party identifiers swapped) while the session runs; in every second case the membership has a further member that takes part in nothing and the protocol instances also address point-to-point messages to every party no participant represents and to a party the membership does not know (nothing may be transmitted for those); distinct key = (map, participants, mode, phase); non-trivial when the map is not the identity on the participants"
	p.Assumptions = append(p.Assumptions, "exactly the expected number of members invoke each call; quick tier: ids <= 250 (large ids are C13's subject), thorough: full 16-bit range incl. byte boundaries")
	n := e.Pick(140, 12000)
	for i := 0; i < n; i++ {
		if !e.Mine(i) || p.ViolationCount() >= 3 {
			continue
		}
		rng := e.Rng("c06", i)
		cs := genC06(rng, i, e.Thorough() && i%2 == 1)
		key := fmt.Sprintf("%s|%s|%v|%s", cs.Name, mapString(cs.Map), cs.Callers, cs.Mode)
		p.Begin(key)
		polName, pol := policyByIndex(i, rng, cs.Callers)
		strays := !cs.Dup && i%2 == 0
		if strays {
			// a configured member that takes part in nothing, whose party has no node in any session of this case
			usedN, usedP := map[uint16]bool{}, map[uint16]bool{}
			for u, pid := range cs.Map {
				usedN[u], usedP[pid] = true, true
			}
			nx, px := uint16(1), uint16(1)
			for usedN[nx] {
				nx++
			}
			for usedP[px] {
				px++
			}
			cs.Map[nx] = px
		}
		// every fifth case: the application's Membership function hands out its own table, and the table is updated IN PLACE while a
		// session is running (the party identifiers of two participating nodes are swapped once the first protocol instance is being
		// initialised, i.e. after every node has read the membership for this call, and swapped back when the calls have returned)
		liveSwap := !cs.Dup && i%5 == 0 && len(cs.Callers) >= 2 && cs.Mode != "silent" // (silent mode has no first synchronisation: a node may still be reading the membership when another one initialises its instance)
		c := newRCluster(cluster.Config{Map: cs.Map, Silent: cs.Mode == "silent", Barrier: cs.Mode == "barrier", Threshold: len(cs.Callers) - 1, LiveTable: liveSwap}, rng, pol)
		script := backend.Script{Rounds: []uint8{1, 2}, Bcast: true, P2P: true, Filler: func(r uint8, d uint16) int { return int(r) * int(d%7) }}
		nonIdentity := false
		for _, u := range cs.Callers {
			if cs.Map[u] != u {
				nonIdentity = true
			}
		}
		timeout := 6 * time.Second
		if cs.Dup {
			timeout = 1500 * time.Millisecond
		}
		type phaseT struct {
			sign   bool
			remap  bool
			suffix string
		}
		phases := []phaseT{{false, false, ""}, {true, false, ""}}
		if !cs.Dup && i%3 == 0 && cs.Mode != "silent" { // (a second key generation in silent mode re-uses the constant DKG topic: known finding of C12)
			// the membership function is consulted at every call: the same nodes get another party assignment (party ids
			// rotated among the parties and shifted), then both phases run again on the same scheme objects
			phases = append(phases, phaseT{false, true, "-remapped"}, phaseT{true, false, "-remapped"})
		}
		for _, ph := range phases {
			sign := ph.sign
			if ph.remap {
				var ps []uint16
				seen := map[uint16]bool{}
				for _, pid := range cs.Map {
					if !seen[pid] {
						seen[pid] = true
						ps = append(ps, pid)
					}
				}
				sort.Slice(ps, func(a, b int) bool { return ps[a] < ps[b] })
				rot := map[uint16]uint16{}
				for k, pid := range ps {
					rot[pid] = ps[(k+1)%len(ps)]
				}
				nm := map[uint16]uint16{}
				for u, pid := range cs.Map {
					nm[u] = rot[pid]
				}
				if len(ps) == 1 {
					nm = map[uint16]uint16{}
					for u, pid := range cs.Map {
						nm[u] = pid + 1
					}
				}
				cs.Map = nm
				c.SetMap(nm)
				nonIdentity = true
				p.Count("remapped_clusters", 1)
			}
			script.StrayTo = nil
			if strays {
				// the protocol instances also address, point-to-point, every party of the membership that no participant represents
				// and one party the membership does not know: nothing may be transmitted for those
				repd, known := map[uint16]bool{}, map[uint16]bool{}
				for _, u := range cs.Callers {
					repd[cs.Map[u]] = true
				}
				for _, pid := range cs.Map {
					known[pid] = true
					if !repd[pid] {
						dup := false
						for _, x := range script.StrayTo {
							dup = dup || x == pid
						}
						if !dup {
							script.StrayTo = append(script.StrayTo, pid)
						}
					}
				}
				sort.Slice(script.StrayTo, func(a, b int) bool { return script.StrayTo[a] < script.StrayTo[b] })
				un := uint16(251)
				for known[un] {
					un++
				}
				script.StrayTo = append(script.StrayTo, un)
				p.Count("sessions_with_messages_for_unrepresented_parties", 1)
			}
			sc := sessCfg{Callers: cs.Callers, Sign: sign, Topic: fmt.Sprintf("c06-topic-%d%s", i, ph.suffix), Digest: []byte("digest-of-a-message-to-be-signed!"), Script: script, Timeout: timeout}
			if sign {
				for _, u := range cs.Callers {
					c.Schemes[u].SetStoredData([]byte("share-of-x"))
				}
			}
			var swapOnce sync.Once
			swapped := false
			swap := func() {
				c.MutateLive(func(m map[tss.UniversalID]tss.PartyID) {
					a, b := tss.UniversalID(cs.Callers[0]), tss.UniversalID(cs.Callers[1])
					m[a], m[b] = m[b], m[a]
				})
			}
			if liveSwap {
				sc.Script.InitHook = func(uint16) {
					swapOnce.Do(func() { swap(); swapped = true })
				}
			}
			res := c.run(sc)
			if liveSwap {
				c.drain(20 * time.Millisecond)
				swapOnce.Do(func() {})
				if swapped {
					swap() // back
					p.Count("sessions_with_the_membership_table_updated_in_place", 1)
				}
			}
			phase := "dkg"
			if sign {
				phase = "sign"
			}
			phase += ph.suffix
			p.Case(key+"|"+phase, nonIdentity)
			p.Count("sessions", 1)
			p.Count("sessions_"+cs.Mode, 1)
			if cs.Dup {
				p.Count("duplicate_party_sessions", 1)
			}
			sig, what := c06oracle(c, cs, sc, res)
			if sig == "session-failed" && res.Elapsed >= timeout && res.QuietAtFirstReturn >= 2*time.Second && !cs.Dup {
				what += fmt.Sprintf(" (the network had been empty and silent for %v when the deadline fired)", res.QuietAtFirstReturn.Round(100*time.Millisecond))
			} else if sig == "session-failed" && res.Elapsed >= timeout {
				// watchdog: replay once with a 5x deadline before judging
				c.Stop()
				c = newRCluster(cluster.Config{Map: cs.Map, Silent: cs.Mode == "silent", Barrier: cs.Mode == "barrier", Threshold: len(cs.Callers) - 1}, rng, pol)
				sc.Timeout = 5 * timeout
				if sign {
					for _, u := range cs.Callers {
						c.Schemes[u].SetStoredData([]byte("share-of-x"))
					}
				}
				res = c.run(sc)
				sig, what = c06oracle(c, cs, sc, res)
				p.Count("watchdog_replays", 1)
			}
			if len(res.Panics) > 0 {
				sig, what = "panic", res.Panics[0]
			}
			if sig != "" {
				p.Violate(sig+"/"+cs.Name+"/"+phase, fmt.Sprintf("%s map {%s} participants %v mode %s %s (policy %s): %s", cs.Name, mapString(cs.Map), cs.Callers, cs.Mode, phase, polName, what),
					map[string]interface{}{"case": cs, "phase": phase, "policy": polName, "log_tail": simnet.LogTail(c.eventsSince(res.FromSeq), 40)})
				break
			}
			c.drain(200 * time.Millisecond)
		}
		if i%29 == 0 {
			p.Sample(map[string]interface{}{"kind": cs.Name, "map": mapString(cs.Map), "participants": cs.Callers, "mode": cs.Mode, "policy": polName})
		}
		c.Stop()
	}
}
