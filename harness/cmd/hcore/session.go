package main

// Random-mode sessions: real schemes (loud: real disc.Member with 2ms ticker, or barrier; silent: msg.Box +
// SilentSynchronizer), scripted backends that run round by round, one scheduler goroutine delivering one
// message at a time with a seeded policy.

import (
	"bytes"
	"context"
	"fmt"
	"math/rand"
	"runtime"
	"sort"
	"sync"
	"sync/atomic"
	"time"

	tss "github.com/IBM/TSS/types"

	"verifharness/backend"
	"verifharness/cluster"
	"verifharness/simnet"
)

type sessCfg struct {
	Callers []uint16
	Sign    bool
	Topic   string
	Digest  []byte
	Script  backend.Script
	Timeout time.Duration // watchdog (deadline of the calls); hitting it in an honest run is judged by the caller
	Stagger func(node uint16) time.Duration
	N, T    int // KeyGen arguments (default: len(callers), len(callers)-1)
}

type sessResult struct {
	Errs     map[uint16]error
	Outs     map[uint16][]byte
	Session  uint32
	Elapsed  time.Duration
	Panics   []string
	FromSeq  uint64 // event log position at session start
	Returned map[uint16]bool
	// QuietAtFirstReturn: how long the event log (transmissions, deliveries, hand-overs) had not grown and the network had been
	// empty when the first call returned an error. A session that fails by deadline after seconds of complete silence did not fail
	// because the machine was slow.
	QuietAtFirstReturn time.Duration
}

type rcluster struct {
	*cluster.Cluster
	stopOnce sync.Once
}

func newRCluster(cfg cluster.Config, rng *rand.Rand, pol simnet.Policy) *rcluster {
	if cfg.Silent && rng.Intn(2) == 0 {
		cfg.PermutePicks = true // the member picker of silent mode need not list the members in ascending order
	}
	c := &rcluster{Cluster: cluster.New(cfg)}
	go c.Net.RunRandom(rng, pol)
	return c
}

func (c *rcluster) Stop() { c.stopOnce.Do(func() { c.Net.Stop() }) }

func (c *rcluster) logPos() uint64 {
	l := c.Net.Log()
	if len(l) == 0 {
		return 0
	}
	return l[len(l)-1].Seq
}

// run executes one KeyGen or Sign session on the given callers and waits for all calls to return.
func (c *rcluster) run(sc sessCfg) sessResult {
	script := sc.Script
	sess := c.NextSession(&script)
	res := sessResult{Errs: map[uint16]error{}, Outs: map[uint16][]byte{}, Session: sess, FromSeq: c.logPos(), Returned: map[uint16]bool{}}
	topic := sc.Topic
	if !sc.Sign {
		topic = tss.DkgTopicName
	}
	if c.Cfg.Silent {
		callers := append([]uint16{}, sc.Callers...)
		sort.Slice(callers, func(i, j int) bool { return callers[i] < callers[j] })
		c.SetPick(topic, callers)
	}
	timeout := sc.Timeout
	if timeout == 0 {
		timeout = 8 * time.Second
	}
	ctx, cancel := context.WithTimeout(context.Background(), timeout)
	defer cancel()
	n, t := sc.N, sc.T
	if n == 0 {
		n = len(sc.Callers)
	}
	if t == 0 {
		t = n - 1
	}
	var wg sync.WaitGroup
	var mu sync.Mutex
	start := time.Now()
	// silence monitor
	var lastGrowth int64 = time.Now().UnixNano()
	var firstReturn int64
	monStop := make(chan struct{})
	go func() {
		pos := c.logPos()
		for {
			select {
			case <-monStop:
				return
			case <-time.After(25 * time.Millisecond):
			}
			if np := c.logPos(); np != pos || c.Net.Pending() != 0 || c.Net.Busy() {
				pos = np
				atomic.StoreInt64(&lastGrowth, time.Now().UnixNano())
			}
		}
	}()
	defer close(monStop)
	for _, u := range sc.Callers {
		u := u
		s := c.Schemes[u]
		wg.Add(1)
		go func() {
			defer wg.Done()
			defer func() {
				if x := recover(); x != nil {
					mu.Lock()
					res.Panics = append(res.Panics, fmt.Sprintf("call at node %d panicked: %v", u, x))
					mu.Unlock()
				}
			}()
			if sc.Stagger != nil {
				time.Sleep(sc.Stagger(u))
			}
			c.Net.Record(simnet.Event{Kind: simnet.EvCall, Node: u, Text: topic})
			var out []byte
			var err error
			if sc.Sign {
				out, err = s.Sign(ctx, sc.Digest, sc.Topic)
			} else {
				out, err = s.KeyGen(ctx, n, t)
			}
			es := ""
			if err != nil {
				es = err.Error()
			}
			if err != nil && atomic.CompareAndSwapInt64(&firstReturn, 0, time.Now().UnixNano()) {
				q := time.Duration(time.Now().UnixNano() - atomic.LoadInt64(&lastGrowth))
				mu.Lock()
				res.QuietAtFirstReturn = q
				mu.Unlock()
			}
			c.Net.Record(simnet.Event{Kind: simnet.EvReturn, Node: u, Text: topic, Err: es, Data: out})
			mu.Lock()
			res.Errs[u] = err
			res.Outs[u] = out
			res.Returned[u] = true
			mu.Unlock()
		}()
	}
	wg.Wait()
	res.Elapsed = time.Since(start)
	return res
}

// drain waits (bounded) until the network has nothing queued and no delivery in progress.
func (c *rcluster) drain(max time.Duration) bool {
	deadline := time.Now().Add(max)
	quiet := 0
	for time.Now().Before(deadline) {
		if c.Net.Pending() == 0 && !c.Net.Busy() {
			quiet++
			if quiet >= 3 {
				return true
			}
		} else {
			quiet = 0
		}
		time.Sleep(300 * time.Microsecond)
	}
	return false
}

func (c *rcluster) eventsSince(seq uint64) []simnet.Event {
	var out []simnet.Event
	for _, e := range c.Net.Log() {
		if e.Seq > seq {
			out = append(out, e)
		}
	}
	return out
}

// sessionTotality: the session's scripted traffic arrived exactly once at every other participant (C04 oracle on a random-mode run).
func sessionTotality(c *rcluster, sc sessCfg, res sessResult) (string, string) {
	got := map[string]int{}
	for _, e := range c.eventsSince(res.FromSeq) {
		if e.Kind != simnet.EvOnMsg {
			continue
		}
		p, err := backend.Decode(e.Data)
		if err != nil {
			return "garbled", fmt.Sprintf("node %d was handed an undecodable payload", e.Node)
		}
		if p.Session != res.Session {
			return "foreign-session", fmt.Sprintf("node %d was handed a payload of session %d during session %d", e.Node, p.Session, res.Session)
		}
		got[fmt.Sprintf("%d/%c/%d/%d", e.Node, p.Kind, p.Round, e.Peer)]++
	}
	for _, x := range sc.Callers {
		for _, s := range sc.Callers {
			if s == x {
				continue
			}
			sp := c.Cfg.Map[s]
			if sc.Script.Transmit != nil && !sc.Script.Transmit[sp] {
				continue
			}
			for _, r := range sc.Script.Rounds {
				if sc.Script.Bcast {
					if n := got[fmt.Sprintf("%d/B/%d/%d", x, r, sp)]; n != 1 {
						return "totality/broadcast", fmt.Sprintf("round-%d broadcast of party %d (node %d) was handed over %d times at node %d", r, sp, s, n, x)
					}
				}
				if sc.Script.P2P {
					if n := got[fmt.Sprintf("%d/P/%d/%d", x, r, sp)]; n != 1 {
						return "totality/p2p", fmt.Sprintf("round-%d point-to-point message of party %d (node %d) was handed over %d times at node %d", r, sp, s, n, x)
					}
				}
			}
		}
	}
	return "", ""
}

func allNil(res sessResult, callers []uint16) (uint16, error) {
	for _, u := range callers {
		if res.Errs[u] != nil {
			return u, res.Errs[u]
		}
	}
	return 0, nil
}

func policyByIndex(i int, rng *rand.Rand, nodes []uint16) (string, simnet.Policy) {
	switch i % 5 {
	case 0:
		return "uniform", simnet.Uniform
	case 1:
		return "starve-sender", simnet.StarveSender(nodes[rng.Intn(len(nodes))])
	case 2:
		return "prefer-newest", simnet.PreferNewest
	case 3:
		return "burst", simnet.Burst()
	default:
		return "by-receiver", simnet.ByReceiver
	}
}

func hasSuffixPayload(data, payload []byte) bool {
	return bytes.HasSuffix(data, payload) && len(data)-len(payload) <= 4
}

func runtimeGosched() { runtime.Gosched() }
