package main

// C07 — membership synchronisation: agreed lists are valid and identical; honest runs finish.

import (
	"bytes"
	"context"
	"fmt"
	"math/rand"
	"os"
	"sort"
	"sync"
	"sync/atomic"
	"time"

	disc "github.com/IBM/TSS/disc"

	"verifharness/common"
)

func pickIDs(rng *rand.Rand, n int, wide bool) []uint16 {
	used := map[uint16]bool{}
	var ids []uint16
	for len(ids) < n {
		var v uint16
		switch {
		case wide && rng.Intn(3) == 0:
			v = boundaryIDs[rng.Intn(len(boundaryIDs))]
		case wide:
			v = uint16(rng.Intn(65536))
		default:
			v = uint16(rng.Intn(200))
		}
		if !used[v] {
			used[v] = true
			ids = append(ids, v)
		}
	}
	sort.Slice(ids, func(i, j int) bool { return ids[i] < ids[j] })
	return ids
}

func topicFor(label string, i int) []byte {
	return []byte(fmt.Sprintf("%-20s%012d", label, i))
}

func unitC07honest(e common.Env, p *common.Part) {
	defer c07syncTransport(e, p)
	p.Rule = "real disc.Member objects on a disc-level network (per-link FIFO, PRNG delays up to 0.6 ms, 1-2 ms probe ticker): universes of 2..12 members, participant subsets, identifiers from the 16-bit range incl. byte boundaries; exactly-expected callers (all must complete with valid identical lists), fewer than expected (all must return an error without continuation), more than expected (two-outcome + validity + agreement only, followed by a synchronisation of the same members on another topic in exactly the expected number, which must complete everywhere); plus sessions on a SYNCHRONOUS transport (Send and Broadcast call the peer's HandleMessage on the caller's goroutine, as the package's own tests wire it): 4..7 configured members, exactly the expected number or one / two more invoke Synchronize at almost the same time - every call must return by its deadline; distinct key = (universe, participants, expected, seed); non-trivial when >=2 members called"
	n := e.Pick(240, 6000)
	for i := 0; i < n; i++ {
		if !e.Mine(i) || p.ViolationCount() >= 3 {
			continue
		}
		rng := e.Rng("c07h", i)
		usize := 2 + rng.Intn(11)
		if i%50 == 49 {
			usize = 12
		}
		universe := pickIDs(rng, usize, i%2 == 1)
		k := 2 + rng.Intn(usize-1) // callers 2..usize
		perm := rng.Perm(usize)
		var callers []uint16
		for _, j := range perm[:k] {
			callers = append(callers, universe[j])
		}
		sort.Slice(callers, func(a, b int) bool { return callers[a] < callers[b] })
		kind := []string{"exact", "exact", "exact", "fewer", "more"}[i%5]
		expected := k
		switch kind {
		case "fewer":
			expected = k + 1
		case "more":
			if k <= 2 {
				kind = "exact"
			} else {
				expected = k - 1
			}
		}
		key := fmt.Sprintf("%s universe=%v callers=%v expected=%d", kind, universe, callers, expected)
		p.Begin(key)
		run := func(scale int) (string, string, int) {
			net := newDnet(universe, rng)
			defer net.close()
			dl := time.Duration(scale) * 2500 * time.Millisecond
			if kind == "fewer" {
				dl = time.Duration(40+rng.Intn(40)) * time.Millisecond
			}
			if kind == "more" {
				dl = 300 * time.Millisecond
			}
			ctx, cancel := context.WithTimeout(context.Background(), dl)
			defer cancel()
			var wg sync.WaitGroup
			topic := topicFor("c07-honest", i)
			for _, id := range callers {
				in := net.add(id, "honest", true)
				if rng.Intn(3) == 0 {
					time.Sleep(time.Duration(rng.Intn(1500)) * time.Microsecond) // staggered starts
				}
				net.start(ctx, &wg, in, topic, expected, time.Duration(1+rng.Intn(2))*time.Millisecond)
			}
			wg.Wait()
			sig, what := c07judge(net, expected)
			comp := honestCompletions(net)
			if sig == "" && kind == "more" {
				// after a synchronisation that more members joined than were expected (whatever its outcome), the same members - on
				// the same objects and links - synchronise on another topic in exactly the expected number: all must complete
				// (a surplus acknowledgement that nobody waits for any more must not occupy anything)
				time.Sleep(3 * time.Millisecond)
				var again []*dinst
				net.imu.RLock()
				for _, id := range callers {
					for _, in := range net.insts[id] {
						again = append(again, in)
					}
				}
				net.imu.RUnlock()
				for _, in := range again {
					in.mu.Lock()
					in.lists, in.err, in.done = nil, nil, false
					in.mu.Unlock()
				}
				ctx2, cancel2 := context.WithTimeout(context.Background(), time.Duration(scale)*2500*time.Millisecond)
				var wg2 sync.WaitGroup
				topic2 := topicFor("c07-honest-after-surplus", i)
				for _, in := range again {
					net.start(ctx2, &wg2, in, topic2, len(callers), time.Duration(1+rng.Intn(2))*time.Millisecond)
				}
				wg2.Wait()
				cancel2()
				sig, what = c07judge(net, len(callers))
				if c2 := honestCompletions(net); sig == "" && c2 != len(callers) {
					sig, what = "no-completion", fmt.Sprintf("only %d of %d members completed a synchronisation in exactly the expected number that followed one which more members than expected had joined (same objects, same links)", c2, len(callers))
				}
			}
			if sig == "" {
				switch kind {
				case "exact":
					if comp != len(callers) {
						sig, what = "no-completion", fmt.Sprintf("only %d of %d honest members completed although exactly the expected number invoked Synchronize and every message was delivered", comp, len(callers))
					}
				case "fewer":
					if comp != 0 {
						sig, what = "completed-without-quorum", fmt.Sprintf("%d members completed although only %d of the expected %d invoked Synchronize", comp, len(callers), expected)
					}
				}
			}
			return sig, what, comp
		}
		sig, what, comp := run(1)
		if sig == "no-completion" {
			p.Count("watchdog_replays", 1)
			sig, what, comp = run(5)
		}
		p.Case(key, len(callers) >= 2)
		p.Count("sessions", 1)
		p.Count("sessions_"+kind, 1)
		p.Count("completions", int64(comp))
		if sig != "" {
			p.Violate(sig+"/"+kind, key+": "+what, map[string]interface{}{"universe": universe, "callers": callers, "expected": expected, "kind": kind})
		}
		if i%41 == 0 {
			p.Sample(map[string]interface{}{"kind": kind, "universe": universe, "callers": callers, "expected": expected, "completions": comp})
		}
	}
}

// c07syncTransport: the members are wired the way the package's own tests wire them - Send and Broadcast call the peer's
// HandleMessage on the caller's goroutine (a synchronous transport; also what an in-process deployment or a transport that
// serialises deliveries with the caller looks like). Universes of 4..7 configured members; exactly the expected number, or one or two
// more, invoke Synchronize at (almost) the same time; further configured members never call. Every call must return - complete or
// report an error - by its deadline plus a margin, whatever the transport's threading.
func c07syncTransport(e common.Env, p *common.Part) {
	n := e.Pick(120, 3000)
	for i := 0; i < n; i++ {
		if !e.Mine(100000+i) || p.ViolationCount() >= 3 {
			continue
		}
		rng := e.Rng("c07sync", i)
		usize := 4 + rng.Intn(4)
		universe := pickIDs(rng, usize, i%2 == 1)
		expected := 2 + rng.Intn(usize-3)
		surplus := i % 3 // 0, 1 or 2 members more than expected
		k := expected + surplus
		if k > usize {
			k = usize
		}
		callers := append([]uint16{}, universe[:k]...)
		key := fmt.Sprintf("synchronous transport universe=%v callers=%v expected=%d", universe, callers, expected)
		p.Begin(key)
		var mmu sync.RWMutex
		members := map[uint16]*disc.Member{}
		deliver := func(src, dst uint16, b []byte) {
			mmu.RLock()
			m := members[dst]
			mmu.RUnlock()
			if m != nil {
				m.HandleMessage(src, append([]byte{}, b...))
			}
		}
		for _, id := range universe {
			id := id
			m := &disc.Member{Membership: append([]uint16{}, universe...), ID: id, Logger: common.Nolog{}}
			m.Broadcast = func(b []byte) {
				for _, o := range universe {
					if o != id {
						deliver(id, o, b)
					}
				}
			}
			m.Send = func(b []byte, to uint16) { deliver(id, to, b) }
			mmu.Lock()
			members[id] = m
			mmu.Unlock()
		}
		dl := 400 * time.Millisecond
		ctx, cancel := context.WithTimeout(context.Background(), dl)
		type outcome struct {
			id   uint16
			err  error
			list []uint16
		}
		outs := make(chan outcome, len(callers))
		topic := topicFor("c07-sync-transport", i)
		for _, id := range callers {
			id := id
			d := time.Duration(rng.Intn(300)) * time.Microsecond
			go func() {
				time.Sleep(d)
				var got []uint16
				err := members[id].Synchronize(ctx, func(l []uint16) { got = append([]uint16{}, l...) }, topic, expected, time.Duration(1+int(id)%2)*time.Millisecond)
				outs <- outcome{id, err, got}
			}()
		}
		returned := map[uint16]outcome{}
		watchdog := time.After(dl + 6*time.Second)
	collect:
		for len(returned) < len(callers) {
			select {
			case o := <-outs:
				returned[o.id] = o
			case <-watchdog:
				break collect
			}
		}
		cancel()
		p.Case(key, true)
		p.Count("sessions_synchronous_transport", 1)
		if surplus > 0 {
			p.Count("sessions_synchronous_transport_with_surplus", 1)
		}
		if len(returned) < len(callers) {
			var missing []uint16
			for _, id := range callers {
				if _, ok := returned[id]; !ok {
					missing = append(missing, id)
				}
			}
			p.Violate("neither-completed-nor-failed/synchronous-transport", fmt.Sprintf("%s: the Synchronize calls of %v had neither completed nor returned an error 6 s after their deadline", key, missing), map[string]interface{}{"universe": universe, "callers": callers, "expected": expected})
			continue
		}
		comp := 0
		for _, o := range returned {
			if o.err == nil {
				comp++
				if len(o.list) != expected {
					p.Violate("wrong-size/synchronous-transport", fmt.Sprintf("%s: member %d completed with %v", key, o.id, o.list), nil)
				}
			}
		}
		if surplus == 0 && comp != len(callers) {
			p.Count("exact_sessions_not_completed_on_the_synchronous_transport", 1)
		}
		p.Count("completions", int64(comp))
	}
}

// ---- Byzantine plans ----

type byzRun struct {
	net      *dnet
	expected int
	// mustComplete > 0: this many honest members called, exactly as many as expected, and the misbehaving member never enters
	// anybody's view: all of them complete
	mustComplete int
	honest       []*dinst
	wedge        bool
	note         string
}

func unitC07byz(e common.Env, p *common.Part) {
	p.Rule = "Byzantine members are one or more real disc.Member instances under the same identifier with filtered inputs and re-routed outputs, following targeted plans under which honest members can still complete: partition-and-lie (one Byzantine instance per honest group, partition healed at a PRNG instant), shadow coalition (Byzantine instances that hear only each other and a phantom of a silent member), two-faced without partition, outsider and member replaying every captured transmission under their own identity, response flood (several instances of one identifier answer replayed queries with different views after the victim completed), late surplus announcer (one member more than expected joins at a PRNG instant around the moment the views converge) surplus at a decision point (the victim is held at a verif point of Synchronize while the surplus member announces itself) and view rewrite at a decision point (while the victim is held there, a second instance of a session member that only ever heard silent phantoms announces a different view of the same length to it), mirror (a member whose every transmission to X carries, under its real tag, exactly the list X itself announced or queried last) and crafted lists (its lists are replaced by permuted, duplicated, truncated, padded, empty or 30000-entry lists, or the type byte of its otherwise untouched transmissions by 0, 4, 5, 0x7f, 0x80, 0xff) and confusable views (its announcements carry the destination's own latest list with entries replaced by values that a sloppy comparison or encoding could confuse with them: the same decimal digits split elsewhere, identifiers from the UTF-16 surrogate range, the same low byte, the same high byte, byte-swapped; its responses mirror the queried list) and answering for a silent member (a configured member that talks to the Byzantine member only; the Byzantine member re-sends everything it receives from it to the honest members over its own link) and stray acknowledgements (a configured member that never announces itself answers queries, under its own tag, with acknowledgements of another list than the agreed one; exactly the expected honest members call and must all complete) and retry after a failed call (all honest: a member whose call fails after it has acknowledged the others' lists calls Synchronize again on the same topic, on the same object, together with late members); distinct key = (plan, parameters, seed); non-trivial when an honest member completed or a Byzantine transmission was processed by an honest member"
	plans := []string{"partition-and-lie", "shadow-coalition", "two-faced", "replay", "response-flood", "shadow-coalition", "partition-and-lie", "late-surplus-announcer", "surplus-at-decision-point", "surplus-at-decision-point", "view-rewrite-at-decision-point", "view-rewrite-at-decision-point", "mirror", "crafted-lists", "confusable-views", "confusable-views", "answering-for-a-silent-member", "retry-after-failed-call", "stray-acknowledgements", "stray-acknowledgements"}
	n := e.Pick(400, 6000)
	// the index a plan gets is the number of its earlier runs, not the position in this loop: plans pick their variants by residues
	// of that index, and the loop position of a plan is always the same modulo the length of the plan list (with 20 plans the
	// confusable-views plan saw one of its five identifier families only)
	occ := map[string]int{}
	for i := 0; i < n; i++ {
		plan := plans[i%len(plans)]
		k := occ[plan]
		occ[plan]++
		if !e.Mine(i) || p.ViolationCount() >= 3 {
			continue
		}
		rng := e.Rng("c07b", i)
		key := fmt.Sprintf("%s #%d", plan, i)
		p.Begin(key)
		r := runByzPlan(plan, k, rng)
		if os.Getenv("VERIF_DEBUG") == plan {
			fmt.Fprintf(os.Stderr, "DEBUG %s %s\n", key, r.note)
			for id, ins := range r.net.insts {
				for _, in := range ins {
					in.mu.Lock()
					fmt.Fprintf(os.Stderr, "   inst %d %s lists=%v err=%v done=%v\n", id, in.tag, in.lists, in.err, in.done)
					in.mu.Unlock()
				}
			}
		}
		var sig, what string
		if e.Property == "C10" {
			if r.wedge {
				sig, what = "wedged/disc.HandleMessage", "a HandleMessage call of an honest member did not return within 1.5 s after traffic of a misbehaving member ("+r.note+")"
			}
		} else {
			sig, what = c07judge(r.net, r.expected)
			if sig == "did-not-return" && r.wedge {
				sig = "" // the wedge itself is C10's subject
			}
		}
		comp := honestCompletions(r.net)
		if sig == "" && r.mustComplete > 0 && comp < r.mustComplete {
			sig, what = "no-completion", fmt.Sprintf("only %d of the %d honest members completed although exactly the expected number of members invoked Synchronize, all their messages were delivered, and the misbehaving member never announced itself", comp, r.mustComplete)
		}
		p.Case(key, true)
		p.Count("byz_sessions", 1)
		p.Count("honest_completions_under_attack", int64(comp))
		p.Count("deliveries", r.net.delivered)
		if sig != "" {
			p.Violate(sig+"/"+plan, key+" ("+r.note+"): "+what, map[string]interface{}{"plan": plan, "index": i, "note": r.note})
		}
		if i%23 == 0 {
			p.Sample(map[string]interface{}{"plan": plan, "note": r.note, "honest_completions": comp})
		}
		r.net.close()
	}
}

func runByzPlan(plan string, idx int, rng *rand.Rand) byzRun {
	var wg sync.WaitGroup
	interval := 2 * time.Millisecond
	topic := topicFor("c07-"+plan, idx)
	switch plan {
	case "partition-and-lie":
		// universe h1..h4 + b, expected 3; groups {h1,h2} and {h3,h4}; one Byzantine instance per group
		ids := pickIDs(rng, 5, idx%2 == 1)
		b := ids[rng.Intn(5)]
		var hs []uint16
		for _, x := range ids {
			if x != b {
				hs = append(hs, x)
			}
		}
		group := map[uint16]int{hs[0]: 1, hs[1]: 1, hs[2]: 2, hs[3]: 2}
		net := newDnet(ids, rng)
		heal := time.Duration(20+rng.Intn(60)) * time.Millisecond
		if idx%4 == 3 {
			heal = time.Duration(rng.Intn(6)) * time.Millisecond
		}
		start := time.Now()
		net.blocked = func(s, d uint16) bool {
			return group[s] != 0 && group[d] != 0 && group[s] != group[d] && time.Since(start) < heal
		}
		ctx, cancel := context.WithTimeout(context.Background(), 250*time.Millisecond)
		defer cancel()
		for _, h := range hs {
			net.start(ctx, &wg, net.add(h, "honest", true), topic, 3, interval)
		}
		for side := 1; side <= 2; side++ {
			side := side
			in := net.add(b, fmt.Sprintf("byz-side%d", side), false)
			in.hears = func(src uint16) bool { return group[src] == side }
			in.speaksTo = func(dst uint16) bool { return group[dst] == side }
			net.start(ctx, &wg, in, topic, 3, interval)
		}
		wg.Wait()
		return byzRun{net: net, expected: 3, note: fmt.Sprintf("ids=%v byz=%d heal=%v", ids, b, heal)}
	case "late-surplus-announcer":
		// expected E members start together; one further configured member (honest or not, it behaves honestly) joins at a
		// PRNG instant around the moment the views converge. Whatever the instant, nobody may complete with more than E members.
		E := 2 + rng.Intn(3)
		ids := pickIDs(rng, E+1, idx%2 == 1)
		rng.Shuffle(len(ids), func(i, j int) { ids[i], ids[j] = ids[j], ids[i] })
		universe := append([]uint16{}, ids...)
		sort.Slice(universe, func(i, j int) bool { return universe[i] < universe[j] })
		net := newDnet(universe, rng)
		net.maxDelay = time.Duration(50+rng.Intn(250)) * time.Microsecond
		ctx, cancel := context.WithTimeout(context.Background(), time.Duration(25+rng.Intn(30))*time.Millisecond)
		defer cancel()
		ivl := time.Duration(300+rng.Intn(900)) * time.Microsecond
		for _, h := range ids[:E] {
			net.start(ctx, &wg, net.add(h, "honest", true), topic, E, ivl)
		}
		late := time.Duration(rng.Intn(2500)) * time.Microsecond
		time.Sleep(late)
		net.start(ctx, &wg, net.add(ids[E], "honest", true), topic, E, ivl)
		wg.Wait()
		return byzRun{net: net, expected: E, note: fmt.Sprintf("expected=%d members=%v surplus=%d joined after %v", E, ids[:E], ids[E], late)}
	case "surplus-at-decision-point":
		// the victim is HELD at a verif point of Synchronize (after its views agreed / after the size check / before the
		// continuation) while one further configured member announces itself to it; then it is released
		E := 2 + rng.Intn(3)
		ids := pickIDs(rng, E+1, idx%2 == 1)
		rng.Shuffle(len(ids), func(i, j int) { ids[i], ids[j] = ids[j], ids[i] })
		universe := append([]uint16{}, ids...)
		sort.Slice(universe, func(i, j int) bool { return universe[i] < universe[j] })
		net := newDnet(universe, rng)
		point := []string{"sync.viewsAgree", "sync.sizeChecked", "sync.beforeContinuation"}[idx%3]
		ctx, cancel := context.WithTimeout(context.Background(), 120*time.Millisecond)
		defer cancel()
		victim := net.add(ids[0], "honest", true)
		h := holdAt(victim, point)
		defer dropHold(victim)
		var seen int32
		surplus := ids[E]
		net.tap = func(src, dst uint16, data []byte) {
			if src == surplus && dst == victim.id {
				atomic.AddInt32(&seen, 1)
			}
		}
		net.start(ctx, &wg, victim, topic, E, interval)
		for _, o := range ids[1:E] {
			net.start(ctx, &wg, net.add(o, "honest", true), topic, E, interval)
		}
		held := false
		select {
		case <-h.arrived:
			held = true
			// the surplus member announces itself now; wait until the victim has processed at least two of its messages
			net.start(ctx, &wg, net.add(surplus, "honest", true), topic, E, interval)
			deadline := time.Now().Add(60 * time.Millisecond)
			for atomic.LoadInt32(&seen) < 2 && time.Now().Before(deadline) {
				time.Sleep(200 * time.Microsecond)
			}
			time.Sleep(300 * time.Microsecond)
		case <-ctx.Done():
		}
		close(h.release)
		wg.Wait()
		return byzRun{net: net, expected: E, note: fmt.Sprintf("expected=%d victim=%d held at %s=%v surplus=%d announcements processed=%d", E, victim.id, point, held, surplus, atomic.LoadInt32(&seen))}
	case "view-rewrite-at-decision-point":
		// session {V, ..., b} of E members; b's main instance behaves honestly towards the session. A second instance of b heard only
		// E-1 phantoms (configured members that are silent towards everybody else), so its view has the same length E but other
		// content. While V is HELD at a verif point of Synchronize, that instance announces its view to V; then V is released.
		E := 2 + rng.Intn(3)
		ids := pickIDs(rng, 2*E-1, idx%2 == 1)
		rng.Shuffle(len(ids), func(i, j int) { ids[i], ids[j] = ids[j], ids[i] })
		session, phantoms := ids[:E], ids[E:]
		V, b := session[0], session[E-1]
		universe := append([]uint16{}, ids...)
		sort.Slice(universe, func(i, j int) bool { return universe[i] < universe[j] })
		inSession, isPhantom := map[uint16]bool{}, map[uint16]bool{}
		for _, x := range session {
			inSession[x] = true
		}
		for _, x := range phantoms {
			isPhantom[x] = true
		}
		net := newDnet(universe, rng)
		point := []string{"sync.sizeChecked", "sync.beforeContinuation", "sync.viewsAgree"}[(idx/2)%3]
		ctx, cancel := context.WithTimeout(context.Background(), 150*time.Millisecond)
		defer cancel()
		victim := net.add(V, "honest", true)
		h := holdAt(victim, point)
		defer dropHold(victim)
		net.start(ctx, &wg, victim, topic, E, interval)
		for _, o := range session[1 : E-1] {
			net.start(ctx, &wg, net.add(o, "honest", true), topic, E, interval)
		}
		main := net.add(b, "byz-main", false)
		main.hears = func(src uint16) bool { return inSession[src] }
		main.speaksTo = func(dst uint16) bool { return inSession[dst] }
		net.start(ctx, &wg, main, topic, E, interval)
		var speak, told int32
		alt := net.add(b, "byz-alt", false)
		alt.hears = func(src uint16) bool { return isPhantom[src] }
		alt.speaksTo = func(dst uint16) bool {
			if dst == V && atomic.LoadInt32(&speak) == 1 {
				atomic.AddInt32(&told, 1)
				return true
			}
			return isPhantom[dst]
		}
		net.start(ctx, &wg, alt, topic, 2*E, interval) // never completes: keeps announcing what it heard
		for _, ph := range phantoms {
			pi := net.add(ph, "phantom", false)
			pi.hears = func(src uint16) bool { return false }
			pi.speaksTo = func(dst uint16) bool { return dst == b }
			net.start(ctx, &wg, pi, topic, 2*E, interval)
		}
		held := false
		select {
		case <-h.arrived:
			held = true
			atomic.StoreInt32(&speak, 1)
			deadline := time.Now().Add(60 * time.Millisecond)
			for atomic.LoadInt32(&told) < 3 && time.Now().Before(deadline) {
				time.Sleep(200 * time.Microsecond)
			}
			time.Sleep(1500 * time.Microsecond)
		case <-ctx.Done():
		}
		close(h.release)
		wg.Wait()
		for _, ph := range phantoms {
			net.sent.Delete(ph) // never transmitted towards an honest member
		}
		return byzRun{net: net, expected: E, note: fmt.Sprintf("expected=%d session=%v victim=%d held at %s=%v rewriting member=%d phantoms=%v announcements to the victim=%d", E, session, V, point, held, b, phantoms, atomic.LoadInt32(&told))}
	case "retry-after-failed-call":
		// everybody honest. A, B, C synchronise (expected 3); C is HELD after its size check while it answers the queries of A and B
		// (they complete with [A B C]); C's context ends, C is released and its call fails. Then C calls Synchronize AGAIN on the same
		// topic on the same object, together with the late members D and E. Whatever C's second call does, nobody may complete with a
		// list that names C and differs from what A and B hold.
		ids := pickIDs(rng, 5, idx%2 == 1)
		rng.Shuffle(len(ids), func(i, j int) { ids[i], ids[j] = ids[j], ids[i] })
		A, B, C, D, E := ids[0], ids[1], ids[2], ids[3], ids[4]
		universe := append([]uint16{}, ids...)
		sort.Slice(universe, func(i, j int) bool { return universe[i] < universe[j] })
		net := newDnet(universe, rng)
		ctxAB, cancelAB := context.WithTimeout(context.Background(), 300*time.Millisecond)
		defer cancelAB()
		ctxC, cancelC := context.WithCancel(context.Background())
		defer cancelC()
		ia, ib, ic := net.add(A, "honest", true), net.add(B, "honest", true), net.add(C, "honest", true)
		if os.Getenv("VERIF_DEBUG") == plan && idx < 40 {
			ic.m.Logger = dbgLog{}
		}
		h := holdAt(ic, "sync.sizeChecked")
		defer dropHold(ic)
		var first sync.WaitGroup
		net.start(ctxAB, &first, ia, topic, 3, interval)
		net.start(ctxAB, &first, ib, topic, 3, interval)
		var cw sync.WaitGroup
		net.start(ctxC, &cw, ic, topic, 3, interval)
		held := false
		select {
		case <-h.arrived:
			held = true
		case <-time.After(200 * time.Millisecond):
		}
		// A and B complete while C is held (C's dispatcher answers their queries)
		doneAB := make(chan struct{})
		go func() { first.Wait(); close(doneAB) }()
		select {
		case <-doneAB:
		case <-time.After(320 * time.Millisecond):
		}
		cancelC()
		close(h.release)
		cw.Wait()
		ic.mu.Lock()
		firstErr := ic.err
		firstLists := len(ic.lists)
		ic.mu.Unlock()
		// the retry, together with the late members
		ctx2, cancel2 := context.WithTimeout(context.Background(), 150*time.Millisecond)
		defer cancel2()
		var second sync.WaitGroup
		if firstErr != nil && firstLists == 0 {
			// PRNG order and spacing of the three calls
			order := rng.Perm(3)
			for _, k := range order {
				switch k {
				case 0:
					net.start(ctx2, &second, ic, topic, 3, interval)
				case 1:
					net.start(ctx2, &second, net.add(D, "honest", true), topic, 3, interval)
				default:
					net.start(ctx2, &second, net.add(E, "honest", true), topic, 3, interval)
				}
				time.Sleep(time.Duration(rng.Intn(4000)) * time.Microsecond)
			}
			second.Wait()
		}
		ic.mu.Lock()
		secondErr := ic.err
		ic.mu.Unlock()
		return byzRun{net: net, expected: 3, note: fmt.Sprintf("A=%d B=%d C=%d late=%d,%d C held=%v C's first call: %v; C's second call: %v", A, B, C, D, E, held, firstErr, secondErr)}
	case "answering-for-a-silent-member":
		// honest callers H, Byzantine b (a real instance that behaves honestly itself), and a configured member ph that takes part but
		// whose transmissions reach b only. b re-sends every message it receives from ph to the honest members over ITS OWN link: the
		// tag in it is ph's, the transport source is b. expected = everybody incl. ph, so the honest members can only complete if
		// they accept b's word for ph.
		nh := 1 + rng.Intn(3)
		ids := pickIDs(rng, nh+2, idx%2 == 1)
		rng.Shuffle(len(ids), func(i, j int) { ids[i], ids[j] = ids[j], ids[i] })
		hs, b, ph := ids[:nh], ids[nh], ids[nh+1]
		universe := append([]uint16{}, ids...)
		sort.Slice(universe, func(i, j int) bool { return universe[i] < universe[j] })
		expected := nh + 2
		net := newDnet(universe, rng)
		var relayed int32
		net.tap = func(src, dst uint16, data []byte) {
			if src == ph && dst == b {
				for _, h := range hs {
					atomic.AddInt32(&relayed, 1)
					go net.inject(b, h, data)
				}
			}
		}
		ctx, cancel := context.WithTimeout(context.Background(), 150*time.Millisecond)
		defer cancel()
		for _, h := range hs {
			net.start(ctx, &wg, net.add(h, "honest", true), topic, expected, interval)
		}
		net.start(ctx, &wg, net.add(b, "byz-relay", false), topic, expected, interval)
		phi := net.add(ph, "silent-member", false)
		phi.speaksTo = func(dst uint16) bool { return dst == b }
		net.start(ctx, &wg, phi, topic, expected, interval)
		wg.Wait()
		net.sent.Delete(ph) // it never transmitted towards an honest member
		return byzRun{net: net, expected: expected, note: fmt.Sprintf("honest=%v byz=%d silent member=%d expected=%d relayed transmissions=%d", hs, b, ph, expected, atomic.LoadInt32(&relayed))}
	case "confusable-views":
		// Victim V, honest others, Byzantine b, silent configured members Z. b's announcements to X carry X's latest list in which
		// entries are replaced by values that could be confused with them; b's responses carry exactly the list X queried.
		// Identifier families are chosen so that confusable silent members exist in the universe.
		family := []string{"digits", "surrogates", "low-byte", "high-byte", "byte-swap"}[(idx/2)%5]
		var V, b uint16
		var hs, zs []uint16
		conf := map[uint16]uint16{} // member -> confusable silent member
		E := 2 + rng.Intn(2)
		switch family {
		case "digits":
			// V = d1, b = d2d3: the list [d1 d2d3] has the digits of [d1d2 d3]
			d1, d2, d3 := uint16(1+rng.Intn(9)), uint16(1+rng.Intn(9)), uint16(1+rng.Intn(9))
			V, b, E = d1, d2*10+d3, 2
			for _, z := range []uint16{d1*10 + d2, d3} {
				if z != V && z != b {
					zs = append(zs, z)
				}
			}
		default:
			base := map[string]func() uint16{
				"surrogates": func() uint16 { return uint16(0xD800 + rng.Intn(0x800)) },
				"low-byte":   func() uint16 { return uint16(rng.Intn(0x7f00)) },
				"high-byte":  func() uint16 { return uint16(rng.Intn(0xff00)) },
				"byte-swap":  func() uint16 { return uint16(0x0100 + rng.Intn(0xfe00)) },
			}[family]
			twin := func(x uint16) uint16 {
				switch family {
				case "surrogates":
					z := uint16(0xD800 + rng.Intn(0x800))
					if rng.Intn(4) == 0 {
						z = 0xFFFD
					}
					return z
				case "low-byte":
					return x + 0x100*uint16(1+rng.Intn(100))
				case "high-byte":
					return x ^ uint16(1+rng.Intn(255))
				default:
					return x<<8 | x>>8
				}
			}
			used := map[uint16]bool{}
			take := func() uint16 {
				for {
					if v := base(); !used[v] {
						used[v] = true
						return v
					}
				}
			}
			V, b = take(), take()
			for len(hs) < E-2 {
				hs = append(hs, take())
			}
			for _, m := range append([]uint16{V}, hs...) {
				if z := twin(m); !used[z] {
					used[z] = true
					conf[m] = z
					zs = append(zs, z)
				}
			}
		}
		universe := append(append([]uint16{V, b}, hs...), zs...)
		sort.Slice(universe, func(i, j int) bool { return universe[i] < universe[j] })
		net := newDnet(universe, rng)
		var lmu sync.Mutex
		last := map[uint16][]uint16{}
		net.tap = func(src, dst uint16, data []byte) {
			if src != b && len(data) >= 33 {
				var l []uint16
				for i := 33; i+1 < len(data); i += 2 {
					l = append(l, uint16(data[i])|uint16(data[i+1])<<8)
				}
				lmu.Lock()
				last[src] = l
				lmu.Unlock()
			}
		}
		var crafted int32
		bi := net.add(b, "byz-confusable", false)
		bi.rewrite = func(dst uint16, data []byte) []byte {
			if len(data) < 33 {
				return data
			}
			lmu.Lock()
			cur := append([]uint16{}, last[dst]...)
			lmu.Unlock()
			if len(cur) == 0 {
				return data
			}
			out := cur
			if data[0] != 3 { // announcements and queries: the confusable variant; responses (type 3): the queried list itself
				if family == "digits" {
					// split the digits of the destination's list elsewhere: [d1 d2d3] -> [d1d2 d3]
					if len(cur) == 2 && cur[0] < 10 && cur[1] >= 10 {
						out = []uint16{cur[0]*10 + cur[1]/10, cur[1] % 10}
					}
				} else {
					out = nil
					for _, x := range cur {
						if z, ok := conf[x]; ok && (x != dst || rng.Intn(2) == 0) {
							out = append(out, z)
						} else {
							out = append(out, x)
						}
					}
					if rng.Intn(2) == 0 {
						sort.Slice(out, func(i, j int) bool { return out[i] < out[j] })
					}
				}
			}
			nb := append([]byte{}, data[:33]...)
			for _, x := range out {
				nb = append(nb, byte(x), byte(x>>8))
			}
			atomic.AddInt32(&crafted, 1)
			return nb
		}
		ctx, cancel := context.WithTimeout(context.Background(), 150*time.Millisecond)
		defer cancel()
		for _, h := range append([]uint16{V}, hs...) {
			net.start(ctx, &wg, net.add(h, "honest", true), topic, E, interval)
		}
		net.start(ctx, &wg, bi, topic, E, interval)
		wg.Wait()
		return byzRun{net: net, expected: E, note: fmt.Sprintf("family=%s victim=%d honest=%v byz=%d silent confusable members=%v expected=%d crafted transmissions=%d", family, V, hs, b, zs, E, atomic.LoadInt32(&crafted))}
	case "mirror", "crafted-lists":
		// wire layout of a disc message: type byte, 32-byte tag, 2-byte little-endian identifiers. The Byzantine member is a real
		// instance (its tags are the real ones); only the list part of its transmissions is replaced. Format self-check: a
		// transmission split and re-assembled without change must be byte-identical.
		nh := 2 + rng.Intn(3)
		E := 2 + rng.Intn(nh) // 2 .. nh+1 (nh+1 = everybody incl. the Byzantine member is needed)
		ids := pickIDs(rng, nh+1, idx%2 == 1)
		rng.Shuffle(len(ids), func(i, j int) { ids[i], ids[j] = ids[j], ids[i] })
		hs, b := ids[:nh], ids[nh]
		universe := append([]uint16{}, ids...)
		sort.Slice(universe, func(i, j int) bool { return universe[i] < universe[j] })
		net := newDnet(universe, rng)
		var lmu sync.Mutex
		last := map[uint16][]byte{} // member -> list bytes of its latest transmission
		net.tap = func(src, dst uint16, data []byte) {
			if src != b && len(data) >= 33 {
				lmu.Lock()
				last[src] = append([]byte{}, data[33:]...)
				lmu.Unlock()
			}
		}
		selfOK := true
		var crafted int32
		bi := net.add(b, "byz-"+plan, false)
		bi.rewrite = func(dst uint16, data []byte) []byte {
			if len(data) < 33 {
				return data
			}
			head, list := data[:33], data[33:]
			if re := append(append([]byte{}, head...), list...); !bytes.Equal(re, data) {
				selfOK = false
				return data
			}
			var nl []byte
			if plan == "mirror" {
				lmu.Lock()
				nl = append([]byte{}, last[dst]...)
				lmu.Unlock()
				if len(nl) == 0 {
					return data
				}
			} else {
				switch net.rint(11) {
				case 8, 9, 10: // the message type byte replaced by a value next to / far from the legal ones (tag and list untouched)
					h2 := append([]byte{}, head...)
					h2[0] = []byte{0, 4, 5, 0x7f, 0x80, 0xff}[net.rint(6)]
					atomic.AddInt32(&crafted, 1)
					return append(h2, list...)
				case 0: // reversed
					for i := len(list) - 2; i >= 0; i -= 2 {
						nl = append(nl, list[i], list[i+1])
					}
				case 1: // first entry duplicated
					nl = append(append([]byte{}, list...), list[:min(2, len(list))]...)
				case 2: // last entry dropped
					nl = append([]byte{}, list[:max(0, len(list)-2)]...)
				case 3: // a non-member appended
					nl = append(append([]byte{}, list...), 0x39, 0x30)
				case 4: // empty
				case 5: // 30000 entries
					nl = make([]byte, 60000)
					for i := range nl {
						nl[i] = byte(i * 7)
					}
				case 6: // the destination's own latest list with the destination removed
					lmu.Lock()
					for i := 0; i+1 < len(last[dst]); i += 2 {
						if uint16(last[dst][i])|uint16(last[dst][i+1])<<8 != dst {
							nl = append(nl, last[dst][i], last[dst][i+1])
						}
					}
					lmu.Unlock()
				default:
					return data
				}
			}
			atomic.AddInt32(&crafted, 1)
			return append(append([]byte{}, head...), nl...)
		}
		ctx, cancel := context.WithTimeout(context.Background(), 150*time.Millisecond)
		defer cancel()
		for _, h := range hs {
			net.start(ctx, &wg, net.add(h, "honest", true), topic, E, interval)
		}
		net.start(ctx, &wg, bi, topic, E, interval)
		wg.Wait()
		r := byzRun{net: net, expected: E, note: fmt.Sprintf("honest=%v byz=%d expected=%d crafted transmissions=%d", hs, b, E, atomic.LoadInt32(&crafted))}
		if !selfOK {
			r.note += " [format self-check failed: transmissions left unchanged]"
		}
		return r
	case "stray-acknowledgements":
		// a configured member that never announces itself (its announcements and queries are dropped at the source) but answers
		// queries - with ITS OWN valid tag - by acknowledgements that carry another list than the one the honest members agree on
		// (the honest list minus its last entry, plus itself, reversed, empty). Exactly the expected honest members call.
		nh := 2 + rng.Intn(3)
		ids := pickIDs(rng, nh+1, idx%2 == 1)
		rng.Shuffle(len(ids), func(i, j int) { ids[i], ids[j] = ids[j], ids[i] })
		hs, b := ids[:nh], ids[nh]
		universe := append([]uint16{}, ids...)
		sort.Slice(universe, func(i, j int) bool { return universe[i] < universe[j] })
		net := newDnet(universe, rng)
		var stray int32
		bi := net.add(b, "byz-"+plan, false)
		variant := idx % 4
		bi.rewrite = func(dst uint16, data []byte) []byte {
			if len(data) < 33 {
				return nil
			}
			if data[0] != 3 { // only acknowledgements (type 3) leave this member
				return nil
			}
			head, list := data[:33], data[33:]
			var nl []byte
			switch variant {
			case 0: // last entry dropped
				nl = append(nl, list[:max(0, len(list)-2)]...)
			case 1: // itself appended
				nl = append(append([]byte{}, list...), byte(b), byte(b>>8))
			case 2: // reversed
				for i := len(list) - 2; i >= 0; i -= 2 {
					nl = append(nl, list[i], list[i+1])
				}
			default: // empty
			}
			atomic.AddInt32(&stray, 1)
			return append(append([]byte{}, head...), nl...)
		}
		ctx, cancel := context.WithTimeout(context.Background(), 1500*time.Millisecond)
		defer cancel()
		net.start(ctx, &wg, bi, topic, nh, interval) // it is registered for the topic first, so that it answers from the start
		time.Sleep(300 * time.Microsecond)
		for _, h := range hs {
			net.start(ctx, &wg, net.add(h, "honest", true), topic, nh, interval)
		}
		wg.Wait()
		r := byzRun{net: net, expected: nh, note: fmt.Sprintf("honest=%v silent-but-answering member=%d stray acknowledgements=%d variant=%d", hs, b, atomic.LoadInt32(&stray), variant)}
		if atomic.LoadInt32(&stray) > 0 {
			r.mustComplete = nh
		}
		return r
	case "shadow-coalition":
		// universe: honest callers H, Byzantine b (and in odd runs a second one), phantom ph: a configured member that is silent
		// towards the honest members but whose instance talks to the coalition. expected = coalition size incl. phantom.
		nh := 1 + rng.Intn(3)
		nb := 1 + idx%2
		ids := pickIDs(rng, nh+nb+1, idx%3 == 1)
		rng.Shuffle(len(ids), func(i, j int) { ids[i], ids[j] = ids[j], ids[i] })
		hs, bs, ph := ids[:nh], ids[nh:nh+nb], ids[nh+nb]
		universe := append([]uint16{}, ids...)
		sort.Slice(universe, func(i, j int) bool { return universe[i] < universe[j] })
		coalition := map[uint16]bool{ph: true}
		for _, b := range bs {
			coalition[b] = true
		}
		expected := nb + 1
		net := newDnet(universe, rng)
		ctx, cancel := context.WithTimeout(context.Background(), 150*time.Millisecond)
		defer cancel()
		for _, h := range hs {
			net.start(ctx, &wg, net.add(h, "honest", true), topic, expected, interval)
		}
		for _, b := range bs {
			in := net.add(b, "byz-shadow", false)
			in.hears = func(src uint16) bool { return coalition[src] } // never shown the honest members' traffic
			in.dupTo = hs                                              // whatever it tells the coalition (its acknowledgements too) also goes to the honest members
			net.start(ctx, &wg, in, topic, expected, interval)
		}
		phi := net.add(ph, "phantom", false)
		phi.hears = func(src uint16) bool { return coalition[src] }
		phi.speaksTo = func(dst uint16) bool { return coalition[dst] }
		net.start(ctx, &wg, phi, topic, expected, interval)
		wg.Wait()
		// the phantom never transmitted towards honest members: it must not count as announced
		net.sent.Delete(ph)
		return byzRun{net: net, expected: expected, note: fmt.Sprintf("honest=%v byz=%v phantom=%d expected=%d", hs, bs, ph, expected)}
	case "two-faced":
		ids := pickIDs(rng, 5, idx%2 == 0)
		b := ids[rng.Intn(5)]
		var hs []uint16
		for _, x := range ids {
			if x != b {
				hs = append(hs, x)
			}
		}
		face := map[uint16]int{hs[0]: 1, hs[1]: 1, hs[2]: 2, hs[3]: 2}
		net := newDnet(ids, rng)
		expected := 3 + rng.Intn(3)
		ctx, cancel := context.WithTimeout(context.Background(), 150*time.Millisecond)
		defer cancel()
		for _, h := range hs {
			net.start(ctx, &wg, net.add(h, "honest", true), topic, expected, interval)
		}
		for side := 1; side <= 2; side++ {
			side := side
			in := net.add(b, fmt.Sprintf("face%d", side), false)
			in.hears = func(src uint16) bool { return face[src] == side || rng.Intn(4) == 0 }
			in.speaksTo = func(dst uint16) bool { return face[dst] == side }
			net.start(ctx, &wg, in, topic, expected, interval)
		}
		wg.Wait()
		return byzRun{net: net, expected: expected, note: fmt.Sprintf("ids=%v byz=%d expected=%d", ids, b, expected)}
	case "replay":
		// an exact-expected honest session while a configured member outside the session and a non-member re-transmit
		// every message they can capture to everybody under their own transport identity
		ids := pickIDs(rng, 5, idx%2 == 1)
		outsider := uint16(60000 + rng.Intn(5000))
		for _, x := range ids {
			if x == outsider {
				outsider++
			}
		}
		member := ids[4]
		callers := ids[:4]
		net := newDnet(ids, rng)
		net.tap = func(src, dst uint16, data []byte) {
			if src == outsider || src == member {
				return
			}
			for _, v := range callers {
				go net.inject(outsider, v, data)
				go net.inject(member, v, data)
			}
		}
		ctx, cancel := context.WithTimeout(context.Background(), 2500*time.Millisecond)
		defer cancel()
		for _, h := range callers {
			net.start(ctx, &wg, net.add(h, "honest", true), topic, 4, interval)
		}
		wg.Wait()
		r := byzRun{net: net, expected: 4, note: fmt.Sprintf("callers=%v replaying member=%d outsider=%d", callers, member, outsider)}
		if honestCompletions(net) != 4 {
			r.note += " [replays prevented completion]"
		}
		return r
	default: // response-flood
		// universe {V, x, y, b}; everybody (b's main instance included) completes a normal session with expected 4; b's
		// extra instances listened to different subsets and are mute. Afterwards they answer V's replayed traffic: V
		// receives responses with four different views from identifier b.
		ids := pickIDs(rng, 4, idx%2 == 1)
		rng.Shuffle(4, func(i, j int) { ids[i], ids[j] = ids[j], ids[i] })
		V, x, y, b := ids[0], ids[1], ids[2], ids[3]
		universe := append([]uint16{}, ids...)
		sort.Slice(universe, func(i, j int) bool { return universe[i] < universe[j] })
		net := newDnet(universe, rng)
		var cmu sync.Mutex
		var captured [][]byte
		net.tap = func(src, dst uint16, data []byte) {
			if src == V && dst == b {
				cmu.Lock()
				captured = append(captured, append([]byte{}, data...))
				cmu.Unlock()
			}
		}
		ctx, cancel := context.WithTimeout(context.Background(), 2500*time.Millisecond)
		defer cancel()
		var hwg sync.WaitGroup
		for _, h := range []uint16{V, x, y} {
			net.start(ctx, &hwg, net.add(h, "honest", true), topic, 4, interval)
		}
		net.start(ctx, &hwg, net.add(b, "byz-main", false), topic, 4, interval)
		bctx, bcancel := context.WithCancel(context.Background())
		defer bcancel()
		var extras []*dinst
		var speak int32
		_ = &speak
		for k, hearing := range [][]uint16{{V}, {V, x}, {V, y}} {
			hearing := hearing
			in := net.add(b, fmt.Sprintf("byz-extra%d", k), false)
			in.hears = func(src uint16) bool {
				for _, h := range hearing {
					if h == src {
						return true
					}
				}
				return false
			}
			in.speaksTo = func(dst uint16) bool { return atomic.LoadInt32(&speak) == 1 && dst == V }
			net.start(bctx, &wg, in, topic, 4, interval)
			extras = append(extras, in)
		}
		hwg.Wait()
		completed := honestCompletions(net)
		// phase 2: the extra instances answer V's replayed traffic (its query among it)
		atomic.StoreInt32(&speak, 1)
		cmu.Lock()
		cap := append([][]byte{}, captured...)
		cmu.Unlock()
		for round := 0; round < 3; round++ {
			for _, in := range extras {
				for _, d := range cap {
					in.m.HandleMessage(V, d)
				}
			}
			time.Sleep(3 * time.Millisecond)
		}
		// honest traffic after the flood must still be processed
		deadline := time.Now().Add(1600 * time.Millisecond)
		wedge := false
		for time.Now().Before(deadline) {
			if net.wedged(1500 * time.Millisecond) {
				wedge = true
				break
			}
			if len(net.link(b, V)) == 0 && !net.wedged(5*time.Millisecond) {
				break
			}
			time.Sleep(2 * time.Millisecond)
		}
		bcancel()
		return byzRun{net: net, expected: 4, wedge: wedge, note: fmt.Sprintf("V=%d b=%d others=%d,%d honest completions before the flood=%d captured=%d", V, b, x, y, completed, len(cap))}
	}
}

type dbgLog struct{}

func (dbgLog) DebugEnabled() bool                { return true }
func (dbgLog) Debugf(f string, a ...interface{}) { fmt.Fprintf(os.Stderr, "   C: "+f+"\n", a...) }
func (dbgLog) Infof(f string, a ...interface{})  { fmt.Fprintf(os.Stderr, "   C: "+f+"\n", a...) }
func (dbgLog) Warnf(f string, a ...interface{})  { fmt.Fprintf(os.Stderr, "   C: "+f+"\n", a...) }
func (dbgLog) Errorf(f string, a ...interface{}) { fmt.Fprintf(os.Stderr, "   C: "+f+"\n", a...) }
