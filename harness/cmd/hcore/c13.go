package main

// C13 — every 16-bit identifier, round and digest survives the wire encodings (core part):
// full scripted DKG+Sign sessions of size 2 and 3 over identifiers drawn along the byte boundaries,
// loud (real disc.Member) and silent mode, rounds 0..127.

import (
	"context"
	"fmt"
	"sort"
	"strings"
	"sync"
	"time"

	"verifharness/backend"
	"verifharness/cluster"
	"verifharness/common"
	"verifharness/simnet"
)

var boundaryIDs = []uint16{0, 1, 2, 127, 128, 254, 255, 256, 257, 511, 512, 513, 32767, 32768, 65279, 65280, 65534, 65535}

func unitC13sess(e common.Env, p *common.Part) {
	p.Rule = "scripted key-generation + signing sessions of size 2 and 3 (3 makes acknowledgements matter) whose node = party identifiers are drawn from the byte-boundary set {0,1,2,127,128,254,255,256,257,511,512,513,32767,32768,65279,65280,65534,65535} (all pairs and triples in the thorough tier, a PRNG subset in quick) plus PRNG identifiers; rounds cycle through 0..127; loud (real disc.Member) and silent mode; oracle = completion + exactly-once totality; distinct key = id tuple + mode; non-trivial when the tuple contains an identifier >= 256"
	var tuples [][]uint16
	b := boundaryIDs
	for i := 0; i < len(b); i++ {
		for j := i + 1; j < len(b); j++ {
			tuples = append(tuples, []uint16{b[i], b[j]})
			for k := j + 1; k < len(b); k++ {
				tuples = append(tuples, []uint16{b[i], b[j], b[k]})
			}
		}
	}
	rng := e.Rng("c13sess")
	if !e.Thorough() {
		rng.Shuffle(len(tuples), func(i, j int) { tuples[i], tuples[j] = tuples[j], tuples[i] })
		tuples = tuples[:70]
	}
	// PRNG identifiers elsewhere in the range, sizes 3..4
	extra := e.Pick(30, 6000)
	for i := 0; i < extra; i++ {
		n := 3 + rng.Intn(2)
		used := map[uint16]bool{}
		var t []uint16
		for len(t) < n {
			v := uint16(rng.Intn(65536))
			if !used[v] {
				used[v] = true
				t = append(t, v)
			}
		}
		tuples = append(tuples, t)
	}
	for i, ids := range tuples {
		if !e.Mine(i) || p.ViolationCount() >= 3 {
			continue
		}
		silent := i%3 == 2
		mode := "loud"
		if silent {
			mode = "silent"
		}
		key := fmt.Sprintf("%v %s", ids, mode)
		p.Begin(key)
		r := e.Rng("c13", i)
		_, pol := policyByIndex(i, r, ids)
		c := newRCluster(cluster.Config{Map: identityMap(ids...), Silent: silent, Threshold: len(ids) - 1}, r, pol)
		rounds := []uint8{uint8(i % 128), uint8((i*7 + 1) % 128)}
		if rounds[0] == rounds[1] {
			rounds[1] = (rounds[1] + 1) % 128
		}
		script := backend.Script{Rounds: rounds, Bcast: true, P2P: true}
		large := false
		for _, v := range ids {
			if v >= 256 {
				large = true
			}
		}
		for _, sign := range []bool{false, true} {
			timeout := 5 * time.Second
			sc := sessCfg{Callers: ids, Sign: sign, Topic: fmt.Sprintf("c13-%d", i), Digest: []byte("0123456789abcdef0123456789abcdef"), Script: script, Timeout: timeout}
			if sign {
				for _, u := range ids {
					c.Schemes[u].SetStoredData([]byte("share-of-x"))
				}
			}
			res := c.run(sc)
			phase := "dkg"
			if sign {
				phase = "sign"
			}
			sig, what := "", ""
			if u, err := allNil(res, ids); err != nil {
				sig, what = "session-failed", fmt.Sprintf("node %d: %v", u, err)
				if res.Elapsed >= timeout && res.QuietAtFirstReturn >= 2*time.Second {
					what += fmt.Sprintf(" (the network had been empty and silent for %v when the deadline fired)", res.QuietAtFirstReturn.Round(100*time.Millisecond))
				} else if res.Elapsed >= timeout {
					// watchdog: replay once in a fresh cluster with a 4x deadline before judging
					c.Stop()
					c = newRCluster(cluster.Config{Map: identityMap(ids...), Silent: silent, Threshold: len(ids) - 1}, r, pol)
					if sign {
						for _, u := range ids {
							c.Schemes[u].SetStoredData([]byte("share-of-x"))
						}
					}
					sc.Timeout = 4 * timeout
					res = c.run(sc)
					p.Count("watchdog_replays", 1)
					if u, err := allNil(res, ids); err != nil {
						sig, what = "session-failed", fmt.Sprintf("node %d: %v (also with a 4x deadline)", u, err)
					} else {
						sig, what = "", ""
					}
				}
			}
			if sig == "" {
				sig, what = sessionTotality(c, sc, res)
			}
			if len(res.Panics) > 0 {
				sig, what = "panic", res.Panics[0]
			}
			p.Case(key+" "+phase, large)
			p.Count("sessions", 1)
			if large {
				p.Count("sessions_with_large_ids", 1)
			}
			if sig != "" {
				p.Violate(sig+"/"+phase, fmt.Sprintf("session of %v (%s, %s, rounds %v): %s", ids, mode, phase, rounds, what), map[string]interface{}{"ids": ids, "mode": mode, "phase": phase, "rounds": rounds, "log_tail": simnet.LogTail(c.eventsSince(res.FromSeq), 30)})
				break
			}
			c.drain(100 * time.Millisecond)
		}
		if i%23 == 0 {
			p.Sample(map[string]interface{}{"ids": ids, "mode": mode, "rounds": rounds})
		}
		c.Stop()
	}
}

// unitC13disc: membership synchronisation sessions of 32 members tiling the whole 16-bit range, so that every identifier
// value takes part in at least one session (thorough) or a PRNG sample of the tiles plus the boundary tiles (quick).
func unitC13disc(e common.Env, p *common.Part) {
	p.Rule = "disc-only sessions of 32 real disc.Member objects whose identifiers tile the 16-bit range (tile k = {k, k+2048, k+4096, ...}: every session mixes all high-byte values; thorough: all 2048 tiles, i.e. every identifier takes part once; quick: 24 tiles incl. the first and last); all 32 members call Synchronize with expected = 32; oracle: everybody completes with the identical sorted list of the 32 identifiers; distinct key = tile; non-trivial always (every tile contains identifiers >= 256)"
	var tiles []int
	if e.Thorough() {
		for k := 0; k < 2048; k++ {
			tiles = append(tiles, k)
		}
	} else {
		rng := e.Rng("c13disc")
		tiles = []int{0, 1, 255, 256, 2047}
		for len(tiles) < 24 {
			tiles = append(tiles, rng.Intn(2048))
		}
	}
	for i, k := range tiles {
		if !e.Mine(i) || p.ViolationCount() >= 3 {
			continue
		}
		var ids []uint16
		for j := 0; j < 32; j++ {
			ids = append(ids, uint16(k+2048*j))
		}
		key := fmt.Sprintf("tile %d (%d..%d step 2048)", k, ids[0], ids[31])
		p.Begin(key)
		run := func(scale int) (int, string) {
			rng := e.Rng("c13disc", k, scale)
			net := newDnet(ids, rng)
			net.maxDelay = 200 * time.Microsecond
			defer net.close()
			ctx, cancel := context.WithTimeout(context.Background(), time.Duration(scale)*8*time.Second)
			defer cancel()
			var wg sync.WaitGroup
			topic := topicFor("c13-disc", k)
			for _, id := range ids {
				// a probe interval in proportion to the session size: 32 members re-broadcasting every few milliseconds only overload
				// the machine (every received view is compared with all stored ones)
				net.start(ctx, &wg, net.add(id, "honest", true), topic, 32, 40*time.Millisecond)
			}
			wg.Wait()
			if sig, what := c07judge(net, 32); sig != "" {
				return honestCompletions(net), sig + ": " + what
			}
			return honestCompletions(net), ""
		}
		comp, viol := run(1)
		if viol == "" && comp != 32 {
			p.Count("watchdog_replays", 1)
			comp, viol = run(4)
			if viol == "" && comp != 32 {
				viol = fmt.Sprintf("no-completion: only %d of 32 members completed although all of them invoked Synchronize (also with a 4x deadline)", comp)
			}
		}
		p.Case(key, true)
		p.Count("disc_sessions", 1)
		p.Count("identifiers_covered", 32)
		if viol != "" {
			p.Violate("disc-tile/"+strings.SplitN(viol, ":", 2)[0], key+": "+viol, map[string]interface{}{"tile": k})
		}
		if i%7 == 0 {
			p.Sample(map[string]interface{}{"tile": k, "first_ids": ids[:4], "completions": comp})
		}
	}
}

// unitC13views: views are compared, not only encoded and decoded. Sessions over identifier families whose members a sloppy
// comparison could confuse (UTF-16 surrogate range and U+FFFD, same low byte, same high byte, byte-swapped pairs, decimal digits
// that can be split elsewhere): (a) honest members only, one more than expected, started in PRNG order with PRNG delays, so that
// equal-length views that differ in exactly such identifiers meet; (b) the Byzantine plan of C07 that announces confusable views.
func unitC13views(e common.Env, p *common.Part) {
	p.Rule = "disc sessions of real disc.Member objects over confusable identifier families (both in 0xD800..0xDFFF or 0xFFFD; x and x+k*256; x and x^k with k<256; x and its byte-swapped value; d1,d2d3 vs d1d2,d3): (a) three honest members with expected = 2, staggered by PRNG delays of 0..3 ms, (b) a Byzantine member announcing the destination's own list with entries replaced by their confusable twins; oracle: the validity, agreement and two-outcome oracles of C07; distinct key = (kind, family, identifiers, seed); non-trivial always"
	n := e.Pick(240, 6000)
	for i := 0; i < n; i++ {
		if !e.Mine(i) || p.ViolationCount() >= 3 {
			continue
		}
		rng := e.Rng("c13views", i)
		if i%4 == 3 {
			key := fmt.Sprintf("confusable-views #%d", i)
			p.Begin(key)
			r := runByzPlan("confusable-views", i, rng)
			sig, what := c07judge(r.net, r.expected)
			p.Case(key, true)
			p.Count("byz_sessions", 1)
			if sig != "" {
				p.Violate(sig+"/confusable-views", key+" ("+r.note+"): "+what, map[string]interface{}{"index": i, "note": r.note})
			}
			r.net.close()
			continue
		}
		family := []string{"surrogates", "low-byte", "high-byte", "byte-swap", "digits"}[i%5]
		var ids []uint16
		switch family {
		case "surrogates":
			for len(ids) < 3 {
				v := uint16(0xD800 + rng.Intn(0x800))
				if rng.Intn(6) == 0 {
					v = 0xFFFD
				}
				ids = appendUnique(ids, v)
			}
		case "low-byte":
			x := uint16(rng.Intn(0x4000))
			ids = []uint16{x, x + 0x100*uint16(1+rng.Intn(60)), x + 0x100*uint16(61+rng.Intn(60))}
		case "high-byte":
			x := uint16(rng.Intn(0xff00)) &^ 0xff
			for len(ids) < 3 {
				ids = appendUnique(ids, x|uint16(rng.Intn(256)))
			}
		case "byte-swap":
			x := uint16(0x0100 + rng.Intn(0xfe00))
			for x<<8|x>>8 == x {
				x++
			}
			ids = []uint16{x, x<<8 | x>>8}
			for len(ids) < 3 {
				ids = appendUnique(ids, uint16(rng.Intn(65536)))
			}
		default:
			d1, d2, d3 := uint16(1+rng.Intn(9)), uint16(1+rng.Intn(9)), uint16(1+rng.Intn(9))
			ids = appendUnique(appendUnique(appendUnique(nil, d1), d2*10+d3), d1*10+d2)
			for len(ids) < 3 {
				ids = appendUnique(ids, d3+uint16(rng.Intn(3)))
			}
		}
		key := fmt.Sprintf("honest surplus %s %v #%d", family, ids, i)
		p.Begin(key)
		universe := append([]uint16{}, ids...)
		sort.Slice(universe, func(a, b int) bool { return universe[a] < universe[b] })
		net := newDnet(universe, rng)
		net.maxDelay = time.Duration(100+rng.Intn(1500)) * time.Microsecond
		ctx, cancel := context.WithTimeout(context.Background(), time.Duration(40+rng.Intn(40))*time.Millisecond)
		var wg sync.WaitGroup
		rng.Shuffle(len(ids), func(a, b int) { ids[a], ids[b] = ids[b], ids[a] })
		for _, id := range ids {
			net.start(ctx, &wg, net.add(id, "honest", true), topicFor("c13views", i), 2, time.Duration(300+rng.Intn(1500))*time.Microsecond)
			time.Sleep(time.Duration(rng.Intn(3000)) * time.Microsecond)
		}
		wg.Wait()
		cancel()
		sig, what := c07judge(net, 2)
		p.Case(key, true)
		p.Count("honest_surplus_sessions", 1)
		p.Count("completions", int64(honestCompletions(net)))
		if sig != "" {
			p.Violate(sig+"/honest-surplus/"+family, key+": "+what, map[string]interface{}{"ids": ids, "family": family})
		}
		net.close()
		if i%31 == 0 {
			p.Sample(map[string]interface{}{"case": key})
		}
	}
}

func appendUnique(l []uint16, v uint16) []uint16 {
	for _, x := range l {
		if x == v {
			return l
		}
	}
	return append(l, v)
}
