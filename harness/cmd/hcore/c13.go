package main

// C13 — every 16-bit identifier, round and digest survives the wire encodings (core part):
// full scripted DKG+Sign sessions of size 2 and 3 over identifiers drawn along the byte boundaries,
// loud (real disc.Member) and silent mode, rounds 0..127.

import (
	"fmt"
	"time"

	"verifharness/backend"
	"verifharness/cluster"
	"verifharness/common"
	"verifharness/simnet"
)

var boundaryIDs = []uint16{0, 1, 2, 127, 128, 254, 255, 256, 257, 511, 512, 513, 32767, 32768, 65279, 65280, 65534, 65535}

func unitC13sess(e common.Env, p *common.Part) {
	p.Rule = "scripted key-generation + signing sessions of size 2 and 3 (3 makes acknowledgements matter) whose node = party identifiers are drawn from the byte-boundary set {0,1,2,127,128,254,255,256,257,511,512,513,32767,32768,65279,65280,65534,65535} (all pairs and triples in the thorough tier, a PRNG subset in quick) plus PRNG identifiers; rounds cycle through 0..127; loud (real disc.Member) and silent mode; oracle = completion + exactly-once totality; distinct key = id tuple + mode; non-trivial when the tuple contains an identifier >= 256"
	var tuples [][]uint16
	b := boundaryIDs
	for i := 0; i < len(b); i++ {
		for j := i + 1; j < len(b); j++ {
			tuples = append(tuples, []uint16{b[i], b[j]})
			for k := j + 1; k < len(b); k++ {
				tuples = append(tuples, []uint16{b[i], b[j], b[k]})
			}
		}
	}
	rng := e.Rng("c13sess")
	if !e.Thorough() {
		rng.Shuffle(len(tuples), func(i, j int) { tuples[i], tuples[j] = tuples[j], tuples[i] })
		tuples = tuples[:70]
	}
	// PRNG identifiers elsewhere in the range, sizes 3..4
	extra := e.Pick(30, 6000)
	for i := 0; i < extra; i++ {
		n := 3 + rng.Intn(2)
		used := map[uint16]bool{}
		var t []uint16
		for len(t) < n {
			v := uint16(rng.Intn(65536))
			if !used[v] {
				used[v] = true
				t = append(t, v)
			}
		}
		tuples = append(tuples, t)
	}
	for i, ids := range tuples {
		if !e.Mine(i) || p.ViolationCount() >= 3 {
			continue
		}
		silent := i%3 == 2
		mode := "loud"
		if silent {
			mode = "silent"
		}
		key := fmt.Sprintf("%v %s", ids, mode)
		p.Begin(key)
		r := e.Rng("c13", i)
		_, pol := policyByIndex(i, r, ids)
		c := newRCluster(cluster.Config{Map: identityMap(ids...), Silent: silent, Threshold: len(ids) - 1}, r, pol)
		rounds := []uint8{uint8(i % 128), uint8((i*7 + 1) % 128)}
		if rounds[0] == rounds[1] {
			rounds[1] = (rounds[1] + 1) % 128
		}
		script := backend.Script{Rounds: rounds, Bcast: true, P2P: true}
		large := false
		for _, v := range ids {
			if v >= 256 {
				large = true
			}
		}
		for _, sign := range []bool{false, true} {
			timeout := 5 * time.Second
			sc := sessCfg{Callers: ids, Sign: sign, Topic: fmt.Sprintf("c13-%d", i), Digest: []byte("0123456789abcdef0123456789abcdef"), Script: script, Timeout: timeout}
			if sign {
				for _, u := range ids {
					c.Schemes[u].SetStoredData([]byte("share-of-x"))
				}
			}
			res := c.run(sc)
			phase := "dkg"
			if sign {
				phase = "sign"
			}
			sig, what := "", ""
			if u, err := allNil(res, ids); err != nil {
				sig, what = "session-failed", fmt.Sprintf("node %d: %v", u, err)
				if res.Elapsed >= timeout {
					// watchdog: replay once in a fresh cluster with a 4x deadline before judging
					c.Stop()
					c = newRCluster(cluster.Config{Map: identityMap(ids...), Silent: silent, Threshold: len(ids) - 1}, r, pol)
					if sign {
						for _, u := range ids {
							c.Schemes[u].SetStoredData([]byte("share-of-x"))
						}
					}
					sc.Timeout = 4 * timeout
					res = c.run(sc)
					p.Count("watchdog_replays", 1)
					if u, err := allNil(res, ids); err != nil {
						sig, what = "session-failed", fmt.Sprintf("node %d: %v (also with a 4x deadline)", u, err)
					} else {
						sig, what = "", ""
					}
				}
			}
			if sig == "" {
				sig, what = sessionTotality(c, sc, res)
			}
			if len(res.Panics) > 0 {
				sig, what = "panic", res.Panics[0]
			}
			p.Case(key+" "+phase, large)
			p.Count("sessions", 1)
			if large {
				p.Count("sessions_with_large_ids", 1)
			}
			if sig != "" {
				p.Violate(sig+"/"+phase, fmt.Sprintf("session of %v (%s, %s, rounds %v): %s", ids, mode, phase, rounds, what), map[string]interface{}{"ids": ids, "mode": mode, "phase": phase, "rounds": rounds, "log_tail": simnet.LogTail(c.eventsSince(res.FromSeq), 30)})
				break
			}
			c.drain(100 * time.Millisecond)
		}
		if i%23 == 0 {
			p.Sample(map[string]interface{}{"ids": ids, "mode": mode, "rounds": rounds})
		}
		c.Stop()
	}
}
