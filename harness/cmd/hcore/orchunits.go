package main

import (
	"bytes"
	"context"
	"crypto/sha256"
	"fmt"
	tss "github.com/IBM/TSS/types"
	"strings"
	"sync"
	"sync/atomic"
	"time"

	"verifharness/backend"
	"verifharness/cluster"
	"verifharness/common"
	"verifharness/dfs"
	"verifharness/simnet"
)

func identityMap(ids ...uint16) map[uint16]uint16 {
	m := map[uint16]uint16{}
	for _, i := range ids {
		m[i] = i
	}
	return m
}

func transmitSet(pids ...uint16) map[uint16]bool {
	m := map[uint16]bool{}
	for _, p := range pids {
		m[p] = true
	}
	return m
}

// ---------------- C04 at orchestrator level (stepped) ----------------

type ocase struct {
	cfg     oconfig
	limit   int
	samples int
}

func unitC04orch(e common.Env, p *common.Part) {
	p.Rule = "all-honest key generation / signing sessions of real LoudSchemes (barrier synchroniser, scripted backends transmitting at start), stepped deliveries through HandleMessage; distinct key = (configuration, delivery-sequence hash); non-trivial when >=2 transmitting parties or >=3 nodes (acknowledgements in flight); small spaces enumerated by sleep-set DFS, others sampled"
	p.Assumptions = append(p.Assumptions, "membership synchronisation replaced by a harness barrier through the exported SyncFactory field (no timers); backends never complete during stepping, so late traffic always finds the session live")
	var cases []ocase
	mk := func(name string, ids []uint16, sign bool, transmit []uint16, rounds []uint8, p2p bool, limit, samples int) {
		cfg := oconfig{Name: name, Map: identityMap(ids...), Callers: ids, Sign: sign,
			Script: backend.Script{Rounds: rounds, Bcast: true, P2P: p2p, Transmit: transmitSet(transmit...)}}
		cases = append(cases, ocase{cfg, limit, samples})
	}
	mk("dkg N=2 all senders 2 rounds p2p", []uint16{1, 2}, false, []uint16{1, 2}, []uint8{1, 2}, true, 20000, 0)
	mk("dkg N=3 sender 1", []uint16{1, 2, 3}, false, []uint16{1}, []uint8{1}, false, 20000, 0)
	mk("sign N=3 sender 2 p2p", []uint16{1, 2, 3}, true, []uint16{2}, []uint8{1}, true, 20000, 0)
	mk("dkg N=3 senders 1,2", []uint16{1, 2, 3}, false, []uint16{1, 2}, []uint8{1}, false, e.Pick(3000, 20000), e.Pick(300, 0))
	mk("dkg N=3 ids 5,9,12 senders 5,12 round 0", []uint16{5, 9, 12}, false, []uint16{5, 12}, []uint8{0}, false, e.Pick(0, 20000), e.Pick(300, 2000))
	mk("dkg N=4 sender 1", []uint16{1, 2, 3, 4}, false, []uint16{1}, []uint8{1}, false, e.Pick(1000, 20000), e.Pick(200, 0))
	// identifiers that need two bytes, also together with the identifier that equals their low byte
	mk("dkg N=3 ids 1,2,300 all senders", []uint16{1, 2, 300}, false, []uint16{1, 2, 300}, []uint8{1}, false, e.Pick(1500, 20000), e.Pick(200, 2000))
	mk("sign N=3 ids 44,300,7 all senders p2p", []uint16{44, 300, 7}, true, []uint16{44, 300, 7}, []uint8{1}, true, 0, e.Pick(300, 4000))
	mk("dkg N=5 ids 1,2,257,4,65535 senders 257,65535 2 rounds", []uint16{1, 2, 257, 4, 65535}, false, []uint16{257, 65535}, []uint8{1, 2}, false, 0, e.Pick(200, 4000))
	mk("dkg N=3 all senders 2 rounds p2p", []uint16{1, 2, 3}, false, []uint16{1, 2, 3}, []uint8{1, 2}, true, 0, e.Pick(400, 60000))
	// node identifier 0 (a legal identifier; the zero value of every table keyed or valued by identifiers), with point-to-point traffic
	mk("dkg N=3 ids 0,5,9 all senders p2p", []uint16{0, 5, 9}, false, []uint16{0, 5, 9}, []uint8{1}, true, e.Pick(1500, 20000), e.Pick(200, 2000))
	mk("sign N=4 ids 0,1,2,3 all senders 2 rounds p2p", []uint16{0, 1, 2, 3}, true, []uint16{0, 1, 2, 3}, []uint8{1, 2}, true, 0, e.Pick(200, 4000))
	// sessions among a strict subset of the membership: a configured member that takes part in nothing (and, second configuration,
	// a stand-by replica of a participating party); whatever is sized or addressed "by membership" instead of "by session" shows here
	mk("dkg N=3 of a 4-node membership, all senders p2p", []uint16{1, 2, 3}, false, []uint16{1, 2, 3}, []uint8{1}, true, e.Pick(1500, 20000), e.Pick(200, 2000))
	cases[len(cases)-1].cfg.Map = map[uint16]uint16{1: 1, 2: 2, 3: 3, 9: 9}
	mk("sign N=3 of a membership with a stand-by replica of party 3, all senders p2p", []uint16{1, 2, 3}, true, []uint16{1, 2, 3}, []uint8{1}, true, e.Pick(1500, 20000), e.Pick(200, 2000))
	cases[len(cases)-1].cfg.Map = map[uint16]uint16{1: 1, 2: 2, 3: 3, 4: 3}
	mk("dkg N=3 of a membership with a stand-by replica of party 3, all senders", []uint16{1, 2, 3}, false, []uint16{1, 2, 3}, []uint8{1, 2}, false, 0, e.Pick(200, 2000))
	cases[len(cases)-1].cfg.Map = map[uint16]uint16{1: 1, 2: 2, 3: 3, 4: 3}
	mkSilent := func(name string, ids []uint16, sign bool, transmit []uint16, rounds []uint8, p2p bool, limit, samples int) {
		mk(name, ids, sign, transmit, rounds, p2p, limit, samples)
		cases[len(cases)-1].cfg.Silent = true
	}
	// in silent mode a party hands nothing over before its own first transmission on the topic: everybody transmits
	mkSilent("silent dkg N=3 all senders", []uint16{1, 2, 3}, false, []uint16{1, 2, 3}, []uint8{1}, false, e.Pick(3000, 20000), e.Pick(300, 2000))
	mkSilent("silent sign N=3 all senders p2p", []uint16{1, 2, 3}, true, []uint16{1, 2, 3}, []uint8{1}, true, e.Pick(2000, 20000), e.Pick(300, 3000))
	mkSilent("silent dkg N=4 all senders 2 rounds p2p", []uint16{1, 2, 3, 4}, false, []uint16{1, 2, 3, 4}, []uint8{1, 2}, true, 0, e.Pick(200, 4000))
	mk("sign N=4 all senders 3 rounds p2p", []uint16{1, 2, 3, 4}, true, []uint16{1, 2, 3, 4}, []uint8{1, 2, 127}, true, 0, e.Pick(200, 40000))
	mk("dkg N=5 senders 1,3,5 2 rounds p2p", []uint16{1, 2, 3, 4, 5}, false, []uint16{1, 3, 5}, []uint8{1, 2}, true, 0, e.Pick(100, 30000))
	for i, oc := range cases {
		if !e.Mine(i) || p.ViolationCount() >= 3 {
			continue
		}
		oc := oc
		p.Begin(oc.cfg.Name)
		nw := func() dfs.World { return newOWorld(oc.cfg) }
		check := func(wd dfs.World, path []simnet.Link) bool {
			w := wd.(*oworld)
			p.Case(oc.cfg.Name+"#"+dfs.PathHash(path), len(oc.cfg.Script.Transmit) >= 2 || len(oc.cfg.Callers) >= 3)
			p.Count("handovers", int64(w.handovers()))
			p.Count("deliveries", w.c.Net.Delivered())
			if sig, what := w.checkTotality(); sig != "" {
				p.Violate(sig, oc.cfg.Name+": "+what, w.witness(path))
				return false
			}
			return true
		}
		if oc.limit > 0 {
			r := dfs.Explore(nw, oc.limit, check)
			p.SetExhaustive(oc.cfg.Name, r.Exhaustive)
			p.Count("traces_enumerated", int64(r.Traces))
			p.Sample(map[string]interface{}{"config": oc.cfg.Name, "mode": "sleep-set DFS", "traces": r.Traces, "executions": r.Executions, "exhaustive": r.Exhaustive})
		}
		if oc.samples > 0 {
			rng := e.Rng("c04orch", oc.cfg.Name)
			r := dfs.Sample(nw, oc.samples, rng, overtakingPolicy(rng), check)
			p.Count("traces_sampled", int64(r.Traces))
			p.Sample(map[string]interface{}{"config": oc.cfg.Name, "mode": "sampled", "runs": r.Traces})
		}
		p.Write(false)
	}
}

// ---------------- C04 with sessions that run to completion (random mode) ----------------

// unitC04live: the stepped worlds above keep every session open (deterministic quiescence); here sessions complete, so whatever
// the orchestrator does when a party's call returns (cancel its context, clean up) races with the last messages' acknowledgements.
func unitC04live(e common.Env, p *common.Part) {
	p.Rule = "all-honest scripted sessions (key generation, then signing) of real Loud/barrier/silent schemes in random mode that RUN TO COMPLETION, N=3..5, two rounds of broadcasts (every second case with point-to-point traffic as well; every fifth case with byte-identical broadcasts of all parties), five delivery policies (acknowledgements overtaking payloads); the backend's OnMsg that completes a party's last round returns only after that party's KeyGen/Sign has returned; oracle: every call returns nil and every message was handed over exactly once everywhere; distinct key = (N, mode, policy, index); non-trivial always"
	p.Assumptions = append(p.Assumptions, "completion is judged with a 5 s watchdog; a session that missed it although the network had been empty and the event log silent for >= 2 s when the deadline fired is reported at once, any other deadline only after a replay in a fresh cluster at 4x")
	n := e.Pick(90, 3000)
	for i := 0; i < n; i++ {
		if !e.Mine(i) || p.ViolationCount() >= 3 {
			continue
		}
		r := e.Rng("c04live", i)
		N := 3 + i%3
		var ids []uint16
		for k := 1; k <= N; k++ {
			ids = append(ids, uint16(k))
		}
		mode := []string{"loud", "barrier", "silent"}[(i/3)%3]
		polName, pol := policyByIndex(i, r, ids)
		key := fmt.Sprintf("N=%d %s %s #%d", N, mode, polName, i)
		p.Begin(key)
		mk := func() *rcluster {
			return newRCluster(cluster.Config{Map: identityMap(ids...), Silent: mode == "silent", Barrier: mode == "barrier", Threshold: N - 1}, r, pol)
		}
		c := mk()
		// every second case has broadcasts only: then the message that completes a party's last round is a broadcast (with
		// point-to-point traffic the last message on a link is the point-to-point one, which needs no acknowledgement)
		script := backend.Script{Rounds: []uint8{1, 2}, Bcast: true, P2P: i%2 == 1, LingerOnMsg: 3 * time.Millisecond}
		// every fifth case: all parties broadcast the SAME bytes in a round (a constant announcement); hand-overs are then told
		// apart by their transport attribution only
		constant := i%5 == 4
		script.ConstantBroadcasts = constant
		for _, sign := range []bool{false, true} {
			timeout := 5 * time.Second
			sc := sessCfg{Callers: ids, Sign: sign, Topic: fmt.Sprintf("c04live-%d", i), Digest: []byte("0123456789abcdef0123456789abcdef"), Script: script, Timeout: timeout}
			setData := func() {
				if sign {
					for _, u := range ids {
						c.Schemes[u].SetStoredData([]byte("share-of-x"))
					}
				}
			}
			setData()
			res := c.run(sc)
			phase := map[bool]string{false: "dkg", true: "sign"}[sign]
			sig, what := "", ""
			if u, err := allNil(res, ids); err != nil {
				sig, what = "session-failed", fmt.Sprintf("node %d: %v", u, err)
				if res.Elapsed >= timeout && res.QuietAtFirstReturn >= 2*time.Second {
					// nothing had been transmitted, delivered or handed over for seconds when the deadline fired: not a slow machine
					what += fmt.Sprintf(" (the network had been empty and silent for %v when the deadline fired)", res.QuietAtFirstReturn.Round(100*time.Millisecond))
					p.Count("failed_in_silence", 1)
				} else if res.Elapsed >= timeout {
					c.Stop()
					c = mk()
					setData()
					sc.Timeout = 4 * timeout
					res = c.run(sc)
					p.Count("watchdog_replays", 1)
					if u, err := allNil(res, ids); err != nil {
						sig, what = "session-failed", fmt.Sprintf("node %d: %v (also with a 4x deadline in a fresh cluster)", u, err)
					} else {
						sig, what = "", ""
					}
				}
			}
			if sig == "" && !constant {
				sig, what = sessionTotality(c, sc, res)
			}
			if sig == "" && constant {
				// exactly one broadcast hand-over per (node, attributed party, round)
				cnt := map[[3]uint16]int{}
				for _, ev := range c.eventsSince(res.FromSeq) {
					if ev.Kind == simnet.EvOnMsg && ev.Bcast {
						if pl, err := backend.Decode(ev.Data); err == nil {
							cnt[[3]uint16{ev.Node, ev.Peer, uint16(pl.Round)}]++
						}
					}
				}
				for _, u := range ids {
					for _, f := range ids {
						for _, r := range script.Rounds {
							if u != f && cnt[[3]uint16{u, f, uint16(r)}] != 1 && sig == "" {
								sig, what = "broadcast", fmt.Sprintf("the round-%d broadcast of party %d (same bytes as the other parties' broadcasts) was handed over %d times at node %d", r, f, cnt[[3]uint16{u, f, uint16(r)}], u)
							}
						}
					}
				}
				p.Count("sessions_with_identical_broadcasts", 1)
			}
			if len(res.Panics) > 0 {
				sig, what = "panic", res.Panics[0]
			}
			p.Case(key+" "+phase, true)
			p.Count("sessions", 1)
			if sig != "" {
				p.Violate("totality/live/"+sig+"/"+phase, fmt.Sprintf("%s %s: %s", key, phase, what), map[string]interface{}{"ids": ids, "mode": mode, "phase": phase, "policy": polName, "log_tail": simnet.LogTail(c.eventsSince(res.FromSeq), 30)})
				break
			}
			c.drain(100 * time.Millisecond)
		}
		c.Stop()
		if i%19 == 0 {
			p.Sample(map[string]interface{}{"case": key})
		}
	}
}

// ---------------- C04: consecutive sessions on one topic, an acknowledgement of the first arriving in the second ----------------

// unitC04twice: a fault-free session needs every payload and N-2 acknowledgements per broadcast, but never the acknowledgements
// about a party's OWN broadcasts: those are the only traffic that can still be under way towards a party when its session ends.
// Here they are delayed (a legal delivery order) until the party takes part in the NEXT session on the same topic. Both sessions
// are fault-free, so both complete with every message handed over exactly once.
func unitC04twice(e common.Env, p *common.Part) {
	p.Rule = "two consecutive all-honest scripted sessions on ONE topic (key generation twice; signing twice with the same topic string) of real Loud/barrier schemes in random mode, N=3,4, one or two rounds of broadcasts; the acknowledgements of the first session about party P's own broadcasts (the only traffic a completed fault-free session can leave under way towards P) are delivered to P when it transmits its first broadcast of the second session, i.e. inside the second session and before that session's acknowledgements on the same links; oracle: both sessions return nil everywhere and hand every message over exactly once; distinct key = (N, mode, operation, P, index); non-trivial when at least one acknowledgement crossed the session boundary"
	p.Assumptions = append(p.Assumptions, "a session that misses its 5 s watchdog is judged only if the network had been empty and the event log silent for >= 2 s when the deadline fired; any other deadline is counted as undecided and not reported")
	n := e.Pick(48, 1200)
	for i := 0; i < n; i++ {
		if !e.Mine(i) || p.ViolationCount() >= 3 {
			continue
		}
		r := e.Rng("c04twice", i)
		N := 3 + i%2
		var ids []uint16
		for k := 1; k <= N; k++ {
			ids = append(ids, uint16(k))
		}
		mode := []string{"loud", "barrier"}[(i/2)%2]
		sign := (i/4)%2 == 1
		P := ids[r.Intn(N)]
		polName, pol := policyByIndex(i, r, ids)
		key := fmt.Sprintf("N=%d %s sign=%v P=%d %s #%d", N, mode, sign, P, polName, i)
		p.Begin(key)
		c := newRCluster(cluster.Config{Map: identityMap(ids...), Barrier: mode == "barrier", Threshold: N - 1}, r, pol)
		script := backend.Script{Rounds: []uint8{1, 2}[:1+(i/8)%2], Bcast: true}
		type heldPkt struct {
			src   uint16
			typ   uint8
			topic []byte
			data  []byte
		}
		var mu sync.Mutex
		var own [][]byte // digests of P's broadcasts as they may appear in acknowledgements
		var held []heldPkt
		phase, crossed := 0, 0
		isPayload := func(data []byte) bool {
			for _, b := range c.AllBackends() {
				for _, sp := range b.SentCopy() {
					if bytes.HasSuffix(data, sp.Payload) {
						return true
					}
				}
			}
			return false
		}
		for _, u := range ids {
			u := u
			c.Net.SetInterceptor(u, func(nw *simnet.Net, src uint16, typ uint8, tp, data []byte, dsts []uint16) []simnet.Outgoing {
				var outs []simnet.Outgoing
				pay := typ == uint8(tss.MsgTypeMPC) && isPayload(data)
				mu.Lock()
				defer mu.Unlock()
				if u == P && pay {
					if phase == 0 {
						d1, d2 := sha256.Sum256(data), sha256.Sum256(data[1:])
						own = append(own, d1[:], d2[:])
					} else if len(held) > 0 {
						// the first session's acknowledgements about P's own broadcasts arrive now: P's second session is set up (it is
						// transmitting), and nobody can have acknowledged its new broadcast yet
						for _, h := range held {
							nw.Inject(h.src, simnet.Outgoing{Dst: P, Type: h.typ, Topic: h.topic, Data: h.data})
							crossed++
						}
						held = nil
					}
				}
				aboutOwn := false
				if u != P && phase == 0 && typ == uint8(tss.MsgTypeMPC) && !pay {
					for _, d := range own {
						if bytes.Contains(data, d) {
							aboutOwn = true
						}
					}
				}
				for _, d := range dsts {
					if aboutOwn && d == P {
						held = append(held, heldPkt{u, typ, append([]byte{}, tp...), append([]byte{}, data...)})
						continue
					}
					outs = append(outs, simnet.Outgoing{Dst: d, Type: typ, Topic: tp, Data: data})
				}
				return outs
			})
		}
		sig, what := "", ""
		for sess := 0; sess < 2 && sig == ""; sess++ {
			mu.Lock()
			phase = sess
			mu.Unlock()
			timeout := 5 * time.Second
			sc := sessCfg{Callers: ids, Sign: sign, Topic: fmt.Sprintf("c04twice-%d", i), Digest: []byte("0123456789abcdef0123456789abcdef"), Script: script, Timeout: timeout}
			if sign {
				for _, u := range ids {
					c.Schemes[u].SetStoredData([]byte("share-of-x"))
				}
			}
			res := c.run(sc)
			if u, err := allNil(res, ids); err != nil {
				if res.Elapsed >= timeout && res.QuietAtFirstReturn < 2*time.Second {
					p.Count("undecided_deadlines", 1)
					break
				}
				sig, what = "session-failed", fmt.Sprintf("session %d of 2 on the topic, node %d: %v", sess+1, u, err)
				if res.Elapsed >= timeout {
					what += fmt.Sprintf(" (the network had been empty and silent for %v when the deadline fired)", res.QuietAtFirstReturn.Round(100*time.Millisecond))
				}
			} else {
				sig, what = sessionTotality(c, sc, res)
				if sig != "" {
					what = fmt.Sprintf("session %d of 2 on the topic: %s", sess+1, what)
				}
			}
			if len(res.Panics) > 0 {
				sig, what = "panic", res.Panics[0]
			}
			p.Count("sessions", 1)
			c.drain(100 * time.Millisecond)
		}
		mu.Lock()
		cr := crossed
		mu.Unlock()
		p.Case(key, cr > 0)
		p.Count("acknowledgements_delivered_in_the_next_session", int64(cr))
		if sig != "" {
			p.Violate("totality/consecutive-sessions/"+sig, fmt.Sprintf("%s: %s; %d acknowledgements of the first session about party %d's own broadcasts were delivered to it during the second", key, what, cr, P), map[string]interface{}{"ids": ids, "mode": mode, "sign": sign, "P": P, "policy": polName})
		}
		c.Stop()
		if i%11 == 0 {
			p.Sample(map[string]interface{}{"case": key, "acknowledgements_crossed": cr})
		}
	}
}

// ---------------- C02 / C03 at orchestrator level (stepped) ----------------

func byzOrchCatalogue(e common.Env) []ocase {
	var out []ocase
	add := func(name string, ids []uint16, mp map[uint16]uint16, sign bool, byz map[uint16]*byzPlan, outs []outsiderPlan, transmit []uint16, versions map[uint16]int, limit, samples int) {
		if mp == nil {
			mp = identityMap(ids...)
		}
		cfg := oconfig{Name: name, Map: mp, Callers: ids, Sign: sign, Byz: byz, Outsiders: outs,
			Script: backend.Script{Rounds: []uint8{1}, Bcast: true, P2P: false, Transmit: transmitSet(transmit...), Versions: versions}}
		out = append(out, ocase{cfg, limit, samples})
	}
	lim3 := e.Pick(20000, 150000)
	lim4 := e.Pick(1500, 150000)
	smp := e.Pick(150, 25000)
	for _, sign := range []bool{false, true} {
		kind := "dkg"
		if sign {
			kind = "sign"
		}
		// N=3, Byzantine sender 1, honest 2,3
		add(kind+" N=3 equivocate", []uint16{1, 2, 3}, nil, sign, map[uint16]*byzPlan{1: {RouteVersion: map[uint8][]uint16{1: {2}, 2: {3}}}}, nil, []uint16{1}, map[uint16]int{1: 2}, lim3, 0)
		add(kind+" N=3 equivocate+reflect-acks", []uint16{1, 2, 3}, nil, sign, map[uint16]*byzPlan{1: {RouteVersion: map[uint8][]uint16{1: {2}, 2: {3}}, ReflectAcks: true}}, nil, []uint16{1}, map[uint16]int{1: 2}, lim3, 0)
		add("silent "+kind+" N=3 equivocate+reflect-acks", []uint16{1, 2, 3}, nil, sign, map[uint16]*byzPlan{1: {RouteVersion: map[uint8][]uint16{1: {2}, 2: {3}}, ReflectAcks: true}}, nil, []uint16{1, 2, 3}, map[uint16]int{1: 2}, e.Pick(3000, 20000), smp)
		out[len(out)-1].cfg.Silent = true
		add("silent "+kind+" N=3 resend+reflect-twice, honest sender 2", []uint16{1, 2, 3}, nil, sign, map[uint16]*byzPlan{1: {ReflectAcks: true, ReflectTwice: true, ResendPayloads: 2}}, nil, []uint16{1, 2, 3}, nil, e.Pick(3000, 20000), smp)
		out[len(out)-1].cfg.Silent = true
		add("silent "+kind+" N=4 equivocate 2|3,4 +reflect + non-member replay", []uint16{1, 2, 3, 4}, nil, sign, map[uint16]*byzPlan{1: {RouteVersion: map[uint8][]uint16{1: {2}, 2: {3, 4}}, ReflectAcks: true}}, []outsiderPlan{{ID: 77, Tap: 2, Victims: []uint16{3}}}, []uint16{1, 2, 3, 4}, map[uint16]int{1: 2}, lim4, smp)
		out[len(out)-1].cfg.Silent = true
		add(kind+" N=3 equivocate+reflect-acks-twice+resend", []uint16{1, 2, 3}, nil, sign, map[uint16]*byzPlan{1: {RouteVersion: map[uint8][]uint16{1: {2}, 2: {3}}, ReflectAcks: true, ReflectTwice: true, ResendPayloads: 1}}, nil, []uint16{1}, map[uint16]int{1: 2}, lim3, smp)
		add(kind+" N=3 vouchers-without-payload", []uint16{1, 2, 3}, nil, sign, map[uint16]*byzPlan{1: {WithholdPayloadFrom: map[uint16]bool{3: true}, ReflectAcks: true}}, nil, []uint16{1}, nil, lim3, 0)
		add(kind+" N=3 honest-broadcast resend+reflect", []uint16{1, 2, 3}, nil, sign, map[uint16]*byzPlan{1: {ReflectAcks: true, ReflectTwice: true, ResendPayloads: 2}}, nil, []uint16{1, 2}, nil, e.Pick(3000, 20000), smp)
		add(kind+" N=3 both-versions-to-everyone", []uint16{1, 2, 3}, nil, sign, map[uint16]*byzPlan{1: {ReflectAcks: true}}, nil, []uint16{1}, map[uint16]int{1: 2}, lim3, smp)
		add(kind+" N=3 both-versions-in-opposite-orders", []uint16{1, 2, 3}, nil, sign, map[uint16]*byzPlan{1: {ReverseVersionsFor: map[uint16]bool{3: true}}}, nil, []uint16{1}, map[uint16]int{1: 2}, lim3, smp)
		add(kind+" N=4 both-versions-in-opposite-orders+reflect", []uint16{1, 2, 3, 4}, nil, sign, map[uint16]*byzPlan{1: {ReverseVersionsFor: map[uint16]bool{3: true}, ReflectAcks: true}}, nil, []uint16{1}, map[uint16]int{1: 2}, lim4, smp)
		// N=4 with an accomplice (node 4 is a mute reflector), honest 2,3
		add(kind+" N=4 equivocate+accomplice-reflector", []uint16{1, 2, 3, 4}, nil, sign,
			map[uint16]*byzPlan{1: {RouteVersion: map[uint8][]uint16{1: {2}, 2: {3}}, ReflectAcks: true}, 4: {ReflectAcks: true, Mute: true}}, nil, []uint16{1}, map[uint16]int{1: 2}, lim4, smp)
		// N=4 one Byzantine, honest 2,3,4: each 2-partition
		add(kind+" N=4 equivocate 2|3,4 +reflect", []uint16{1, 2, 3, 4}, nil, sign, map[uint16]*byzPlan{1: {RouteVersion: map[uint8][]uint16{1: {2}, 2: {3, 4}}, ReflectAcks: true}}, nil, []uint16{1}, map[uint16]int{1: 2}, lim4, smp)
		add(kind+" N=4 equivocate 2,3|4 +reflect", []uint16{1, 2, 3, 4}, nil, sign, map[uint16]*byzPlan{1: {RouteVersion: map[uint8][]uint16{1: {2, 3}, 2: {4}}, ReflectAcks: true, ReflectTwice: true}}, nil, []uint16{1}, map[uint16]int{1: 2}, lim4, smp)
		// outsiders: node 9 is in the membership map but does not take part; node 77 is not in the map at all
		mp := identityMap(1, 2, 3, 9)
		add(kind+" N=3 outsider-in-map replays everything 2 receives to 3", []uint16{1, 2, 3}, mp, sign, nil, []outsiderPlan{{ID: 9, Tap: 2, Victims: []uint16{3}}}, []uint16{1, 2}, nil, e.Pick(2000, 20000), smp)
		add(kind+" N=3 non-member replays everything 3 receives to 2,3", []uint16{1, 2, 3}, nil, sign, nil, []outsiderPlan{{ID: 77, Tap: 3, Victims: []uint16{2, 3}}}, []uint16{1}, nil, e.Pick(2000, 20000), smp)
		add(kind+" N=3 equivocate+reflect + outsider vouching", []uint16{1, 2, 3}, mp, sign, map[uint16]*byzPlan{1: {RouteVersion: map[uint8][]uint16{1: {2}, 2: {3}}, ReflectAcks: true}},
			[]outsiderPlan{{ID: 9, Tap: 2, Victims: []uint16{2}}, {ID: 9, Tap: 3, Victims: []uint16{3}}}, []uint16{1}, map[uint16]int{1: 2}, e.Pick(2000, 20000), smp)
	}
	// the same adversaries in sessions with two rounds and point-to-point traffic (sampled only)
	base := len(out)
	for i := 0; i < base; i++ {
		oc := out[i]
		if oc.cfg.Silent || i%3 != 0 {
			continue
		}
		oc.cfg.Name += " +2 rounds +p2p"
		oc.cfg.Script.Rounds = []uint8{1, 2}
		oc.cfg.Script.P2P = true
		oc.limit, oc.samples = 0, smp
		out = append(out, oc)
	}
	// identifiers that agree modulo 256 (and modulo other powers of two): the Byzantine sender equivocates, its accomplice with the
	// aliasing identifier broadcasts to each honest node, as ITS OWN message, the version the other honest node gets from the sender
	// (so honest nodes acknowledge the sender's two versions as broadcasts of the accomplice), and reflects acknowledgements
	for _, al := range [][2]uint16{{2, 258}, {2, 514}, {7, 32775}, {300, 44}} {
		sdr, acc := al[0], al[1]
		ids := []uint16{1, sdr, 3, acc}
		for _, sign := range []bool{false, true} {
			kind := map[bool]string{false: "dkg", true: "sign"}[sign]
			add(fmt.Sprintf("%s N=4 aliasing identifiers: sender %d equivocates, accomplice %d broadcasts the other version and reflects", kind, sdr, acc), ids, nil, sign,
				map[uint16]*byzPlan{sdr: {RouteVersion: map[uint8][]uint16{1: {1}, 2: {3}}, CopyAs: map[uint8]copyAs{1: {acc, []uint16{3}}, 2: {acc, []uint16{1}}}}, acc: {ReflectAcks: true, Mute: true, ReflectOnlyVersion: map[uint16]uint8{1: 1, 3: 2}}},
				nil, []uint16{sdr}, map[uint16]int{sdr: 2}, lim4, smp)
		}
	}
	// two nodes of ONE party - the party with the largest (also: smallest, middle) identifier of the session - both take part and
	// both transmit: a session must not run with a party represented twice (each replica's broadcast would be a broadcast "of
	// that party"), whichever position the party has among the sorted identifiers
	for _, dupParty := range []uint16{3, 1, 2} {
		for _, sign := range []bool{false, true} {
			kind := map[bool]string{false: "dkg", true: "sign"}[sign]
			mp := map[uint16]uint16{1: 1, 2: 2, 3: 3, 4: dupParty}
			add(fmt.Sprintf("%s N=4 party %d represented by two participating nodes", kind, dupParty), []uint16{1, 2, 3, 4}, mp, sign, nil, nil, []uint16{dupParty}, nil, lim4, smp)
		}
	}
	// all honest, a party with a primary and a stand-by node: sessions in which it is represented by the one or by the other; every
	// hand-over is attributed to the party of the node it came from
	for _, rep := range [][]uint16{{2, 3, 4}, {1, 2, 3}, {2, 3, 1, 5}, {2, 3, 4, 5}} {
		for _, sign := range []bool{false, true} {
			kind := map[bool]string{false: "dkg", true: "sign"}[sign]
			mp := map[uint16]uint16{1: 1, 2: 2, 3: 3, 4: 1, 5: 5}
			var parties []uint16
			for _, u := range rep {
				parties = append(parties, mp[u])
			}
			add(fmt.Sprintf("%s all honest, party 1 has nodes 1 and 4, participants %v", kind, rep), rep, mp, sign, nil, nil, parties, nil, lim4, smp)
		}
	}
	// key generation with a threshold below n-1: every party takes part, so a broadcast still needs the vouchers of all the others
	lowT := func(name string, ids []uint16, t int, byz map[uint16]*byzPlan, limit, samples int) {
		add(name, ids, nil, false, byz, nil, []uint16{1}, map[uint16]int{1: 2}, limit, samples)
		out[len(out)-1].cfg.Threshold = t
	}
	lowT("dkg N=4 t=1 equivocate 2|3,4", []uint16{1, 2, 3, 4}, 1, map[uint16]*byzPlan{1: {RouteVersion: map[uint8][]uint16{1: {2}, 2: {3, 4}}}}, lim4, smp)
	lowT("dkg N=4 t=2 equivocate 2,3|4 +accomplice-reflector", []uint16{1, 2, 3, 4, 5}, 2, map[uint16]*byzPlan{1: {RouteVersion: map[uint8][]uint16{1: {2, 3}, 2: {4}}, ReflectAcks: true}, 5: {ReflectAcks: true, Mute: true}}, lim4, smp)
	lowT("dkg N=5 t=2 equivocate 2,3|4,5", []uint16{1, 2, 3, 4, 5}, 2, map[uint16]*byzPlan{1: {RouteVersion: map[uint8][]uint16{1: {2, 3}, 2: {4, 5}}}}, lim4, smp)
	lowT("dkg N=5 t=3 equivocate 2,3|4,5 +reflect", []uint16{1, 2, 3, 4, 5}, 3, map[uint16]*byzPlan{1: {RouteVersion: map[uint8][]uint16{1: {2, 3}, 2: {4, 5}}, ReflectAcks: true}}, lim4, smp)
	lowT("dkg N=6 t=2 equivocate 2,3|4,5,6", []uint16{1, 2, 3, 4, 5, 6}, 2, map[uint16]*byzPlan{1: {RouteVersion: map[uint8][]uint16{1: {2, 3}, 2: {4, 5, 6}}}}, 0, smp)
	return out
}

func unitByzOrch(e common.Env, p *common.Part) {
	p.Rule = "sessions of real LoudSchemes (barrier synchroniser) in which Byzantine participants are real schemes whose transmissions are re-routed per destination (equivocation), whose received acknowledgements are reflected back as their own vouchers, payloads re-sent, and outsiders replay observed traffic; distinct key = (scenario, delivery-sequence hash); non-trivial when a Byzantine or outsider transmission was delivered to an honest node; enumerated by sleep-set DFS up to a limit, else sampled"
	p.Assumptions = append(p.Assumptions, "adversaries are assembled from real transmissions of this build (no hand-encoded wire bytes); the simulated network stamps the true origin as Source")
	cat := byzOrchCatalogue(e)
	p.Note("scenarios", len(cat))
	for i, oc := range cat {
		if !e.Mine(i) || p.ViolationCount() >= 3 {
			continue
		}
		oc := oc
		p.Begin(oc.cfg.Name)
		nw := func() dfs.World { return newOWorld(oc.cfg) }
		check := func(wd dfs.World, path []simnet.Link) bool {
			w := wd.(*oworld)
			bd := w.byzDeliveries()
			p.Case(oc.cfg.Name+"#"+dfs.PathHash(path), bd > 0)
			p.Count("handovers", int64(w.handovers()))
			p.Count("byzantine_deliveries", int64(bd))
			var sig, what string
			if e.Property == "C03" {
				sig, what = w.checkIntegrity()
			} else {
				sig, what = w.checkAgreement()
			}
			if sig != "" {
				p.Violate(sig+"/orchestrator", oc.cfg.Name+": "+what, w.witness(path))
				return false
			}
			return true
		}
		if oc.limit > 0 {
			r := dfs.Explore(nw, oc.limit, check)
			p.SetExhaustive(oc.cfg.Name, r.Exhaustive)
			p.Count("traces_enumerated", int64(r.Traces))
			if r.Exhaustive {
				p.Count("scenarios_exhaustive", 1)
			}
			p.Sample(map[string]interface{}{"scenario": oc.cfg.Name, "mode": "sleep-set DFS", "traces": r.Traces, "exhaustive": r.Exhaustive})
			if r.Exhaustive {
				continue
			}
		}
		if oc.samples > 0 {
			rng := e.Rng("byzorch", oc.cfg.Name)
			r := dfs.Sample(nw, oc.samples, rng, overtakingPolicy(rng), check)
			p.Count("traces_sampled", int64(r.Traces))
		}
		p.Write(false)
	}
	_ = fmt.Sprint
}

// ---------------- C03 under concurrent dispatch ----------------

// unitC03conc: the transport may hand a node several messages of one peer at the same time (one goroutine per connection). A
// Byzantine participant's two versions of one broadcast are handed to each honest node by two goroutines at the same moment,
// while the honest nodes' acknowledgements travel on the simulated network in concurrent mode. The schemes log to a sink that
// is slow exactly where the reliable broadcast registers a message (between its check of what it holds for (sender, round) and
// the update). Oracle: at most one hand-over per (node, sender, round).
func unitC03conc(e common.Env, p *common.Part) {
	p.Rule = "real LoudSchemes (barrier synchroniser), N = 3 and 4, key generation and signing, simulated network in concurrent mode; node 1's two versions of each broadcast (real transmissions of a scripted backend) are handed to every honest node by two goroutines released together, in both orders to both of them; the logger the consumer supplies sleeps 300 us in the reliable broadcast's 'Registering' and 'Collected' messages; oracle: <= 1 hand-over per (node, attributed party, round) of broadcast-class messages, byte-identical across honest nodes; distinct key = (N, operation, repetition); non-trivial when both versions reached an honest node"
	n := e.Pick(160, 6000)
	for i := 0; i < n; i++ {
		if !e.Mine(i) || p.ViolationCount() >= 3 {
			continue
		}
		N := 3 + i%2
		sign := (i/2)%2 == 1
		var ids []uint16
		for k := 1; k <= N; k++ {
			ids = append(ids, uint16(k))
		}
		key := fmt.Sprintf("N=%d sign=%v #%d", N, sign, i)
		p.Begin(key)
		var hits int64
		c := cluster.New(cluster.Config{Map: identityMap(ids...), Barrier: true, Threshold: N - 1,
			Script: backend.Script{Rounds: []uint8{1}, Bcast: true, Versions: map[uint16]int{1: 2}},
			Logger: common.SlowLog{Prefixes: []string{"Registering", "Collected"}, Delay: 300 * time.Microsecond, Hits: &hits}})
		c.Net.KeepData = true
		c.Net.StartConcurrent()
		var mu sync.Mutex
		var versions [][]byte
		var topic []byte
		released := make(chan struct{})
		var once sync.Once
		var hand sync.WaitGroup
		c.Net.SetInterceptor(1, func(nw *simnet.Net, src uint16, typ uint8, tp, data []byte, dsts []uint16) []simnet.Outgoing {
			if typ == uint8(tss.MsgTypeMPC) && len(dsts) == N-1 && len(data) > 0 && data[0]>>7 == 1 {
				// a broadcast payload of node 1 (two versions are emitted one after the other): not sent through the network
				mu.Lock()
				versions = append(versions, append([]byte{}, data...))
				topic = append([]byte{}, tp...)
				nv := len(versions)
				mu.Unlock()
				if nv == 2 {
					once.Do(func() {
						for _, d := range ids[1:] {
							for v := 0; v < 2; v++ {
								d, v := d, v
								hand.Add(1)
								go func() {
									defer hand.Done()
									<-released
									mu.Lock()
									m := &tss.IncMessage{MsgType: typ, Topic: topic, Source: 1, Data: append([]byte{}, versions[v]...)}
									mu.Unlock()
									c.Schemes[d].HandleMessage(m)
								}()
							}
						}
						close(released)
					})
				}
				return nil
			}
			var o []simnet.Outgoing
			for _, d := range dsts {
				o = append(o, simnet.Outgoing{Dst: d, Type: typ, Topic: tp, Data: data})
			}
			return o
		})
		ctx, cancel := context.WithTimeout(context.Background(), 60*time.Millisecond)
		var wg sync.WaitGroup
		for _, u := range ids {
			u := u
			c.Schemes[u].SetStoredData([]byte("share-of-x"))
			wg.Add(1)
			go func() {
				defer wg.Done()
				if sign {
					c.Schemes[u].Sign(ctx, []byte("digest-0123456789abcdef0123456789"), "c03conc")
				} else {
					c.Schemes[u].KeyGen(ctx, N, N-1)
				}
			}()
		}
		wg.Wait()
		cancel()
		hand.Wait()
		time.Sleep(2 * time.Millisecond)
		c.Net.Stop()
		// oracle on the backends' own records
		type k3 struct {
			node, from uint16
			round      uint8
		}
		cnt := map[k3]int{}
		payload := map[[2]uint16]string{} // (from, round) -> payload first seen
		sig, what := "", ""
		both := false
		for _, ev := range c.Net.Log() {
			if ev.Kind != simnet.EvOnMsg || !ev.Bcast {
				continue
			}
			pl, err := backend.Decode(ev.Data)
			if err != nil {
				continue
			}
			kk := k3{ev.Node, ev.Peer, pl.Round}
			cnt[kk]++
			if cnt[kk] > 1 && sig == "" {
				sig, what = "integrity/handed-over-twice/concurrent-dispatch", fmt.Sprintf("node %d was handed the round-%d broadcast of party %d %d times", ev.Node, pl.Round, ev.Peer, cnt[kk])
			}
			pk := [2]uint16{ev.Peer, uint16(pl.Round)}
			if prev, ok := payload[pk]; ok && prev != string(ev.Data) && sig == "" {
				sig, what = "agreement/concurrent-dispatch", fmt.Sprintf("two honest hand-overs of party %d's round-%d broadcast differ", ev.Peer, pl.Round)
			}
			payload[pk] = string(ev.Data)
		}
		mu.Lock()
		both = len(versions) >= 2
		mu.Unlock()
		p.Case(key, both)
		p.Count("sessions", 1)
		p.Count("slow_log_calls", atomic.LoadInt64(&hits))
		if both {
			p.Count("sessions_with_both_versions_handed_in_concurrently", 1)
		}
		if e.Property == "C02" && sig != "" && !strings.HasPrefix(sig, "agreement") {
			sig = ""
		}
		if sig != "" {
			p.Violate(sig, key+": "+what, map[string]interface{}{"n": N, "sign": sign, "index": i})
		}
		if i%37 == 0 {
			p.Sample(map[string]interface{}{"case": key, "slow_log_calls": atomic.LoadInt64(&hits)})
		}
	}
}

// ---------------- C04 with very short protocol messages ----------------

// tinyBackend: a protocol whose messages are 0..3 bytes long (one round; one broadcast and one point-to-point message per peer).
type tinyBackend struct {
	size    int
	self    uint16
	parties []uint16
	send    func([]byte, bool, uint16)
	mu      sync.Mutex
	cond    *sync.Cond
	got     map[string]int // "b/<from>" or "p/<from>"
	empty   []string       // hand-overs of zero-length messages ("<from>/<bcast>")
}

func newTiny(size int, self uint16) *tinyBackend {
	t := &tinyBackend{size: size, self: self, got: map[string]int{}}
	t.cond = sync.NewCond(&t.mu)
	return t
}

func (t *tinyBackend) payload(bcast bool) []byte {
	b := []byte{0xA0, 0x11, 0x22}
	if bcast {
		b[0] = 0xB0
	}
	return b[:t.size]
}

func (t *tinyBackend) ClassifyMsg(m []byte) (uint8, bool, error) {
	switch {
	case len(m) == 0:
		return 1, true, nil // size 0 is used with broadcasts only
	case m[0] == 0xB0:
		return 1, true, nil
	case m[0] == 0xA0:
		return 1, false, nil
	}
	return 0, false, fmt.Errorf("unknown message")
}

func (t *tinyBackend) Init(parties []uint16, threshold int, send func([]byte, bool, uint16)) {
	t.parties = append([]uint16{}, parties...)
	t.send = send
}

func (t *tinyBackend) OnMsg(m []byte, from uint16, bcast bool) {
	t.mu.Lock()
	if len(m) == 0 {
		t.empty = append(t.empty, fmt.Sprintf("from %d, broadcast=%v", from, bcast))
		t.cond.Broadcast()
		t.mu.Unlock()
		return
	}
	if bcast {
		t.got[fmt.Sprintf("b/%d", from)]++
	} else {
		t.got[fmt.Sprintf("p/%d", from)]++
	}
	t.cond.Broadcast()
	t.mu.Unlock()
}

func (t *tinyBackend) complete() bool {
	for _, p := range t.parties {
		if p == t.self {
			continue
		}
		if t.got[fmt.Sprintf("b/%d", p)] == 0 || (t.size > 0 && t.got[fmt.Sprintf("p/%d", p)] == 0) {
			return false
		}
	}
	return true
}

func (t *tinyBackend) run(ctx context.Context) error {
	t.send(t.payload(true), true, 0)
	if t.size > 0 {
		for _, p := range t.parties {
			if p != t.self {
				t.send(t.payload(false), false, p)
			}
		}
	}
	stop := make(chan struct{})
	defer close(stop)
	go func() {
		select {
		case <-ctx.Done():
			t.mu.Lock()
			t.cond.Broadcast()
			t.mu.Unlock()
		case <-stop:
		}
	}()
	t.mu.Lock()
	defer t.mu.Unlock()
	for !t.complete() {
		if ctx.Err() != nil {
			return ctx.Err()
		}
		t.cond.Wait()
	}
	return nil
}

func (t *tinyBackend) KeyGen(ctx context.Context) ([]byte, error) {
	if err := t.run(ctx); err != nil {
		return nil, err
	}
	return []byte("share-tiny"), nil
}
func (t *tinyBackend) SetShareData([]byte) error { return nil }
func (t *tinyBackend) Sign(ctx context.Context, msg []byte) ([]byte, error) {
	if err := t.run(ctx); err != nil {
		return nil, err
	}
	return append([]byte("sig|"), msg...), nil
}
func (t *tinyBackend) ThresholdPK() ([]byte, error) { return []byte("tpk"), nil }

// unitC04tiny: all-honest sessions whose protocol messages are 1, 2 and 3 bytes long.
func unitC04tiny(e common.Env, p *common.Part) {
	p.Rule = "all-honest key generation and signing sessions of real Loud / barrier / silent schemes, N = 2..4, random mode, with a backend whose messages are 1, 2 or 3 bytes long (one broadcast and one point-to-point message per peer; broadcasts of all parties are byte-identical); oracle: every call returns nil and every backend was handed every peer's broadcast and point-to-point message exactly once; distinct key = (size, N, mode, operation); non-trivial always"
	idx := 0
	// size 0 is not exercised: inside the orchestrator an EMPTY payload is what marks an acknowledgement (rbcMsg.Ack), and C03 demands
	// that a hand-over is never empty; an empty protocol message is therefore outside the domain of C03/C04 (DESIGN.md section 4)
	for _, size := range []int{1, 2, 3} {
		for N := 2; N <= 4; N++ {
			for _, mode := range []string{"loud", "barrier", "silent"} {
				for _, sign := range []bool{false, true} {
					idx++
					if !e.Mine(idx) || p.ViolationCount() >= 3 {
						continue
					}
					key := fmt.Sprintf("%d-byte messages N=%d %s sign=%v", size, N, mode, sign)
					p.Begin(key)
					var ids []uint16
					for k := 1; k <= N; k++ {
						ids = append(ids, uint16(k))
					}
					var bmu sync.Mutex
					backs := map[uint16]*tinyBackend{}
					mkb := func(node uint16) *tinyBackend {
						b := newTiny(size, node)
						bmu.Lock()
						backs[node] = b
						bmu.Unlock()
						return b
					}
					attempt := func(timeout time.Duration) (map[uint16]error, time.Duration, time.Duration) {
						bmu.Lock()
						backs = map[uint16]*tinyBackend{}
						bmu.Unlock()
						c := newRCluster(cluster.Config{Map: identityMap(ids...), Silent: mode == "silent", Barrier: mode == "barrier", Threshold: N - 1,
							KGF: func(node uint16) tss.KeyGenerator { return mkb(node) }, SF: func(node uint16) tss.Signer { return mkb(node) }}, e.Rng("c04tiny", idx), simnet.Uniform)
						defer c.Stop()
						for _, u := range ids {
							c.Schemes[u].SetStoredData([]byte("share-tiny"))
						}
						res := c.run(sessCfg{Callers: ids, Sign: sign, Topic: "tiny-topic", Digest: []byte("0123456789abcdef0123456789abcdef"), Timeout: timeout})
						return res.Errs, res.Elapsed, res.QuietAtFirstReturn
					}
					timeout := 4 * time.Second
					errs, elapsed, quiet := attempt(timeout)
					failed := func(errs map[uint16]error) string {
						for _, u := range ids {
							if errs[u] != nil {
								return fmt.Sprintf("node %d: %v", u, errs[u])
							}
						}
						return ""
					}
					what := failed(errs)
					if what != "" && elapsed >= timeout && quiet < 2*time.Second {
						errs, _, _ = attempt(4 * timeout)
						what = failed(errs)
						p.Count("watchdog_replays", 1)
					} else if what != "" && elapsed >= timeout {
						what += fmt.Sprintf(" (the network had been empty and silent for %v when the deadline fired)", quiet.Round(100*time.Millisecond))
					}
					if what == "" {
						bmu.Lock()
						for _, u := range ids {
							b := backs[u]
							if b == nil {
								continue
							}
							b.mu.Lock()
							for _, f := range ids {
								if f == u {
									continue
								}
								if n := b.got[fmt.Sprintf("b/%d", f)]; n != 1 && what == "" {
									what = fmt.Sprintf("the %d-byte broadcast of party %d was handed over %d times at node %d", size, f, n, u)
								}
								if n := b.got[fmt.Sprintf("p/%d", f)]; size > 0 && n != 1 && what == "" {
									what = fmt.Sprintf("the %d-byte point-to-point message of party %d was handed over %d times at node %d", size, f, n, u)
								}
							}
							b.mu.Unlock()
						}
						bmu.Unlock()
					}
					p.Case(key, true)
					p.Count("sessions", 1)
					if what != "" {
						p.Violate("totality/short-messages", key+": "+what, map[string]interface{}{"size": size, "n": N, "mode": mode, "sign": sign})
					}
				}
			}
		}
	}
}

// unitC03marker: a session member sends frames that consist of the framing marker alone (no payload), on the topic of a live
// session, to every other party, right before its genuine transmissions. The backend's classifier accepts a zero-length input
// (as the repository's own test backends do), so whether such a frame is handed over is decided by the orchestrator alone.
func unitC03marker(e common.Env, p *common.Part) {
	p.Rule = "key generation and signing sessions of real Loud / barrier schemes, N = 3,4, random mode, backend with 1..2-byte messages whose classifier accepts a zero-length input as a broadcast; one session member additionally sends, on the live topic and to every other party, frames that consist of the first (framing) byte alone - 0x80, 0x81, 0xC0, 0xFF - and two-byte frames 0x00 0x00 / 0x7F 0xFF (too short for an acknowledgement), right before its own first genuine transmission; oracle: no backend is ever handed a zero-length message, every genuine message is handed over exactly once and every call returns nil; distinct key = (N, mode, operation, size, frame set); non-trivial when the frames were injected into a live session"
	idx := 0
	frameSets := [][][]byte{{{0xFF}}, {{0x80}}, {{0x81}, {0xC0}}, {{0xFF}, {0xFF}}, {{0x00, 0x00}, {0x7F, 0xFF}, {0x80}}}
	for _, size := range []int{1, 2} {
		for N := 3; N <= 4; N++ {
			for _, mode := range []string{"loud", "barrier"} {
				for _, sign := range []bool{false, true} {
					for fi, frames := range frameSets {
						idx++
						if !e.Mine(idx) || p.ViolationCount() >= 3 {
							continue
						}
						key := fmt.Sprintf("%d-byte messages N=%d %s sign=%v marker frames #%d", size, N, mode, sign, fi)
						p.Begin(key)
						var ids []uint16
						for k := 1; k <= N; k++ {
							ids = append(ids, uint16(k))
						}
						B := ids[idx%N]
						var bmu sync.Mutex
						backs := map[uint16]*tinyBackend{}
						mkb := func(node uint16) *tinyBackend {
							b := newTiny(size, node)
							bmu.Lock()
							backs[node] = b
							bmu.Unlock()
							return b
						}
						c := newRCluster(cluster.Config{Map: identityMap(ids...), Barrier: mode == "barrier", Threshold: N - 1,
							KGF: func(node uint16) tss.KeyGenerator { return mkb(node) }, SF: func(node uint16) tss.Signer { return mkb(node) }}, e.Rng("c03marker", idx), simnet.Uniform)
						for _, u := range ids {
							c.Schemes[u].SetStoredData([]byte("share-tiny"))
						}
						var once sync.Once
						injected := int32(0)
						c.Net.SetInterceptor(B, func(nw *simnet.Net, src uint16, typ uint8, tp, data []byte, dsts []uint16) []simnet.Outgoing {
							if typ == uint8(tss.MsgTypeMPC) {
								once.Do(func() {
									for _, f := range frames {
										for _, d := range ids {
											if d != B {
												nw.Inject(B, simnet.Outgoing{Dst: d, Type: typ, Topic: tp, Data: f})
												atomic.AddInt32(&injected, 1)
											}
										}
									}
								})
							}
							var o []simnet.Outgoing
							for _, d := range dsts {
								o = append(o, simnet.Outgoing{Dst: d, Type: typ, Topic: tp, Data: data})
							}
							return o
						})
						timeout := 4 * time.Second
						res := c.run(sessCfg{Callers: ids, Sign: sign, Topic: "marker-topic", Digest: []byte("0123456789abcdef0123456789abcdef"), Timeout: timeout})
						c.drain(50 * time.Millisecond)
						what, sig := "", ""
						bmu.Lock()
						for _, u := range ids {
							if b := backs[u]; b != nil {
								b.mu.Lock()
								if len(b.empty) > 0 && what == "" {
									sig, what = "integrity/empty-handover/marker-only-frame", fmt.Sprintf("the backend of node %d was handed a zero-length message (%s) after party %d sent frames that consist of the framing byte alone", u, b.empty[0], B)
								}
								for _, f := range ids {
									if f != u && what == "" && res.Errs[u] == nil {
										if n := b.got[fmt.Sprintf("b/%d", f)]; n != 1 {
											sig, what = "integrity/handed-over-twice-or-never/marker-only-frame", fmt.Sprintf("the broadcast of party %d was handed over %d times at node %d", f, n, u)
										}
									}
								}
								b.mu.Unlock()
							}
						}
						bmu.Unlock()
						if what == "" {
							for _, u := range ids {
								if res.Errs[u] != nil && (res.Elapsed < timeout || res.QuietAtFirstReturn >= 2*time.Second) {
									sig, what = "session-disturbed/marker-only-frame", fmt.Sprintf("node %d: %v although the only deviation were frames without a payload from party %d", u, res.Errs[u], B)
									break
								} else if res.Errs[u] != nil {
									p.Count("undecided_deadlines", 1)
									break
								}
							}
						}
						c.Stop()
						inj := atomic.LoadInt32(&injected)
						p.Case(key, inj > 0)
						p.Count("sessions", 1)
						p.Count("marker_only_frames_injected", int64(inj))
						if what != "" {
							p.Violate(sig, key+": "+what, map[string]interface{}{"size": size, "n": N, "mode": mode, "sign": sign, "frames": fmt.Sprintf("%x", frames), "byzantine": B})
						}
					}
				}
			}
		}
	}
}

// unitC04conc: fault-free sessions on a transport that dispatches concurrently (one dispatcher goroutine per link, as the bundled
// TLS transport has one reader per peer): the broadcasts of all parties are large and of different lengths and are transmitted at
// the same moment, so every node handles two or more payload-carrying messages at overlapping times.
func unitC04conc(e common.Env, p *common.Part) {
	p.Rule = "all-honest scripted key generation and signing sessions of real Loud (barrier synchroniser) and Silent schemes on the simulated network in CONCURRENT mode (one dispatcher goroutine per link), N = 3..5, one or two rounds of broadcasts with point-to-point traffic in every second case; payloads of 64 KiB..1.5 MiB whose length differs per sender and round, all parties transmit at once; oracle: every call returns nil and every message was handed over exactly once everywhere; distinct key = (N, mode, operation, index); non-trivial always"
	p.Assumptions = append(p.Assumptions, "a session that misses its 8 s watchdog is judged only if the network had been empty and the event log silent for >= 2 s when the deadline fired; any other deadline is counted as undecided")
	n := e.Pick(40, 1500)
	for i := 0; i < n; i++ {
		if !e.Mine(i) || p.ViolationCount() >= 3 {
			continue
		}
		N := 3 + i%3
		var ids []uint16
		for k := 1; k <= N; k++ {
			ids = append(ids, uint16(k))
		}
		silent := (i/3)%2 == 1
		sign := (i/6)%2 == 1
		key := fmt.Sprintf("N=%d silent=%v sign=%v #%d", N, silent, sign, i)
		p.Begin(key)
		cc := cluster.New(cluster.Config{Map: identityMap(ids...), Barrier: !silent, Silent: silent, Threshold: N - 1})
		cc.Net.StartConcurrent()
		c := &rcluster{Cluster: cc}
		base := 1 << (16 + i%4)
		script := backend.Script{Rounds: []uint8{1, 2}[:1+i%2], Bcast: true, P2P: (i/2)%2 == 1, SenderFiller: func(snd uint16, r uint8, d uint16) int {
			if d != 0xffff {
				return 100 + int(d%13)
			}
			return base*(1+int(snd)%3) + 64*((i*7+int(r)*3+int(snd)*11)%50)
		}}
		timeout := 8 * time.Second
		sc := sessCfg{Callers: ids, Sign: sign, Topic: fmt.Sprintf("c04conc-%d", i), Digest: []byte("0123456789abcdef0123456789abcdef"), Script: script, Timeout: timeout}
		if sign {
			for _, u := range ids {
				c.Schemes[u].SetStoredData([]byte("share-of-x"))
			}
		}
		res := c.run(sc)
		sig, what := "", ""
		if u, err := allNil(res, ids); err != nil {
			if res.Elapsed >= timeout && res.QuietAtFirstReturn < 2*time.Second {
				p.Count("undecided_deadlines", 1)
			} else {
				sig, what = "session-failed", fmt.Sprintf("node %d: %v", u, err)
				if res.Elapsed >= timeout {
					what += fmt.Sprintf(" (the network had been empty and silent for %v when the deadline fired)", res.QuietAtFirstReturn.Round(100*time.Millisecond))
				}
			}
		} else {
			sig, what = sessionTotality(c, sc, res)
		}
		if len(res.Panics) > 0 {
			sig, what = "panic", res.Panics[0]
		}
		c.Stop()
		p.Case(key, true)
		p.Count("sessions", 1)
		p.Count("dispatcher_goroutines", int64(cc.Net.LinkCount()))
		if sig != "" {
			p.Violate("totality/concurrent-dispatch/"+sig, key+": "+what, map[string]interface{}{"n": N, "silent": silent, "sign": sign, "index": i})
		}
	}
}
