package main

// C10 — nothing received from a peer or client can crash or wedge a node (core packages).
// A structure-aware corpus is captured from honest runs of THIS build (every sync message type, MPC payloads,
// acknowledgements), mutated, and fed to the dispatcher (loud and silent), the silent-mode buffer and the
// synchroniser in the session states idle / synchronising / protocol running / finished. A panic kills the child
// (the parent names the batch and the crash site); a call that does not return is a hang; after hostile input from
// non-participants the honest session must still complete.

import (
	"context"
	"fmt"
	"math/rand"
	"sync"
	"time"

	disc "github.com/IBM/TSS/disc"
	"github.com/IBM/TSS/msg"
	tss "github.com/IBM/TSS/types"

	"verifharness/backend"
	"verifharness/cluster"
	"verifharness/common"
	"verifharness/fuzz"
	"verifharness/simnet"
)

type rawPkt struct {
	Type  uint8
	Topic []byte
	Data  []byte
	Src   uint16
}

// captureCorpus runs honest sessions and returns the distinct packets they produced (by type and first bytes).
func captureCorpus(silent bool, rng *rand.Rand) []rawPkt {
	ids := []uint16{1, 2, 3}
	c := newRCluster(cluster.Config{Map: identityMap(1, 2, 3, 40), Silent: silent, Threshold: 2, Nodes: ids}, rng, simnet.Uniform)
	defer c.Stop()
	var mu sync.Mutex
	seen := map[string]bool{}
	var corpus []rawPkt
	for _, u := range ids {
		u := u
		c.Net.SetInterceptor(u, func(n *simnet.Net, src uint16, typ uint8, topic, data []byte, dsts []uint16) []simnet.Outgoing {
			k := fmt.Sprintf("%d/%d/%x", typ, len(data), data[:min(2, len(data))])
			mu.Lock()
			if !seen[k] && len(corpus) < 60 {
				seen[k] = true
				corpus = append(corpus, rawPkt{typ, append([]byte{}, topic...), append([]byte{}, data...), src})
			}
			mu.Unlock()
			var o []simnet.Outgoing
			for _, d := range dsts {
				o = append(o, simnet.Outgoing{Dst: d, Type: typ, Topic: topic, Data: data})
			}
			return o
		})
	}
	script := backend.Script{Rounds: []uint8{1, 2}, Bcast: true, P2P: true, Filler: func(r uint8, d uint16) int { return int(d%3) * 20 }}
	c.run(sessCfg{Callers: ids, Script: script, Timeout: 5 * time.Second})
	for _, u := range ids {
		c.Schemes[u].SetStoredData([]byte("share-of-x"))
	}
	c.run(sessCfg{Callers: ids, Sign: true, Topic: "corpus-topic", Digest: []byte("digest-0123456789abcdef0123456789"), Script: script, Timeout: 5 * time.Second})
	mu.Lock()
	defer mu.Unlock()
	return corpus
}

// hostileInputs derives (type, topic, data) triples from the corpus.
func hostileInputs(corpus []rawPkt, rng *rand.Rand, perSeed int) []rawPkt {
	var out []rawPkt
	for _, pk := range corpus {
		for _, m := range fuzz.Basic(pk.Data, 40, rng, perSeed) {
			out = append(out, rawPkt{pk.Type, pk.Topic, m, pk.Src})
		}
		// hostile topics with the valid data, and with short data
		for _, t := range fuzz.Topics(pk.Topic) {
			out = append(out, rawPkt{pk.Type, t, pk.Data, pk.Src})
			out = append(out, rawPkt{pk.Type, t, pk.Data[:min(3, len(pk.Data))], pk.Src})
			out = append(out, rawPkt{pk.Type, t, nil, pk.Src})
		}
		// unknown message types
		for _, ty := range []uint8{0, 3, 7, 128, 255} {
			out = append(out, rawPkt{ty, pk.Topic, pk.Data, pk.Src})
		}
		// nil topic
		out = append(out, rawPkt{pk.Type, nil, pk.Data, pk.Src})
	}
	return out
}

// feed hands every input to h under each of the sources; returns false if the batch did not finish within the watchdog.
func feed(h simnet.Handler, inputs []rawPkt, sources []uint16, watchdog time.Duration) (int, bool) {
	done := make(chan int, 1)
	go func() {
		n := 0
		for _, in := range inputs {
			for _, s := range sources {
				h.HandleMessage(&tss.IncMessage{MsgType: in.Type, Topic: append([]byte{}, in.Topic...), Data: append([]byte{}, in.Data...), Source: s})
				n++
			}
		}
		done <- n
	}()
	select {
	case n := <-done:
		return n, true
	case <-time.After(watchdog):
		return 0, false
	}
}

func unitC10core(e common.Env, p *common.Part) {
	p.Rule = "corpus captured from honest loud and silent sessions of this build (sync: membership / query / response; MPC: payloads of both classes and rounds, acknowledgements), mutated: every prefix length, extension by 1..3 bytes, each of the first 40 bytes replaced by {00,01,7f,80,ff}, bit flips, empty and 1-byte inputs, topics of length 0..8,31,33,64 and nil, unknown message types; fed to MpcParty.HandleMessage (loud and silent) in the states idle / synchronising / protocol running / finished from a participant, a member outside the session and a non-member (and, in two further targets, every input from ALL other participants on the live topic, judged for survival only), to msg.Box.HandleMessage and to disc.Member.HandleMessage with a live Synchronize; oracle: the child survives, every batch returns within 30 s, and after hostile input from non-participants (and from a participant on other topics) the honest session completes everywhere; distinct key = (entry point, state, source class, input hash); non-trivial when the input differs from every corpus member"
	perSeed := e.Pick(160, 0)
	type target struct {
		name string
		run  func(rng *rand.Rand, inputs []rawPkt) (sig, what string, calls int)
	}
	livePhase := func(silent bool) func(rng *rand.Rand, inputs []rawPkt) (string, string, int) {
		return func(rng *rand.Rand, inputs []rawPkt) (string, string, int) {
			// protocol running: everybody called KeyGen and transmitted its whole script; nothing delivered yet
			ids := []uint16{1, 2, 3}
			sc := backend.Script{Rounds: []uint8{1, 2}, Bcast: true, P2P: true, AllAtOnce: true}
			c := cluster.New(cluster.Config{Map: identityMap(1, 2, 3, 40), Silent: silent, Barrier: !silent, Threshold: 2, Script: sc, Nodes: ids})
			if silent {
				c.SetPick(tss.DkgTopicName, ids)
			}
			ctx, cancel := context.WithTimeout(context.Background(), 60*time.Second)
			defer cancel()
			errs := map[uint16]error{}
			var mu sync.Mutex
			var wg sync.WaitGroup
			for _, u := range ids {
				u := u
				wg.Add(1)
				go func() {
					defer wg.Done()
					_, err := c.Schemes[u].KeyGen(ctx, 3, 2)
					mu.Lock()
					errs[u] = err
					mu.Unlock()
				}()
			}
			for _, u := range ids {
				for c.LastBackend(u) == nil {
					time.Sleep(100 * time.Microsecond)
				}
				<-c.LastBackend(u).Started
			}
			calls := 0
			// hostile input from non-participants on every topic, and from participant 2 on topics other than the live one
			var foreign, otherTopic []rawPkt
			for _, in := range inputs {
				foreign = append(foreign, in)
				if string(in.Topic) != string(dkgTopic) {
					otherTopic = append(otherTopic, in)
				}
			}
			for _, u := range ids {
				n, ok := feed(c.Schemes[u], foreign, []uint16{40, 77}, 30*time.Second)
				if !ok {
					return "hang/dispatcher-running", "a batch of hostile messages from non-participants was not processed within 30 s", calls
				}
				calls += n
				n, ok = feed(c.Schemes[u], otherTopic, []uint16{2}, 30*time.Second)
				if !ok {
					return "hang/dispatcher-running", "a batch of hostile messages on other topics was not processed within 30 s", calls
				}
				calls += n
			}
			// service continuity: the honest traffic is delivered now, the session must complete everywhere
			for {
				en := c.Net.Enabled()
				if len(en) == 0 {
					break
				}
				c.Net.Step(en[rng.Intn(len(en))])
			}
			done := make(chan struct{})
			go func() { wg.Wait(); close(done) }()
			select {
			case <-done:
			case <-time.After(20 * time.Second):
				return "wedged/session-after-hostile-input", "after hostile input from non-participants the honest key generation did not complete within 20 s", calls
			}
			for u, err := range errs {
				if err != nil {
					return "wedged/session-after-hostile-input", fmt.Sprintf("after hostile input from non-participants the honest key generation failed at node %d: %v", u, err), calls
				}
			}
			return "", "", calls
		}
	}
	// protocol running, hostile input from the OTHER PARTICIPANTS on the live topic: every input is sent by each of them (so that
	// whatever needs the agreement of all peers gets it). Participants may legitimately ruin their own session (equivocation is
	// detected, the session ends with an error), so only survival is judged: no crash, no hang, every call returns.
	liveParticipants := func(n int, sign bool) func(rng *rand.Rand, inputs []rawPkt) (string, string, int) {
		return func(rng *rand.Rand, inputs []rawPkt) (string, string, int) {
			var ids []uint16
			for k := 1; k <= n; k++ {
				ids = append(ids, uint16(k))
			}
			sc := backend.Script{Rounds: []uint8{1, 2}, Bcast: true, P2P: true, AllAtOnce: true, Hold: true}
			c := cluster.New(cluster.Config{Map: identityMap(1, 2, 3, 40), Barrier: true, Threshold: n - 1, Script: sc, Nodes: ids})
			ctx, cancel := context.WithCancel(context.Background())
			defer cancel()
			var wg sync.WaitGroup
			topic := dkgTopic
			if sign {
				topic = cluster.Hash([]byte("c10-live-sign"))
			}
			for _, u := range ids {
				u := u
				c.Schemes[u].SetStoredData([]byte("share-of-x"))
				wg.Add(1)
				go func() {
					defer wg.Done()
					if sign {
						c.Schemes[u].Sign(ctx, []byte("digest-0123456789abcdef0123456789"), "c10-live-sign")
					} else {
						c.Schemes[u].KeyGen(ctx, n, n-1)
					}
				}()
			}
			for _, u := range ids {
				for c.LastBackend(u) == nil {
					time.Sleep(100 * time.Microsecond)
				}
				<-c.LastBackend(u).Started
			}
			// all inputs re-targeted at the live topic (the corpus' own topics belong to other sessions)
			var live []rawPkt
			for _, in := range inputs {
				if in.Type == uint8(tss.MsgTypeMPC) {
					live = append(live, rawPkt{in.Type, topic, in.Data, in.Src})
				}
			}
			n1, ok := feed(c.Schemes[1], live, ids[1:], 30*time.Second)
			if !ok {
				return "hang/dispatcher-running", "a batch of hostile messages from the other participants was not processed within 30 s", n1
			}
			cancel()
			done := make(chan struct{})
			go func() { wg.Wait(); close(done) }()
			select {
			case <-done:
			case <-time.After(20 * time.Second):
				return "hang/session-after-hostile-input", "after hostile input from the other participants a call had not returned 20 s after its context was cancelled", n1
			}
			return "", "", n1
		}
	}
	otherStates := func(silent bool, state string) func(rng *rand.Rand, inputs []rawPkt) (string, string, int) {
		return func(rng *rand.Rand, inputs []rawPkt) (string, string, int) {
			ids := []uint16{1, 2, 3}
			c := newRCluster(cluster.Config{Map: identityMap(1, 2, 3, 40), Silent: silent, Threshold: 2, Nodes: ids, Script: backend.Script{Rounds: []uint8{1}, Bcast: true, P2P: true}}, rng, simnet.Uniform)
			defer c.Stop()
			var cancelSync context.CancelFunc
			switch state {
			case "synchronising":
				ctx, cn := context.WithCancel(context.Background())
				cancelSync = cn
				defer cn()
				go c.Schemes[1].KeyGen(ctx, 3, 2)
				time.Sleep(5 * time.Millisecond)
			case "finished":
				res := c.run(sessCfg{Callers: ids, Script: c.Cfg.Script, Timeout: 5 * time.Second})
				if _, err := allNil(res, ids); err != nil {
					return "", "", 0
				}
			}
			calls := 0
			n, ok := feed(c.Schemes[1], inputs, []uint16{2, 40, 77}, 30*time.Second)
			if !ok {
				return "hang/dispatcher-" + state, "a batch of hostile messages was not processed within 30 s", calls
			}
			calls += n
			if cancelSync != nil {
				cancelSync()
				time.Sleep(2 * time.Millisecond)
			}
			// service continuity: an honest signing session on a fresh topic involving the fuzzed node
			for _, u := range ids {
				c.Schemes[u].SetStoredData([]byte("share-of-x"))
			}
			res := c.run(sessCfg{Callers: ids, Sign: true, Topic: "after-fuzz-" + state, Digest: []byte("digest-0123456789abcdef0123456789"), Script: c.Cfg.Script, Timeout: 8 * time.Second})
			if u, err := allNil(res, ids); err != nil {
				res = c.run(sessCfg{Callers: ids, Sign: true, Topic: "after-fuzz-again-" + state, Digest: []byte("digest-0123456789abcdef0123456789"), Script: c.Cfg.Script, Timeout: 30 * time.Second})
				if u2, err2 := allNil(res, ids); err2 != nil {
					return "wedged/service-after-hostile-input", fmt.Sprintf("after hostile input in state %s an honest signing session failed at node %d (%v) and again at node %d (%v)", state, u, err, u2, err2), calls
				}
			}
			return "", "", calls
		}
	}
	boxTarget := func(rng *rand.Rand, inputs []rawPkt) (string, string, int) {
		h := &recHandler{}
		b := &msg.Box{Logger: common.Nolog{}, MaxInFlightTopicsBySender: 3, GCSweep: time.Hour, GCExpire: 4 * time.Hour, NewTicker: time.NewTicker,
			ForwardSend: func(uint8, []byte, []byte, ...tss.UniversalID) {}, MessageHandler: h}
		defer b.Stop()
		calls := 0
		for round := 0; round < 3; round++ {
			n, ok := feed(b, inputs, []uint16{2, 77}, 30*time.Second)
			if !ok {
				return "hang/msgbox", "msg.Box did not process a batch within 30 s", calls
			}
			calls += n
			// start a few of the topics (short and nil ones included)
			for i, in := range inputs {
				if i%37 == round {
					b.Send(uint8(tss.MsgTypeMPC), in.Topic, []byte("out"), 9)
				}
			}
		}
		// more than the per-topic limit from one sender on a short topic
		for i := 0; i < 130; i++ {
			b.HandleMessage(&tss.IncMessage{MsgType: uint8(tss.MsgTypeMPC), Topic: []byte{1, 2}, Source: 5, Data: []byte{byte(i)}})
			calls++
		}
		b.Send(uint8(tss.MsgTypeMPC), []byte{1, 2}, nil, 9)
		return "", "", calls
	}
	discTarget := func(rng *rand.Rand, inputs []rawPkt) (string, string, int) {
		universe := []uint16{1, 2, 3, 300}
		net := newDnet(universe, rng)
		defer net.close()
		ctx, cancel := context.WithTimeout(context.Background(), 6*time.Second)
		defer cancel()
		var wg sync.WaitGroup
		topic := topicFor("c10-disc", 0)
		var members []*dinst
		for _, id := range []uint16{1, 2, 3} {
			in := net.add(id, "honest", true)
			members = append(members, in)
		}
		// member 1 synchronises alone first (hostile input arrives while it collects views)
		net.start(ctx, &wg, members[0], topic, 3, 2*time.Millisecond)
		time.Sleep(3 * time.Millisecond)
		calls := 0
		done := make(chan bool, 1)
		go func() {
			for _, in := range inputs {
				if in.Type != uint8(tss.MsgTypeSync) && len(in.Data) > 0 && calls%3 != 0 {
					// MPC payloads are hostile input for the synchroniser as well, but thin them out
				}
				for _, s := range []uint16{2, 300, 77} {
					members[0].m.HandleMessage(s, append([]byte{}, in.Data...))
					calls++
				}
			}
			done <- true
		}()
		select {
		case <-done:
		case <-time.After(30 * time.Second):
			return "hang/disc.HandleMessage", "the synchroniser did not process a batch of hostile messages within 30 s", calls
		}
		// service continuity: the other two members join, everybody must complete
		net.start(ctx, &wg, members[1], topic, 3, 2*time.Millisecond)
		net.start(ctx, &wg, members[2], topic, 3, 2*time.Millisecond)
		wg.Wait()
		if c := honestCompletions(net); c != 3 {
			return "wedged/synchronisation-after-hostile-input", fmt.Sprintf("after hostile input from a member, a member outside and a non-member only %d of 3 members completed", c), calls
		}
		return "", "", calls
	}
	targets := []target{
		{"dispatcher loud, protocol running", livePhase(false)},
		{"dispatcher silent, protocol running", livePhase(true)},
		{"dispatcher loud, key generation of 3 running, every input from both other participants on the live topic", liveParticipants(3, false)},
		{"dispatcher loud, signing session of 2 running, every input from the other participant on the live topic", liveParticipants(2, true)},
		{"dispatcher loud, idle", otherStates(false, "idle")},
		{"dispatcher loud, synchronising", otherStates(false, "synchronising")},
		{"dispatcher loud, finished", otherStates(false, "finished")},
		{"dispatcher silent, idle", otherStates(true, "idle")},
		{"dispatcher silent, finished", otherStates(true, "finished")},
		{"msg.Box", boxTarget},
		{"disc.Member with a live Synchronize", discTarget},
	}
	rngC := e.Rng("c10corpus")
	corpus := append(captureCorpus(false, rngC), captureCorpus(true, rngC)...)
	p.Note("corpus_size", len(corpus))
	if len(corpus) < 6 {
		p.Inconcl("the corpus capture produced fewer than 6 distinct messages")
		return
	}
	kinds := map[string]int{}
	for _, c := range corpus {
		kinds[fmt.Sprintf("type%d", c.Type)]++
	}
	p.Note("corpus_kinds", kinds)
	inputs := hostileInputs(corpus, e.Rng("c10inputs"), perSeed)
	p.Note("hostile_inputs", len(inputs))
	// split the inputs into batches; each (target, batch) is a case
	batch := 1500
	idx := 0
	for ti, t := range targets {
		for off := 0; off < len(inputs); off += batch {
			idx++
			if !e.Mine(idx) || p.ViolationCount() >= 3 {
				continue
			}
			end := min(off+batch, len(inputs))
			key := fmt.Sprintf("%s inputs[%d:%d]", t.name, off, end)
			p.Begin(key)
			sig, what, calls := t.run(e.Rng("c10", ti, off), inputs[off:end])
			for i := off; i < end; i += 1 {
				p.Case(fmt.Sprintf("%s/%x", t.name, common.H(string(inputs[i].Data)+string(inputs[i].Topic)+fmt.Sprint(inputs[i].Type))), true)
			}
			p.Count("calls", int64(calls))
			p.Count("batches", 1)
			if sig != "" {
				p.Violate(sig, key+": "+what, map[string]interface{}{"target": t.name, "inputs_from": off, "inputs_to": end})
			}
			if idx%11 == 0 {
				in := inputs[off]
				p.Sample(map[string]interface{}{"target": t.name, "batch": fmt.Sprintf("[%d:%d]", off, end), "first_input": map[string]interface{}{"type": in.Type, "topic_len": len(in.Topic), "data_hex": fmt.Sprintf("%x", in.Data[:min(24, len(in.Data))]), "data_len": len(in.Data)}})
			}
		}
	}
	_ = disc.Member{}
}
