package main

// Disc-level network: real disc.Member objects wired directly (per-link FIFO, PRNG delays, real 1-2 ms
// probe ticker). A Byzantine member is one or more real Member instances under the same identifier with
// filtered inputs and re-routed outputs; outsiders replay captured transmissions.

import (
	"context"
	"fmt"
	"math/rand"
	"runtime"
	"sort"
	"strconv"
	"strings"
	"sync"
	"sync/atomic"
	"time"

	disc "github.com/IBM/TSS/disc"

	"verifharness/common"
)

type dinst struct {
	id       uint16
	tag      string
	honest   bool
	m        *disc.Member
	hears    func(src uint16) bool                // input filter (nil = hears everybody)
	speaksTo func(dst uint16) bool                // output routing (nil = everybody)
	dupTo    []uint16                             // every transmission is additionally sent to these members (same transport identity)
	rewrite  func(dst uint16, data []byte) []byte // the transmission is replaced (crafted peer lists under the instance's real tag)
	gid      uint64                               // goroutine that runs Synchronize
	// results
	mu     sync.Mutex
	lists  [][]uint16 // continuation invocations
	err    error
	done   bool
	called bool
}

type dpacket struct {
	src  uint16
	data []byte
}

type dnet struct {
	universe  []uint16
	insts     map[uint16][]*dinst
	imu       sync.RWMutex
	rng       *rand.Rand
	rmu       sync.Mutex
	links     map[[2]uint16]chan dpacket
	lmu       sync.Mutex
	maxDelay  time.Duration
	blocked   func(src, dst uint16) bool // partition: traffic held while true
	tap       func(src, dst uint16, data []byte)
	sent      sync.Map // id -> true once it transmitted anything
	inCall    sync.Map // goroutine key -> start time (HandleMessage in progress)
	callSeq   int64
	stop      chan struct{}
	wg        sync.WaitGroup
	delivered int64
}

func newDnet(universe []uint16, rng *rand.Rand) *dnet {
	return &dnet{universe: universe, insts: map[uint16][]*dinst{}, rng: rng, links: map[[2]uint16]chan dpacket{}, maxDelay: 600 * time.Microsecond, stop: make(chan struct{})}
}

func (n *dnet) rint(k int) int {
	n.rmu.Lock()
	defer n.rmu.Unlock()
	if k <= 0 {
		return 0
	}
	return n.rng.Intn(k)
}

func (n *dnet) add(id uint16, tag string, honest bool) *dinst {
	in := &dinst{id: id, tag: tag, honest: honest}
	in.m = &disc.Member{Membership: append([]uint16{}, n.universe...), ID: id, Logger: common.Nolog{}}
	in.m.Broadcast = func(b []byte) {
		for _, o := range n.universe {
			if o != id {
				n.transmit(in, o, b)
			}
		}
	}
	in.m.Send = func(b []byte, to uint16) { n.transmit(in, to, b) }
	n.imu.Lock()
	n.insts[id] = append(n.insts[id], in)
	n.imu.Unlock()
	return in
}

func (n *dnet) transmit(in *dinst, dst uint16, b []byte) {
	if in.speaksTo != nil && !in.speaksTo(dst) {
		return
	}
	n.sent.Store(in.id, true)
	if in.rewrite != nil {
		b = in.rewrite(dst, b)
		if b == nil {
			return
		}
	}
	n.inject(in.id, dst, b)
	for _, d := range in.dupTo {
		if d != dst {
			n.inject(in.id, d, b)
		}
	}
}

// inject puts a message on the link src->dst (also used by outsiders and replayers).
func (n *dnet) inject(src, dst uint16, b []byte) {
	select {
	case <-n.stop:
		return
	default:
	}
	n.link(src, dst) <- dpacket{src, append([]byte{}, b...)}
}

func (n *dnet) link(src, dst uint16) chan dpacket {
	n.lmu.Lock()
	defer n.lmu.Unlock()
	k := [2]uint16{src, dst}
	if c, ok := n.links[k]; ok {
		return c
	}
	c := make(chan dpacket, 2048)
	n.links[k] = c
	n.wg.Add(1)
	go func() {
		defer n.wg.Done()
		for {
			var pk dpacket
			select {
			case pk = <-c:
			case <-n.stop:
				return
			}
			if d := n.rint(int(n.maxDelay/time.Microsecond) + 1); d > 0 {
				time.Sleep(time.Duration(d) * time.Microsecond)
			}
			for n.blocked != nil && n.blocked(src, dst) {
				select {
				case <-n.stop:
					return
				case <-time.After(300 * time.Microsecond):
				}
			}
			if n.tap != nil {
				n.tap(src, dst, pk.data)
			}
			n.imu.RLock()
			targets := append([]*dinst{}, n.insts[dst]...)
			n.imu.RUnlock()
			for _, in := range targets {
				if in.hears != nil && !in.hears(src) {
					continue
				}
				key := atomic.AddInt64(&n.callSeq, 1)
				n.inCall.Store(key, time.Now())
				in.m.HandleMessage(src, pk.data)
				n.inCall.Delete(key)
				atomic.AddInt64(&n.delivered, 1)
			}
		}
	}()
	return c
}

// wedged reports a HandleMessage call that has been running for longer than d.
func (n *dnet) wedged(d time.Duration) bool {
	w := false
	n.inCall.Range(func(_, v interface{}) bool {
		if time.Since(v.(time.Time)) > d {
			w = true
			return false
		}
		return true
	})
	return w
}

func (n *dnet) close() {
	close(n.stop)
}

// start runs Synchronize on the instance.
func (n *dnet) start(ctx context.Context, wg *sync.WaitGroup, in *dinst, topic []byte, expected int, interval time.Duration) {
	in.called = true
	wg.Add(1)
	go func() {
		defer wg.Done()
		g := goroutineID()
		discHoldMu.Lock()
		discByGID[g] = in
		discHoldMu.Unlock()
		defer func() {
			discHoldMu.Lock()
			delete(discByGID, g)
			discHoldMu.Unlock()
		}()
		err := in.m.Synchronize(ctx, func(l []uint16) {
			in.mu.Lock()
			in.lists = append(in.lists, append([]uint16{}, l...))
			in.mu.Unlock()
		}, topic, expected, interval)
		in.mu.Lock()
		in.err = err
		in.done = true
		in.mu.Unlock()
	}()
}

// c07judge applies the safety oracles to the honest instances of a finished run.
// announced: members that transmitted on the topic (honest callers and Byzantine members that spoke).
func c07judge(n *dnet, expected int) (string, string) {
	inUniverse := map[uint16]bool{}
	for _, u := range n.universe {
		inUniverse[u] = true
	}
	type comp struct {
		id   uint16
		list []uint16
	}
	var comps []comp
	for _, ins := range n.insts {
		for _, in := range ins {
			if !in.honest || !in.called {
				continue
			}
			in.mu.Lock()
			lists, err, done := in.lists, in.err, in.done
			in.mu.Unlock()
			if !done {
				return "did-not-return", fmt.Sprintf("Synchronize of member %d has not returned after its context ended", in.id)
			}
			if len(lists) > 1 {
				return "continuation-twice", fmt.Sprintf("member %d: continuation invoked %d times", in.id, len(lists))
			}
			if len(lists) == 1 && err != nil {
				return "continuation-and-error", fmt.Sprintf("member %d: continuation invoked and error returned (%v)", in.id, err)
			}
			if len(lists) == 0 && err == nil {
				return "no-continuation-no-error", fmt.Sprintf("member %d returned nil without invoking the continuation", in.id)
			}
			if len(lists) == 1 {
				l := lists[0]
				if !sort.SliceIsSorted(l, func(i, j int) bool { return l[i] < l[j] }) {
					return "list-unsorted", fmt.Sprintf("member %d obtained the unsorted list %v", in.id, l)
				}
				seen := map[uint16]bool{}
				self := false
				for _, x := range l {
					if seen[x] {
						return "list-duplicate", fmt.Sprintf("member %d obtained a list with duplicates: %v", in.id, l)
					}
					seen[x] = true
					if x == in.id {
						self = true
					}
					if !inUniverse[x] {
						return "list-non-member", fmt.Sprintf("member %d obtained a list naming %d, which is not a configured member: %v", in.id, x, l)
					}
					if _, ok := n.sent.Load(x); !ok {
						return "list-silent-member", fmt.Sprintf("member %d obtained a list naming %d, which never transmitted on the topic: %v", in.id, x, l)
					}
				}
				if !self {
					return "list-without-self", fmt.Sprintf("member %d obtained a list that does not contain itself: %v", in.id, l)
				}
				if len(l) != expected {
					return "list-size", fmt.Sprintf("member %d obtained %d members, expected %d: %v", in.id, len(l), expected, l)
				}
				comps = append(comps, comp{in.id, l})
			}
		}
	}
	honestIDs := map[uint16]bool{}
	for _, c := range comps {
		honestIDs[c.id] = true
	}
	for _, p := range comps {
		for _, q := range comps {
			if p.id == q.id {
				continue
			}
			in := false
			for _, x := range p.list {
				if x == q.id {
					in = true
				}
			}
			if in && fmt.Sprint(p.list) != fmt.Sprint(q.list) {
				return "disagreement", fmt.Sprintf("member %d completed with %v, which names member %d, but that member completed with %v", p.id, p.list, q.id, q.list)
			}
		}
	}
	return "", ""
}

func honestCompletions(n *dnet) int {
	c := 0
	for _, ins := range n.insts {
		for _, in := range ins {
			if in.honest {
				in.mu.Lock()
				if len(in.lists) > 0 {
					c++
				}
				in.mu.Unlock()
			}
		}
	}
	return c
}

// ---- holds at the verif points of disc.Member.Synchronize ----

var (
	discHoldMu   sync.Mutex
	discByGID    = map[uint64]*dinst{}
	discHolds    = map[*dinst]*discHold{}
	discHookOnce sync.Once
)

type discHold struct {
	point   string
	arrived chan struct{} // closed when the instance reached the point
	release chan struct{} // closed by the harness
	hit     bool
}

func goroutineID() uint64 {
	var buf [64]byte
	n := runtime.Stack(buf[:], false)
	f := strings.Fields(strings.TrimPrefix(string(buf[:n]), "goroutine "))
	id, _ := strconv.ParseUint(f[0], 10, 64)
	return id
}

// holdAt arranges that the instance parks the first time its Synchronize reaches the verif point.
func holdAt(in *dinst, point string) *discHold {
	discHookOnce.Do(func() {
		disc.SetVerifHook(func(p string) {
			g := goroutineID()
			discHoldMu.Lock()
			in := discByGID[g]
			var h *discHold
			if in != nil {
				h = discHolds[in]
				if h != nil && (h.point != p || h.hit) {
					h = nil
				}
				if h != nil {
					h.hit = true
				}
			}
			discHoldMu.Unlock()
			if h != nil {
				close(h.arrived)
				<-h.release
			}
		})
	})
	h := &discHold{point: point, arrived: make(chan struct{}), release: make(chan struct{})}
	discHoldMu.Lock()
	discHolds[in] = h
	discHoldMu.Unlock()
	return h
}

func dropHold(in *dinst) {
	discHoldMu.Lock()
	delete(discHolds, in)
	discHoldMu.Unlock()
}
