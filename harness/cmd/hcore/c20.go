package main

// C20 — concurrent use of the public API is free of data races (scripted-backend part).
// -race build; simnet in concurrent mode (one dispatcher goroutine per link, PRNG micro-delays); the parent
// counts the race detector's reports from its log files.

import (
	"bytes"
	"context"
	"crypto/sha256"
	"fmt"
	"math/rand"
	"sync"
	"sync/atomic"
	"time"

	"github.com/IBM/TSS/msg"
	"github.com/IBM/TSS/threshold"
	tss "github.com/IBM/TSS/types"

	"verifharness/backend"
	"verifharness/cluster"
	"verifharness/common"
	"verifharness/simnet"
)

func jitter(seed int64) func(simnet.Link) {
	var ctr uint64
	return func(l simnet.Link) {
		x := atomic.AddUint64(&ctr, 0x9e3779b97f4a7c15) ^ uint64(seed)*0xbf58476d1ce4e5b9 ^ uint64(l.Src)<<16 ^ uint64(l.Dst)
		x ^= x >> 31
		switch x % 8 {
		case 0:
			time.Sleep(time.Duration(20+x%130) * time.Microsecond)
		case 1, 2:
			for i := uint64(0); i < x%4; i++ {
				runtimeGosched()
			}
		}
	}
}

func unitC20core(e common.Env, p *common.Part) {
	p.Rule = "race-detector build; real Loud/Silent schemes with scripted backends on the simulated network in concurrent mode (one dispatcher goroutine per link, PRNG micro-delays of 20..150 us and yields); scenarios: staggered first calls (peers' traffic reaches a node before and while its first KeyGen/Sign sets up), duplicated transmissions, 2-3 sessions at once on different topics, SetStoredData followed by Sign from another goroutine, cancelled sessions followed by new ones, key generations that complete while three signing sessions on other topics synchronise, four configured non-participants sending protocol-type messages on a live signing session's topic to both signers at once, signing sessions cancelled while one signer's continuation is held between the registration of its handlers and its second synchronisation (the continuation is let go after the calls have returned), four goroutines per node calling KeyGen and Sign on one scheme object with contexts that are over or end within microseconds, the synchronisation traffic of a finished key generation re-sent continuously from its origins while further key generations start (stale queries and announcements with valid tags reach a node before and while its Synchronize sets up); repeated because reports vary per run; distinct key = (scenario, repetition, delivery-order hash); non-trivial when >=2 dispatcher goroutines were active"
	reps := e.Pick(12, 120)
	scen := []string{"staggered-keygen-loud", "staggered-keygen-silent", "sign-concurrent-topics", "duplicates", "setdata-then-sign", "cancel-then-retry", "msgbox-with-ticking-clock", "stale-sync-flood-loud", "stale-sync-flood-silent", "api-calls-from-several-goroutines", "keygen-while-signing-on-other-topics", "sign-cancelled-between-its-synchronisations", "outsiders-during-sign"}
	idx := 0
	for r := 0; r < reps; r++ {
		for _, sc := range scen {
			idx++
			if !e.Mine(idx) {
				continue
			}
			rng := e.Rng("c20", sc, r)
			key := fmt.Sprintf("%s #%d", sc, r)
			p.Begin(key)
			oh, links := runC20core(sc, r, rng)
			p.Case(key+" order="+oh, links >= 2)
			p.Count("sessions", 1)
			p.Count("dispatcher_goroutines", int64(links))
			if idx%17 == 0 {
				p.Sample(map[string]interface{}{"scenario": sc, "repetition": r, "dispatcher_goroutines": links, "order_hash": oh})
			}
		}
	}
}

func runC20core(sc string, rep int, rng *rand.Rand) (string, int) {
	if sc == "msgbox-with-ticking-clock" {
		return runC20box(rep, rng)
	}
	n := 3 + rep%2
	var ids []uint16
	for i := 1; i <= n; i++ {
		ids = append(ids, uint16(i))
	}
	silent := sc == "staggered-keygen-silent" || sc == "stale-sync-flood-silent" || (sc == "sign-concurrent-topics" && rep%2 == 1)
	c := cluster.New(cluster.Config{Map: identityMapC(ids), Silent: silent, Threshold: n - 1, Script: backend.Script{Rounds: []uint8{1, 2}, Bcast: true, P2P: true}, FastBoxClock: 150 * time.Microsecond})
	c.Net.KeepData = false
	c.Net.Jitter = jitter(rng.Int63())
	c.Net.StartConcurrent()
	defer c.Net.Stop()
	if sc == "duplicates" {
		for _, u := range ids {
			c.Net.SetInterceptor(u, func(nw *simnet.Net, src uint16, typ uint8, topic, data []byte, dsts []uint16) []simnet.Outgoing {
				var o []simnet.Outgoing
				for _, d := range dsts {
					o = append(o, simnet.Outgoing{Dst: d, Type: typ, Topic: topic, Data: data})
					o = append(o, simnet.Outgoing{Dst: d, Type: typ, Topic: topic, Data: data, Tag: "dup"})
				}
				return o
			})
		}
	}
	ctx, cancel := context.WithTimeout(context.Background(), 6*time.Second)
	defer cancel()
	var wg sync.WaitGroup
	stag := func(u uint16) time.Duration {
		return time.Duration(int(u)*int(u)*(1+rng.Intn(3))) * 400 * time.Microsecond
	}
	keygen := func(cx context.Context) {
		script := c.Cfg.Script
		c.NextSession(&script)
		if silent {
			c.SetPick(tss.DkgTopicName, ids)
		}
		for _, u := range ids {
			u := u
			d := stag(u)
			wg.Add(1)
			go func() {
				defer wg.Done()
				time.Sleep(d)
				c.Schemes[u].KeyGen(cx, n, n-1)
			}()
		}
		wg.Wait()
	}
	sign := func(cx context.Context, topics ...string) {
		for _, t := range topics {
			if silent {
				c.SetPick(t, ids)
			}
			for _, u := range ids {
				u, t := u, t
				d := stag(u)
				wg.Add(1)
				go func() {
					defer wg.Done()
					time.Sleep(d)
					c.Schemes[u].Sign(cx, []byte("digest-0123456789abcdef0123456789"), t)
				}()
			}
		}
		wg.Wait()
	}
	switch sc {
	case "staggered-keygen-loud", "staggered-keygen-silent", "duplicates":
		keygen(ctx)
	case "sign-concurrent-topics":
		for _, u := range ids {
			c.Schemes[u].SetStoredData([]byte("share-of-x"))
		}
		sign(ctx, fmt.Sprintf("t1-%d", rep), fmt.Sprintf("t2-%d", rep), fmt.Sprintf("t3-%d", rep))
	case "setdata-then-sign":
		// the first API call of every node is Sign; the stored data is set from one goroutine and Sign issued from another
		done := make(chan struct{})
		go func() {
			for _, u := range ids {
				c.Schemes[u].SetStoredData([]byte("share-of-x"))
			}
			close(done)
		}()
		<-done
		sign(ctx, fmt.Sprintf("sd-%d", rep))
	case "stale-sync-flood-loud", "stale-sync-flood-silent":
		// the synchronisation traffic of a first key generation is captured and re-sent over and over (from its original
		// origins: the tags stay valid, the topic of a key generation is a constant) while further key generations start
		type rec struct {
			src uint16
			o   simnet.Outgoing
		}
		var cmu sync.Mutex
		var captured []rec
		capturing := int32(1)
		for _, u := range ids {
			c.Net.SetInterceptor(u, func(nw *simnet.Net, src uint16, typ uint8, topic, data []byte, dsts []uint16) []simnet.Outgoing {
				var o []simnet.Outgoing
				for _, d := range dsts {
					o = append(o, simnet.Outgoing{Dst: d, Type: typ, Topic: topic, Data: data})
				}
				if typ == uint8(tss.MsgTypeSync) && atomic.LoadInt32(&capturing) == 1 {
					cmu.Lock()
					for _, d := range dsts {
						if len(captured) < 400 {
							captured = append(captured, rec{src, simnet.Outgoing{Dst: d, Type: typ, Topic: append([]byte{}, topic...), Data: append([]byte{}, data...), Tag: "stale-sync"}})
						}
					}
					cmu.Unlock()
				}
				return o
			})
		}
		c1, cn1 := context.WithTimeout(ctx, 1500*time.Millisecond)
		keygen(c1)
		cn1()
		atomic.StoreInt32(&capturing, 0)
		cmu.Lock()
		stale := append([]rec{}, captured...)
		cmu.Unlock()
		stop := make(chan struct{})
		var fw sync.WaitGroup
		for _, u := range ids {
			u := u
			fw.Add(1)
			go func() {
				defer fw.Done()
				for {
					for _, r := range stale {
						if r.src != u {
							continue
						}
						select {
						case <-stop:
							return
						default:
						}
						c.Net.Inject(r.src, r.o)
						time.Sleep(25 * time.Microsecond)
					}
					select {
					case <-stop:
						return
					default:
						time.Sleep(50 * time.Microsecond)
					}
				}
			}()
		}
		for k := 0; k < 4; k++ {
			cx, cn := context.WithTimeout(ctx, 250*time.Millisecond)
			keygen(cx)
			cn()
		}
		close(stop)
		fw.Wait()
	case "outsiders-during-sign":
		// a six-node universe, two signers: while their session is live (one of them held right after its handlers were registered),
		// the four configured members that are NOT participants each send protocol-type messages on the session's topic to both
		// signers, one dispatcher goroutine per link - everything the refusal of such traffic touches is touched from several goroutines
		{
			all := []uint16{1, 2, 3, 4, 5, 6}
			c2 := cluster.New(cluster.Config{Map: identityMapC(all), Threshold: 1, Script: backend.Script{Rounds: []uint8{1}, Bcast: true, P2P: true}})
			c2.Net.KeepData = false
			c2.Net.StartConcurrent()
			for round := 0; round < 3; round++ {
				var parked int32
				release := make(chan struct{})
				threshold.SetVerifHook(func(pt string) {
					if pt == "sign.afterPrepare" && atomic.CompareAndSwapInt32(&parked, 0, 1) {
						<-release
					}
				})
				t := fmt.Sprintf("ods-%d-%d", rep, round)
				th := sha256.Sum256([]byte(t))
				cx, cn := context.WithTimeout(ctx, 800*time.Millisecond)
				var sw sync.WaitGroup
				for _, u := range []uint16{1, 2} {
					u := u
					c2.Schemes[u].SetStoredData([]byte("share-of-x"))
					sw.Add(1)
					go func() {
						defer sw.Done()
						c2.Schemes[u].Sign(cx, []byte("digest-0123456789abcdef0123456789"), t)
					}()
				}
				deadline := time.Now().Add(500 * time.Millisecond)
				for atomic.LoadInt32(&parked) == 0 && time.Now().Before(deadline) {
					time.Sleep(100 * time.Microsecond)
				}
				for k := 0; k < 3; k++ {
					for _, o := range []uint16{3, 4, 5, 6} {
						for _, d := range []uint16{1, 2} {
							c2.Net.Inject(o, simnet.Outgoing{Dst: d, Type: uint8(tss.MsgTypeMPC), Topic: th[:], Data: append([]byte{1, 0, 1}, bytes.Repeat([]byte{byte(o) + byte(k)}, 32)...), Tag: "outsider"}) // a well-formed acknowledgement
						}
					}
				}
				time.Sleep(3 * time.Millisecond)
				close(release)
				sw.Wait()
				cn()
				threshold.SetVerifHook(func(string) {})
			}
			c2.Net.Stop()
		}
		keygen(ctx)
	case "sign-cancelled-between-its-synchronisations":
		// the first signer to have registered the handlers of its session is held there (verif point), every caller's context is
		// cancelled, the calls return and clean up meanwhile, and 2 ms later the continuation is let go - without waiting for the calls, so
		// that whatever the call's clean-up and the continuation share is accessed from both sides with no ordering between them
		for _, u := range ids {
			c.Schemes[u].SetStoredData([]byte("share-of-x"))
		}
		for round := 0; round < 3; round++ {
			var parked int32
			release := make(chan struct{})
			threshold.SetVerifHook(func(pt string) {
				if (pt == "sign.handlersRegistered" || pt == "sign.afterPrepare") && atomic.CompareAndSwapInt32(&parked, 0, 1) {
					<-release
				}
			})
			cx, cn := context.WithCancel(ctx)
			t := fmt.Sprintf("scb-%d-%d", rep, round)
			if silent {
				c.SetPick(t, ids)
			}
			var sw sync.WaitGroup
			for _, u := range ids {
				u := u
				sw.Add(1)
				go func() {
					defer sw.Done()
					c.Schemes[u].Sign(cx, []byte("digest-0123456789abcdef0123456789"), t)
				}()
			}
			deadline := time.Now().Add(500 * time.Millisecond)
			for atomic.LoadInt32(&parked) == 0 && time.Now().Before(deadline) {
				time.Sleep(100 * time.Microsecond)
			}
			cn()
			// no waiting for the calls here: that would order their clean-up before the continuation's next steps
			time.Sleep(2 * time.Millisecond)
			close(release)
			sw.Wait()
			time.Sleep(2 * time.Millisecond)
			threshold.SetVerifHook(func(string) {})
		}
	case "keygen-while-signing-on-other-topics":
		// key generations that COMPLETE while the synchronisation traffic of signing sessions on other topics is being dispatched:
		// whatever a continuation does to the shared tables on its way out runs concurrently with the dispatch of that traffic
		for _, u := range ids {
			c.Schemes[u].SetStoredData([]byte("share-of-x"))
		}
		for round := 0; round < 4; round++ {
			var sw sync.WaitGroup
			for tpc := 0; tpc < 3; tpc++ {
				t := fmt.Sprintf("kws-%d-%d-%d", rep, round, tpc)
				if silent {
					c.SetPick(t, ids)
				}
				for _, u := range ids {
					u := u
					d := time.Duration(rng.Intn(400)) * time.Microsecond
					sw.Add(1)
					go func() {
						defer sw.Done()
						time.Sleep(d)
						c.Schemes[u].Sign(ctx, []byte("digest-0123456789abcdef0123456789"), t)
					}()
				}
			}
			keygen(ctx)
			sw.Wait()
		}
	case "api-calls-from-several-goroutines":
		// "several sessions may run at once" starts at the API: four goroutines per node call KeyGen and Sign with contexts that
		// are over or end within microseconds, so that admissions, refusals and returns of different calls on ONE scheme object
		// overlap; then an ordinary key generation
		var aw sync.WaitGroup
		for _, u := range ids {
			c.Schemes[u].SetStoredData([]byte("share-of-x")) // once, before any call (the setter is not part of what may overlap)
		}
		for _, u := range ids[:2] {
			for g := 0; g < 4; g++ {
				u, g := u, g
				aw.Add(1)
				go func() {
					defer aw.Done()
					for k := 0; k < 150; k++ {
						cx, cn := context.WithCancel(ctx)
						if (k+g)%3 == 0 {
							go func() { time.Sleep(time.Duration(20*((k+g)%7)) * time.Microsecond); cn() }()
						} else {
							cn()
						}
						if (k+g)%4 == 3 {
							c.Schemes[u].Sign(cx, []byte("digest-0123456789abcdef0123456789"), fmt.Sprintf("api-%d-%d", g, k%3))
						} else {
							c.Schemes[u].KeyGen(cx, n, n-1)
						}
						cn()
					}
				}()
			}
		}
		aw.Wait()
		time.Sleep(2 * time.Millisecond)
		keygen(ctx)
	case "cancel-then-retry":
		cx, cn := context.WithCancel(ctx)
		cd := time.Duration(rng.Intn(3000)) * time.Microsecond
		go func() { time.Sleep(cd); cn() }()
		keygen(cx)
		cn()
		keygen(ctx)
	}
	links := 0
	for range c.Net.Enabled() {
	}
	links = c.Net.LinkCount()
	return c.Net.OrderHash(), links
}

func identityMapC(ids []uint16) map[uint16]uint16 {
	m := map[uint16]uint16{}
	for _, i := range ids {
		m[i] = i
	}
	return m
}

// runC20box: a real msg.Box whose GC clock ticks every 100 us while several goroutines receive and send on a few topics.
func runC20box(rep int, rng *rand.Rand) (string, int) {
	h := &recHandler{}
	// every second repetition with a topic limit far below the number of topics in use, so that the paths that refuse a sender's
	// traffic run concurrently with first Sends and sweeps
	limit, topics := 50, 6
	if rep%2 == 1 {
		limit, topics = 2, 14
	}
	b := &msg.Box{Logger: common.Nolog{}, MaxInFlightTopicsBySender: limit, GCSweep: 100 * time.Microsecond, GCExpire: 400 * time.Microsecond, NewTicker: time.NewTicker,
		ForwardSend: func(uint8, []byte, []byte, ...tss.UniversalID) {}, MessageHandler: h}
	var wg sync.WaitGroup
	workers := 4 + rep%3
	for w := 0; w < workers; w++ {
		w := w
		seed := rng.Int63()
		wg.Add(1)
		go func() {
			defer wg.Done()
			r := rand.New(rand.NewSource(seed))
			for i := 0; i < 300; i++ {
				t := topic32(fmt.Sprintf("t%d", r.Intn(topics)))
				if r.Intn(4) == 0 {
					b.Send(uint8(tss.MsgTypeMPC), t, []byte("out"), 9)
				} else {
					b.HandleMessage(&tss.IncMessage{MsgType: uint8(tss.MsgTypeMPC), Topic: t, Source: uint16(10 + w%2), Data: []byte{byte(i)}})
				}
				if i%40 == 0 {
					time.Sleep(150 * time.Microsecond)
				}
			}
		}()
	}
	wg.Wait()
	b.Stop()
	return fmt.Sprintf("box-%d", rep), workers
}
