package main

// Real endpoints of the bundled TLS transport on 127.0.0.1 (ports always :0), registered identities in
// domains, honest clients through the library's own SocketRemoteParties and hostile ones through the same
// client with a hostile AuthFunc, or a raw TLS client that performs the exporter computation itself.

import (
	"context"
	"crypto/ecdsa"
	"crypto/ed25519"
	"crypto/elliptic"
	"crypto/rand"
	"crypto/rsa"
	"crypto/sha256"
	"crypto/tls"
	"crypto/x509"
	"crypto/x509/pkix"
	"encoding/binary"
	"encoding/hex"
	"encoding/pem"
	"fmt"
	"math/big"
	"net"
	"strings"
	"sync"
	"sync/atomic"
	"time"

	comm "github.com/IBM/TSS/net"
	"github.com/IBM/TSS/testutil/tlsgen"

	"verifharness/common"
)

type netNode struct {
	id     uint16
	domain string
	ident  *tlsgen.CertKeyPair
	addr   string
	stop   func()
	mu     sync.Mutex
	recv   []comm.InMsg
	drain  bool
	in     <-chan comm.InMsg
	rec    *recListener
}

type netEnv struct {
	ca     tlsgen.CA
	pool   *x509.CertPool
	server *tlsgen.CertKeyPair
	nodes  map[uint16]*netNode
	p2id   map[string]uint16
}

func lookupKey(domain string, identity []byte) string {
	h := sha256.New()
	h.Write([]byte(domain))
	h.Write(identity)
	return hex.EncodeToString(h.Sum(nil))
}

// newNetEnv creates identities: ids[i] registered under domains[i].
func newNetEnv(ids []uint16, domains []string) (*netEnv, error) {
	ca, err := tlsgen.NewCA()
	if err != nil {
		return nil, err
	}
	e := &netEnv{ca: ca, pool: x509.NewCertPool(), nodes: map[uint16]*netNode{}, p2id: map[string]uint16{}}
	e.pool.AppendCertsFromPEM(ca.CertBytes())
	e.server, err = ca.NewServerCertKeyPair("127.0.0.1")
	if err != nil {
		return nil, err
	}
	for i, id := range ids {
		kp, err := ca.NewClientCertKeyPair()
		if err != nil {
			return nil, err
		}
		n := &netNode{id: id, domain: domains[i], ident: kp, drain: true}
		e.nodes[id] = n
		e.p2id[lookupKey(n.domain, kp.Cert)] = id
	}
	return e, nil
}

// recListener records the connections a listener accepts, so that a scenario can reset one of them (TCP RST) from the peer's side.
type recListener struct {
	net.Listener
	mu    sync.Mutex
	conns []net.Conn
}

func (r *recListener) Accept() (net.Conn, error) {
	c, err := r.Listener.Accept()
	if err == nil {
		r.mu.Lock()
		r.conns = append(r.conns, c)
		r.mu.Unlock()
	}
	return c, err
}

// resetAll closes every accepted connection with linger 0: the other side sees a connection reset at its next write.
func (r *recListener) resetAll() int {
	r.mu.Lock()
	cs := r.conns
	r.conns = nil
	r.mu.Unlock()
	n := 0
	for _, c := range cs {
		var raw net.Conn = c
		if tc, ok := c.(*tls.Conn); ok {
			raw = tc.NetConn()
		}
		if tcp, ok := raw.(*net.TCPConn); ok {
			tcp.SetLinger(0)
			tcp.Close()
			n++
		} else {
			c.Close()
		}
	}
	return n
}

// listen starts the service of a node (drain=false: accepted connections are served but InMessages is never read).
func (e *netEnv) listen(id uint16, drain bool) {
	n := e.nodes[id]
	rl := &recListener{Listener: comm.Listen("127.0.0.1:0", e.server.Cert, e.server.Key)}
	n.rec = rl
	var l net.Listener = rl
	n.addr = l.Addr().String()
	// odd node identifiers run their service with debug logging switched on (silent sink), even ones with it off
	var lg comm.Logger = common.Nolog{}
	if id%2 == 1 {
		lg = common.DebugNolog{}
	}
	in, stop := comm.ServiceConnections(l, e.p2id, lg)
	n.in, n.stop, n.drain = in, stop, drain
	if drain {
		go func() {
			for m := range in {
				n.mu.Lock()
				n.recv = append(n.recv, m)
				n.mu.Unlock()
			}
		}()
	}
}

// listenAt starts the draining service of a node at a given address (a port reserved earlier); false when the port is gone.
func (e *netEnv) listenAt(id uint16, addr string) (ok bool) {
	defer func() {
		if recover() != nil {
			ok = false
		}
	}()
	n := e.nodes[id]
	l := comm.Listen(addr, e.server.Cert, e.server.Key)
	n.addr = l.Addr().String()
	in, stop := comm.ServiceConnections(l, e.p2id, common.Nolog{})
	n.in, n.stop, n.drain = in, stop, true
	go func() {
		for m := range in {
			n.mu.Lock()
			n.recv = append(n.recv, m)
			n.mu.Unlock()
		}
	}()
	return true
}

func (n *netNode) received() []comm.InMsg {
	n.mu.Lock()
	defer n.mu.Unlock()
	return append([]comm.InMsg{}, n.recv...)
}

// honestAuth is what a correct client does: bind to this connection, present its identity, sign.
func honestAuth(kp *tlsgen.CertKeyPair, domain string) func([]byte) comm.Handshake {
	return func(binding []byte) comm.Handshake {
		h := comm.Handshake{Domain: domain, TLSBinding: binding, Identity: kp.Cert, Timestamp: time.Now().Unix()}
		d := sha256.Sum256(h.Bytes())
		sig, err := kp.Sign(rand.Reader, d[:], nil)
		if err != nil {
			panic("harness: signing failed: " + err.Error())
		}
		h.Signature = sig
		return h
	}
}

// client returns the library's own client towards node `to`, authenticating with auth under `domain`.
func (e *netEnv) client(to uint16, domain string, auth func([]byte) comm.Handshake) comm.SocketRemoteParties {
	return e.clientAddr(to, e.nodes[to].addr, domain, auth)
}

func (e *netEnv) clientAddr(to uint16, addr, domain string, auth func([]byte) comm.Handshake) comm.SocketRemoteParties {
	rp := comm.NewSocketRemoteParty(comm.PartyConnectionConfig{AuthFunc: auth, Domain: domain, Id: int(to), Endpoint: addr, TlsCAs: e.pool}, common.Nolog{})
	return comm.SocketRemoteParties{int(to): rp}
}

// dropCounter is a silent log sink that counts the sender's reports of messages it gave up on (queue timeout, failed write).
type dropCounter struct {
	common.Nolog
	c int64
}

func (d *dropCounter) Warnf(f string, a ...interface{}) {
	if strings.Contains(f, "dropping message") || strings.Contains(f, "failed sending header") || strings.Contains(f, "failed sending data") {
		atomic.AddInt64(&d.c, 1)
	}
}
func (d *dropCounter) n() int64 { return atomic.LoadInt64(&d.c) }

func (e *netEnv) clientAddrLog(to uint16, addr, domain string, auth func([]byte) comm.Handshake, lg comm.Logger) comm.SocketRemoteParties {
	rp := comm.NewSocketRemoteParty(comm.PartyConnectionConfig{AuthFunc: auth, Domain: domain, Id: int(to), Endpoint: addr, TlsCAs: e.pool}, lg)
	return comm.SocketRemoteParties{int(to): rp}
}

func (e *netEnv) stopAll() {
	for _, n := range e.nodes {
		if n.stop != nil {
			n.stop()
		}
	}
}

// rawDial opens a TLS connection like the library's client does and returns it with this connection's channel binding.
func (e *netEnv) rawDial(addr string) (*tls.Conn, []byte, error) {
	conf := &tls.Config{RootCAs: e.pool, MinVersion: tls.VersionTLS13, SessionTicketsDisabled: true}
	// the whole dial, TLS handshake included, is bounded: a service that no longer accepts connections must not hang the harness
	ctx, cancel := context.WithTimeout(context.Background(), 10*time.Second)
	defer cancel()
	d := &tls.Dialer{NetDialer: &net.Dialer{Timeout: 3 * time.Second}, Config: conf}
	nc, err := d.DialContext(ctx, "tcp", addr)
	if err != nil {
		return nil, nil, err
	}
	c := nc.(*tls.Conn)
	cs := c.ConnectionState()
	b, err := cs.ExportKeyingMaterial("MPC", []byte("MPC"), 32)
	if err != nil {
		c.Close()
		return nil, nil, err
	}
	return c, b, nil
}

func encodeHandshake(h comm.Handshake) []byte {
	body := h.Bytes()
	out := make([]byte, 2+len(body))
	binary.LittleEndian.PutUint16(out, uint16(len(body)))
	copy(out[2:], body)
	return out
}

// frame encodes a message the way the transport's sender does (type, little-endian length, optional 32-byte topic, data).
// Used only by raw clients (garbling, truncation); honest traffic goes through the library's own sender.
func frame(typ uint8, topic, data []byte) []byte {
	out := make([]byte, 5, 5+len(topic)+len(data))
	out[0] = typ
	binary.LittleEndian.PutUint32(out[1:], uint32(len(data)))
	out = append(out, topic...)
	return append(out, data...)
}

// foreign key material
func selfSignedCert(pub, priv interface{}) []byte {
	tmpl := x509.Certificate{SerialNumber: big.NewInt(time.Now().UnixNano()), Subject: pkix.Name{CommonName: "hostile"}, NotBefore: time.Now().Add(-time.Hour), NotAfter: time.Now().Add(time.Hour)}
	der, err := x509.CreateCertificate(rand.Reader, &tmpl, &tmpl, pub, priv)
	if err != nil {
		panic("harness: cannot create certificate: " + err.Error())
	}
	return pem.EncodeToMemory(&pem.Block{Type: "CERTIFICATE", Bytes: der})
}

// issuedCert: a certificate for `pub` issued by a made-up ECDSA CA (so that its signature algorithm is an ECDSA one whatever the subject key is).
func issuedCert(pub interface{}) []byte {
	caKey, _ := ecdsa.GenerateKey(elliptic.P256(), rand.Reader)
	ca := x509.Certificate{SerialNumber: big.NewInt(time.Now().UnixNano()), Subject: pkix.Name{CommonName: "hostile CA"}, NotBefore: time.Now().Add(-time.Hour), NotAfter: time.Now().Add(time.Hour), IsCA: true, BasicConstraintsValid: true, KeyUsage: x509.KeyUsageCertSign}
	tmpl := x509.Certificate{SerialNumber: big.NewInt(time.Now().UnixNano() + 1), Subject: pkix.Name{CommonName: "hostile leaf"}, NotBefore: time.Now().Add(-time.Hour), NotAfter: time.Now().Add(time.Hour)}
	der, err := x509.CreateCertificate(rand.Reader, &tmpl, &ca, pub, caKey)
	if err != nil {
		panic("harness: cannot create certificate: " + err.Error())
	}
	return pem.EncodeToMemory(&pem.Block{Type: "CERTIFICATE", Bytes: der})
}

type foreignKeys struct {
	rsaCert, edCert, p384Cert []byte
	// the same RSA / Ed25519 keys certified by an ECDSA CA
	rsaIssued, edIssued []byte
	rsaKey              *rsa.PrivateKey
	edKey               ed25519.PrivateKey
	p384Key             *ecdsa.PrivateKey
}

func newForeignKeys() *foreignKeys {
	f := &foreignKeys{}
	f.rsaKey, _ = rsa.GenerateKey(rand.Reader, 2048)
	f.rsaCert = selfSignedCert(&f.rsaKey.PublicKey, f.rsaKey)
	var pub ed25519.PublicKey
	pub, f.edKey, _ = ed25519.GenerateKey(rand.Reader)
	f.edCert = selfSignedCert(pub, f.edKey)
	f.p384Key, _ = ecdsa.GenerateKey(elliptic.P384(), rand.Reader)
	f.p384Cert = selfSignedCert(&f.p384Key.PublicKey, f.p384Key)
	f.rsaIssued = issuedCert(&f.rsaKey.PublicKey)
	f.edIssued = issuedCert(pub)
	return f
}

func marker(kind string, i int) []byte { return []byte(fmt.Sprintf("MARK|%s|%d|", kind, i)) }
