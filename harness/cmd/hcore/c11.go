package main

// C11 — KeyGen and Sign fail cleanly on timeout, cancellation or a vanished peer (scripted backend part).
// Crash-point enumeration: for every peer P and every k, P goes silent after its k-th transmission; every
// single transmission withheld; context ended by explicit cancel at quiescence (logical time) or by a
// deadline with a PRNG phase (real disc.Member).

import (
	"context"
	"fmt"
	"strings"
	"sync"
	"sync/atomic"
	"time"

	tss "github.com/IBM/TSS/types"

	"verifharness/backend"
	"verifharness/cluster"
	"verifharness/common"
	"verifharness/simnet"
)

type c11case struct {
	N        int
	Mode     string // barrier | silent | loud
	Sign     bool
	Mute     uint16 // peer that goes silent (0 = none)
	After    int    // ... after this many transmissions
	Withhold int    // global index of the single transmission withheld (-1 = none)
}

func (c c11case) String() string {
	ph := "keygen"
	if c.Sign {
		ph = "sign"
	}
	return fmt.Sprintf("%s n=%d %s mute=%d after=%d withhold=%d", ph, c.N, c.Mode, c.Mute, c.After, c.Withhold)
}

type c11out struct {
	perNode  map[uint16]int // transmissions per node
	total    int
	errs     map[uint16]error
	complete map[uint16]bool // backend of the node received its whole script
	hang     bool
	panics   []string
	faultHit bool
}

func runC11(cs c11case, rngSeed int64, e common.Env, scale int) c11out {
	rng := e.Rng("c11run", rngSeed)
	var ids []uint16
	for i := 1; i <= cs.N; i++ {
		ids = append(ids, uint16(i))
	}
	c := newRCluster(cluster.Config{Map: identityMap(ids...), Silent: cs.Mode == "silent", Barrier: cs.Mode == "barrier", Threshold: cs.N - 1,
		Script: backend.Script{Rounds: []uint8{1, 2}, Bcast: true, P2P: true}}, rng, simnet.Uniform)
	defer c.Stop()
	out := c11out{perNode: map[uint16]int{}, errs: map[uint16]error{}, complete: map[uint16]bool{}}
	var mu sync.Mutex
	var global int32
	for _, u := range ids {
		u := u
		c.Net.SetInterceptor(u, func(n *simnet.Net, src uint16, typ uint8, topic, data []byte, dsts []uint16) []simnet.Outgoing {
			mu.Lock()
			out.perNode[u]++
			mine := out.perNode[u]
			mu.Unlock()
			g := int(atomic.AddInt32(&global, 1)) - 1
			if (cs.Mute == u && mine > cs.After) || g == cs.Withhold {
				mu.Lock()
				out.faultHit = true
				mu.Unlock()
				return nil
			}
			var o []simnet.Outgoing
			for _, d := range dsts {
				o = append(o, simnet.Outgoing{Dst: d, Type: typ, Topic: topic, Data: data})
			}
			return o
		})
	}
	topic := "c11-topic"
	if cs.Mode == "silent" {
		if cs.Sign {
			c.SetPick(topic, ids)
		} else {
			c.SetPick(tss.DkgTopicName, ids)
		}
	}
	script := c.Cfg.Script
	c.NextSession(&script)
	var ctx context.Context
	var cancel context.CancelFunc
	if cs.Mode == "loud" {
		ctx, cancel = context.WithTimeout(context.Background(), time.Duration(40+rng.Intn(80))*time.Millisecond)
	} else {
		ctx, cancel = context.WithCancel(context.Background())
	}
	defer cancel()
	var wg sync.WaitGroup
	var returned int32
	for _, u := range ids {
		u := u
		s := c.Schemes[u]
		if cs.Sign {
			s.SetStoredData([]byte("share-of-x"))
		}
		wg.Add(1)
		go func() {
			defer wg.Done()
			defer func() {
				if x := recover(); x != nil {
					mu.Lock()
					out.panics = append(out.panics, fmt.Sprintf("call at node %d panicked: %v", u, x))
					mu.Unlock()
				}
				atomic.AddInt32(&returned, 1)
			}()
			var err error
			if cs.Sign {
				_, err = s.Sign(ctx, []byte("digest-0123456789abcdef0123456789"), topic)
			} else {
				_, err = s.KeyGen(ctx, cs.N, cs.N-1)
			}
			mu.Lock()
			out.errs[u] = err
			mu.Unlock()
		}()
	}
	if cs.Mode != "loud" {
		// logical time: cancel when the network is drained and nothing moves any more
		quiet := 0
		deadline := time.Now().Add(time.Duration(scale) * 4 * time.Second)
		for time.Now().Before(deadline) && int(atomic.LoadInt32(&returned)) < len(ids) {
			if c.Net.Pending() == 0 && !c.Net.Busy() {
				quiet++
			} else {
				quiet = 0
			}
			// a fault-free reference run is never cut short: on a loaded machine "nothing queued, nothing being delivered" for a
			// few milliseconds may just mean that a party has not been scheduled yet
			if quiet > 12 && !(cs.Mute == 0 && cs.Withhold < 0) {
				break
			}
			time.Sleep(250 * time.Microsecond)
		}
		cancel()
	}
	done := make(chan struct{})
	go func() { wg.Wait(); close(done) }()
	select {
	case <-done:
	case <-time.After(time.Duration(scale) * 3 * time.Second):
		out.hang = true
	}
	mu.Lock()
	for _, v := range out.perNode {
		out.total += v
	}
	mu.Unlock()
	// which backends received their whole script
	sess := c.Session()
	got := map[uint16]int{}
	for _, ev := range c.Net.Log() {
		if ev.Kind == simnet.EvOnMsg {
			if p, err := backend.Decode(ev.Data); err == nil && p.Session == sess {
				got[ev.Node]++
			}
		}
	}
	for _, u := range ids {
		out.complete[u] = got[u] == (cs.N-1)*2*2
	}
	time.Sleep(2 * time.Millisecond) // settle window: background goroutines of the session run out
	return out
}

func unitC11scripted(e common.Env, p *common.Part) {
	p.Rule = "crash-point enumeration on scripted sessions of real schemes: a fault-free reference run counts the transmissions M_P of every peer; then for every peer P and every k = 0..M_P+1 a run in which P's (k+1)-th and later transmissions vanish, and for every single transmission j a run in which exactly that one is withheld; barrier and silent mode (exact counts, context cancelled at quiescence) and loud mode with real disc.Member (deadline with PRNG phase, k sampled); key generation and signing, n = 3 (quick) and 3,4 (thorough); distinct key = (phase, n, mode, peer, k | withheld j); non-trivial when the fault took effect before the session completed"
	p.Assumptions = append(p.Assumptions, "a nil return is accepted only if the node's backend had received its complete script (the fault came too late to matter); 'must return' is judged 3 s after the context ended, a hang is replayed alone with a 5x watchdog before it is reported")
	type job struct{ cs c11case }
	var jobs []c11case
	ns := []int{3}
	if e.Thorough() {
		ns = []int{3, 4, 5}
	}
	idx := 0
	for _, n := range ns {
		for _, mode := range []string{"barrier", "silent"} {
			for _, sign := range []bool{false, true} {
				ref := runC11(c11case{N: n, Mode: mode, Sign: sign, Withhold: -1}, int64(idx), e, 1)
				idx++
				for u, err := range ref.errs {
					if err != nil {
						p.Violate("reference-run-failed", fmt.Sprintf("fault-free reference run n=%d %s sign=%v failed at node %d: %v", n, mode, sign, u, err), nil)
					}
				}
				p.Note(fmt.Sprintf("reference n=%d %s sign=%v", n, mode, sign), map[string]interface{}{"per_peer": fmt.Sprint(ref.perNode), "total": ref.total})
				step := 1
				if !e.Thorough() && n > 3 {
					step = 2
				}
				for peer := 1; peer <= n; peer++ {
					for k := 0; k <= ref.perNode[uint16(peer)]+1; k += step {
						jobs = append(jobs, c11case{N: n, Mode: mode, Sign: sign, Mute: uint16(peer), After: k, Withhold: -1})
					}
				}
				for j := 0; j < ref.total; j += step {
					jobs = append(jobs, c11case{N: n, Mode: mode, Sign: sign, Withhold: j})
				}
			}
		}
		// loud mode: real synchroniser, deadline with PRNG phase, k sampled over a range that includes the sync phase
		for i := 0; i < e.Pick(40, 1500); i++ {
			r := e.Rng("c11loud", n, i)
			jobs = append(jobs, c11case{N: n, Mode: "loud", Sign: i%2 == 1, Mute: uint16(1 + r.Intn(n)), After: r.Intn(60), Withhold: -1})
		}
	}
	p.Note("crash_points", len(jobs))
	var wg sync.WaitGroup
	sem := make(chan struct{}, 4)
	for i, cs := range jobs {
		if !e.Mine(i) || p.ViolationCount() >= 3 {
			continue
		}
		i, cs := i, cs
		sem <- struct{}{}
		wg.Add(1)
		go func() {
			defer wg.Done()
			defer func() { <-sem }()
			p.Begin(cs.String())
			out := runC11(cs, int64(1000+i), e, 1)
			if out.hang {
				p.Count("watchdog_replays", 1)
				out = runC11(cs, int64(1000+i), e, 5)
			}
			p.Case(cs.String(), out.faultHit)
			p.Count("runs", 1)
			if out.faultHit {
				p.Count("faults_effective", 1)
			}
			wit := map[string]interface{}{"case": cs}
			switch {
			case len(out.panics) > 0:
				p.Violate("panic/"+cs.Mode, cs.String()+": "+out.panics[0], wit)
			case out.hang:
				p.Violate("hang/"+cs.Mode, cs.String()+": a call had not returned 15 s after its context ended", wit)
			default:
				for u, err := range out.errs {
					if err == nil && !out.complete[u] {
						p.Violate("nil-error-without-completion/"+cs.Mode, fmt.Sprintf("%s: node %d returned nil although its backend had not received the complete session traffic", cs.String(), u), wit)
					}
					if err != nil {
						p.Count("error_returns", 1)
					} else {
						p.Count("success_returns", 1)
					}
				}
			}
			if i%37 == 0 {
				p.Sample(map[string]interface{}{"case": cs.String(), "errors": fmt.Sprint(out.errs), "fault_effective": out.faultHit})
			}
		}()
	}
	wg.Wait()
	// local precondition: unusable stored data
	if e.Mine(0) {
		for i, data := range [][]byte{nil, {}, []byte("x"), []byte("garbage-not-a-share"), []byte("shar")} {
			cs := fmt.Sprintf("sign with unusable stored data #%d", i)
			p.Begin(cs)
			ids := []uint16{1, 2, 3}
			c := newRCluster(cluster.Config{Map: identityMap(ids...), Barrier: true, Threshold: 2, Script: backend.Script{Rounds: []uint8{1}, Bcast: true}}, e.Rng("c11sd", i), simnet.Uniform)
			ctx, cancel := context.WithTimeout(context.Background(), 150*time.Millisecond)
			res := map[uint16]error{}
			var mu sync.Mutex
			var w sync.WaitGroup
			for _, u := range ids {
				u := u
				c.Schemes[u].SetStoredData(data)
				w.Add(1)
				go func() {
					defer w.Done()
					_, err := c.Schemes[u].Sign(ctx, []byte("digest-0123456789abcdef0123456789"), "sd-topic")
					mu.Lock()
					res[u] = err
					mu.Unlock()
				}()
			}
			done := make(chan struct{})
			go func() { w.Wait(); close(done) }()
			select {
			case <-done:
				for u, err := range res {
					if err == nil {
						p.Violate("nil-error-with-unusable-share-data", fmt.Sprintf("%s: node %d returned nil", cs, u), nil)
					}
				}
			case <-time.After(10 * time.Second):
				p.Violate("hang/unusable-share-data", cs+": Sign had not returned 10 s after its context ended", nil)
			}
			cancel()
			c.Stop()
			p.Case(cs, true)
			p.Count("precondition_cases", 1)
		}
		// a second Sign on a topic that is still live at the node is refused; the refusal must not wedge the first call (it returns at
		// its deadline) nor any later call on that node
		for mi, mode := range []string{"loud", "barrier", "silent"} {
			for _, dupTopic := range []string{"same topic", "the key generation's topic name while a key generation runs", "two further KeyGen calls while a key generation runs"} {
				cs := fmt.Sprintf("%s: refused duplicate (%s), then the first call's deadline, then further calls", mode, dupTopic)
				p.Begin(cs)
				ids := []uint16{1, 2, 3}
				c := newRCluster(cluster.Config{Map: identityMap(ids...), Barrier: mode == "barrier", Silent: mode == "silent", Threshold: 2, Script: backend.Script{Rounds: []uint8{1}, Bcast: true}}, e.Rng("c11dup", mi), simnet.Uniform)
				if mode == "silent" {
					for _, t := range []string{"dup-topic", "later-topic", tss.DkgTopicName} {
						c.SetPick(t, ids)
					}
				}
				c.Schemes[1].SetStoredData([]byte("share-of-x"))
				type ret struct {
					what string
					err  error
				}
				rets := make(chan ret, 8)
				first, cancelFirst := context.WithTimeout(context.Background(), 300*time.Millisecond)
				// only node 1 calls: its peers never show up, the call lives until its deadline
				go func() {
					var err error
					if dupTopic == "same topic" {
						_, err = c.Schemes[1].Sign(first, []byte("digest-0123456789abcdef0123456789"), "dup-topic")
					} else {
						_, err = c.Schemes[1].KeyGen(first, 3, 2)
					}
					rets <- ret{"the first call", err}
				}()
				time.Sleep(60 * time.Millisecond)
				if strings.HasPrefix(dupTopic, "two further KeyGen") {
					// the second KeyGen is refused; the third one, issued right after the refusal while the first still runs, as well
					go func() {
						for k, name := range []string{"the duplicate call", "a third call"} {
							var err error
							func() {
								defer func() {
									if x := recover(); x != nil {
										p.Violate("panic/after-refused-duplicate", fmt.Sprintf("%s: KeyGen call #%d issued while the first key generation was still running panicked: %v", cs, k+2, x), nil)
										err = fmt.Errorf("panic")
									}
								}()
								c2, cn := context.WithTimeout(context.Background(), 60*time.Millisecond)
								defer cn()
								_, err = c.Schemes[1].KeyGen(c2, 3, 2)
							}()
							rets <- ret{name, err}
						}
					}()
				} else {
					go func() {
						c2, cn := context.WithTimeout(context.Background(), 100*time.Millisecond)
						defer cn()
						t := "dup-topic"
						if dupTopic != "same topic" {
							t = tss.DkgTopicName
						}
						_, err := c.Schemes[1].Sign(c2, []byte("digest-0123456789abcdef0123456789"), t)
						rets <- ret{"the duplicate call", err}
					}()
				}
				got := map[string]error{}
				wait := func(n int, d time.Duration) bool {
					deadline := time.After(d)
					for len(got) < n {
						select {
						case r := <-rets:
							got[r.what] = r.err
						case <-deadline:
							return false
						}
					}
					return true
				}
				nFirst := 2
				if strings.HasPrefix(dupTopic, "two further KeyGen") {
					nFirst = 3
				}
				ok := wait(nFirst, 10*time.Second)
				if ok {
					// later calls on the same node
					go func() {
						c3, cn := context.WithTimeout(context.Background(), 100*time.Millisecond)
						defer cn()
						_, err := c.Schemes[1].Sign(c3, []byte("digest-0123456789abcdef0123456789"), "later-topic")
						rets <- ret{"a later Sign", err}
					}()
					go func() {
						c4, cn := context.WithTimeout(context.Background(), 100*time.Millisecond)
						defer cn()
						_, err := c.Schemes[1].KeyGen(c4, 3, 2)
						rets <- ret{"a later KeyGen", err}
					}()
					ok = wait(nFirst+2, 10*time.Second)
				}
				cancelFirst()
				if !ok {
					var missing []string
					for _, w := range []string{"the first call", "the duplicate call", "a later Sign", "a later KeyGen"} {
						if _, seen := got[w]; !seen {
							missing = append(missing, w)
						}
					}
					p.Violate("hang/after-refused-duplicate", fmt.Sprintf("%s: %v had not returned 10 s after every context had ended", cs, missing), nil)
				} else {
					for w, err := range got {
						if err == nil {
							p.Violate("nil-error-with-failed-precondition", fmt.Sprintf("%s: %s returned nil although no peer took part", cs, w), nil)
						} else {
							p.Count("error_returns", 1)
						}
					}
				}
				c.Stop()
				p.Case(cs, true)
				p.Count("precondition_cases", 1)
			}
		}
		// a context that is already over when the call is made (cancelled / deadline in the past), at all nodes or at one node only;
		// unusable data at one node only. Every call returns an error (the nodes with a live context at their deadline).
		idx := 0
		for _, mode := range []string{"loud", "barrier", "silent"} {
			for _, op := range []string{"keygen", "sign"} {
				for _, kind := range []string{"cancelled before the call everywhere", "deadline in the past everywhere", "cancelled before the call at node 2 only", "unusable stored data at node 2 only"} {
					idx++
					if kind == "unusable stored data at node 2 only" && op == "keygen" {
						continue
					}
					cs := fmt.Sprintf("%s %s: %s", mode, op, kind)
					p.Begin(cs)
					ids := []uint16{1, 2, 3}
					c := newRCluster(cluster.Config{Map: identityMap(ids...), Barrier: mode == "barrier", Silent: mode == "silent", Threshold: 2, Script: backend.Script{Rounds: []uint8{1, 2}, Bcast: true, P2P: true}}, e.Rng("c11pre", idx), simnet.Uniform)
					if mode == "silent" {
						c.SetPick(tss.DkgTopicName, ids)
						c.SetPick("pre-topic", ids)
					}
					live, cancelLive := context.WithTimeout(context.Background(), 150*time.Millisecond)
					dead, cancelDead := context.WithCancel(context.Background())
					cancelDead()
					if kind == "deadline in the past everywhere" {
						dead, cancelDead = context.WithDeadline(context.Background(), time.Now().Add(-time.Second))
					}
					res := map[uint16]error{}
					var mu sync.Mutex
					var w sync.WaitGroup
					for _, u := range ids {
						u := u
						ctx := live
						if strings.HasSuffix(kind, "everywhere") || (u == 2 && strings.HasPrefix(kind, "cancelled")) {
							ctx = dead
						}
						data := []byte("share-of-x")
						if u == 2 && strings.HasPrefix(kind, "unusable") {
							data = []byte("garbage")
						}
						c.Schemes[u].SetStoredData(data)
						w.Add(1)
						go func() {
							defer w.Done()
							var err error
							if op == "keygen" {
								_, err = c.Schemes[u].KeyGen(ctx, 3, 2)
							} else {
								_, err = c.Schemes[u].Sign(ctx, []byte("digest-0123456789abcdef0123456789"), "pre-topic")
							}
							mu.Lock()
							res[u] = err
							mu.Unlock()
						}()
					}
					done := make(chan struct{})
					go func() { w.Wait(); close(done) }()
					select {
					case <-done:
						for u, err := range res {
							if err == nil {
								p.Violate("nil-error-with-failed-precondition", fmt.Sprintf("%s: node %d returned nil", cs, u), nil)
							} else {
								p.Count("error_returns", 1)
							}
						}
					case <-time.After(10 * time.Second):
						p.Violate("hang/failed-precondition", cs+": a call had not returned 10 s after every context had ended", nil)
					}
					cancelLive()
					cancelDead()
					c.Stop()
					p.Case(cs, true)
					p.Count("precondition_cases", 1)
				}
			}
		}
		// the context ends while the protocol instance of node 1 is being initialised (Init is parked until the call has returned),
		// then the natural retry with every node: every call returns, nothing panics
		for mi, mode := range []string{"loud", "barrier", "silent"} {
			for _, op := range []string{"keygen", "sign"} {
				for rep := 0; rep < e.Pick(2, 10); rep++ {
					cs := fmt.Sprintf("%s %s: context ends during the protocol instance's Init at node 1, then a retry #%d", mode, op, rep)
					p.Begin(cs)
					ids := []uint16{1, 2, 3}
					entered, release := make(chan struct{}), make(chan struct{})
					var once sync.Once
					script := backend.Script{Rounds: []uint8{1}, Bcast: true, InitHook: func(node uint16) {
						if node != 1 {
							return
						}
						first := false
						once.Do(func() { first = true })
						if first {
							close(entered)
							<-release
						}
					}}
					c := newRCluster(cluster.Config{Map: identityMap(ids...), Barrier: mode == "barrier", Silent: mode == "silent", Threshold: 2, Script: script}, e.Rng("c11init", mi, rep), simnet.Uniform)
					if mode == "silent" {
						c.SetPick(tss.DkgTopicName, ids)
						c.SetPick("init-topic", ids)
					}
					call := func(ctx context.Context) chan error {
						out := make(chan error, len(ids))
						for _, u := range ids {
							u := u
							c.Schemes[u].SetStoredData([]byte("share-of-x"))
							go func() {
								var err error
								if op == "keygen" {
									_, err = c.Schemes[u].KeyGen(ctx, 3, 2)
								} else {
									_, err = c.Schemes[u].Sign(ctx, []byte("digest-0123456789abcdef0123456789"), "init-topic")
								}
								out <- err
							}()
						}
						return out
					}
					collect := func(out chan error, d time.Duration) bool {
						deadline := time.After(d)
						for range ids {
							select {
							case <-out:
							case <-deadline:
								return false
							}
						}
						return true
					}
					ctx1, cancel1 := context.WithTimeout(context.Background(), 3*time.Second)
					out1 := call(ctx1)
					parked := false
					select {
					case <-entered:
						parked = true
					case <-time.After(2 * time.Second):
					}
					cancel1()
					ok := collect(out1, 10*time.Second)
					close(release)
					if !ok {
						p.Violate("hang/context-ended-during-init", cs+": a call had not returned 10 s after its context was cancelled", nil)
					} else {
						time.Sleep(time.Duration(1+rep%4) * time.Millisecond)
						ctx2, cancel2 := context.WithTimeout(context.Background(), 2*time.Second)
						if !collect(call(ctx2), 12*time.Second) {
							p.Violate("hang/retry-after-context-ended-during-init", cs+": the retry had not returned 10 s after its context ended", nil)
						}
						cancel2()
					}
					c.Stop()
					p.Case(cs, parked)
					if parked {
						p.Count("contexts_ended_during_init", 1)
					}
				}
			}
		}
	}
}

// ---- contexts that end at the k-th consultation (logical crash points of the caller's own context) ----

// unitC11ctx: one node's KeyGen / Sign runs under a context that ends at its k-th consultation (Err / Done call), for every k up
// to the number of consultations counted in a reference run. Under C11 every call must return and nothing may panic; under C12
// the same runs are followed by a complete session on the same topic, which must succeed (no residue of the aborted call).
func unitC11ctx(e common.Env, p *common.Part) {
	p.Rule = "scripted sessions of real schemes (barrier, silent and loud mode; key generation and signing; N = 3) in which node 1's call runs under a context that ends at its k-th consultation, k = 1..M+1 (M = consultations of a reference run; the other nodes' contexts end 300 ms later by deadline); oracle C11: every call returns within 10 s after all contexts ended, node 1 returns an error whenever its context ended inside the call, nothing panics; oracle C12 (when run under C12): afterwards a complete session on the same topic succeeds at every node and hands every message over exactly once; distinct key = (mode, operation, k); non-trivial when k <= M"
	p.Assumptions = append(p.Assumptions, "consultation counts vary slightly between runs in loud mode (timers); k beyond the count of a run simply means that run's context never ended")
	idx := 0
	for _, mode := range []string{"barrier", "silent", "loud"} {
		for _, op := range []string{"keygen", "sign"} {
			ids := []uint16{1, 2, 3}
			script := backend.Script{Rounds: []uint8{1, 2}, Bcast: true, P2P: true}
			mk := func(seed int) *rcluster {
				c := newRCluster(cluster.Config{Map: identityMap(ids...), Barrier: mode == "barrier", Silent: mode == "silent", Threshold: 2, Script: script}, e.Rng("c11ctx", mode, op, seed), simnet.Uniform)
				for _, u := range ids {
					c.Schemes[u].SetStoredData([]byte("share-of-x"))
				}
				return c
			}
			topicOf := func(k int64) string { return fmt.Sprintf("ctx-topic-%d", k) }
			// one attempt: node 1 under cc, the others under a deadline; returns errors, whether everybody returned, panics
			attempt := func(c *rcluster, topic string, k int64, othersDeadline time.Duration) (map[uint16]error, bool, []string, *common.CountCtx) {
				c.NextSession(&script)
				if mode == "silent" {
					c.SetPick(tss.DkgTopicName, ids)
					c.SetPick(topic, ids)
				}
				base, cancel := context.WithTimeout(context.Background(), othersDeadline)
				defer cancel()
				cc := common.NewCountCtx(base, k)
				errs := map[uint16]error{}
				var panics []string
				var mu sync.Mutex
				var wg sync.WaitGroup
				for _, u := range ids {
					u := u
					var ctx context.Context = base
					if u == 1 {
						ctx = cc
					}
					wg.Add(1)
					go func() {
						defer wg.Done()
						defer func() {
							if x := recover(); x != nil {
								mu.Lock()
								panics = append(panics, fmt.Sprintf("call at node %d panicked: %v", u, x))
								mu.Unlock()
							}
						}()
						var err error
						if op == "keygen" {
							_, err = c.Schemes[u].KeyGen(ctx, 3, 2)
						} else {
							_, err = c.Schemes[u].Sign(ctx, []byte("digest-0123456789abcdef0123456789"), topic)
						}
						mu.Lock()
						errs[u] = err
						mu.Unlock()
					}()
				}
				done := make(chan struct{})
				go func() { wg.Wait(); close(done) }()
				select {
				case <-done:
					return errs, true, panics, cc
				case <-time.After(othersDeadline + 10*time.Second):
					return errs, false, panics, cc
				}
			}
			ref := mk(0)
			_, ok, _, rcc := attempt(ref, topicOf(0), 0, 5*time.Second)
			M := rcc.Consultations()
			ref.Stop()
			if !ok || M == 0 {
				p.Inconcl(fmt.Sprintf("%s %s: reference run unusable", mode, op))
				continue
			}
			p.Note(fmt.Sprintf("consultations %s %s", mode, op), M)
			maxK := M + 1
			if c := int64(e.Pick(40, 400)); maxK > c {
				maxK = c
			}
			for k := int64(1); k <= maxK; k++ {
				idx++
				if !e.Mine(idx) || p.ViolationCount() >= 3 {
					continue
				}
				key := fmt.Sprintf("%s %s: node 1's context ends at its consultation %d", mode, op, k)
				p.Begin(key)
				c := mk(int(k))
				errs, ok, panics, cc := attempt(c, topicOf(k), k, 300*time.Millisecond)
				inside := cc.Ended() && cc.Consultations() >= k
				p.Case(key, inside)
				p.Count("ctx_runs", 1)
				if inside {
					p.Count("faults_effective", 1)
				}
				wit := map[string]interface{}{"mode": mode, "op": op, "k": k}
				switch {
				case len(panics) > 0:
					p.Violate("panic/context-ends-at-consultation", key+": "+panics[0], wit)
				case !ok:
					p.Violate("hang/context-ends-at-consultation", key+": a call had not returned 10 s after every context had ended", wit)
				default:
					for _, err := range errs {
						if err != nil {
							p.Count("error_returns", 1)
						} else {
							p.Count("success_returns", 1)
						}
					}
					if e.Property == "C12" && mode != "silent" {
						// residue test: a complete session on the same topic afterwards (silent mode re-use of a topic is the known finding)
						c.drain(300 * time.Millisecond)
						sc := sessCfg{Callers: ids, Sign: op == "sign", Topic: topicOf(k), Digest: []byte("digest-0123456789abcdef0123456789"), Script: script, Timeout: 5 * time.Second}
						res := c.run(sc)
						sig, what := "", ""
						if u, err := allNil(res, ids); err != nil {
							sig, what = "residue/session-after-aborted-call-failed", fmt.Sprintf("node %d: %v", u, err)
							if res.Elapsed >= sc.Timeout && res.QuietAtFirstReturn < 2*time.Second {
								sig = "" // a deadline while things were still moving: not judged here
								p.Count("unjudged_deadlines", 1)
							}
						} else {
							sig, what = sessionTotality(c, sc, res)
						}
						if len(res.Panics) > 0 {
							sig, what = "residue/panic", res.Panics[0]
						}
						p.Count("follow_up_sessions", 1)
						if sig != "" {
							p.Violate(sig, key+", then a complete session on the same topic: "+what, wit)
						}
					}
				}
				c.Stop()
				if idx%9 == 0 {
					p.Sample(map[string]interface{}{"case": key, "consultations": cc.Consultations(), "errors": fmt.Sprint(errs)})
				}
			}
		}
	}
}
