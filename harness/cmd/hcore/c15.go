package main

// C15 — the silent-mode buffer stays bounded and gives resources back.
// Real msg.Box with small injected topic limits and a virtual epoch clock; histories are compared with
// a reference model written from the statement (must-deliver / must-not-deliver / either).

import (
	"bytes"
	"fmt"
	"math/rand"
	"sort"
	"strings"
	"sync"
	"time"
	"verifharness/ctlsched"

	"github.com/IBM/TSS/msg"
	tss "github.com/IBM/TSS/types"

	"verifharness/common"
)

const perTopicLimit = 100 // the documented per-sender per-topic limit (constant in msgbox.go), exercised as is

type c15step struct {
	Op     string // recv | send | ticks | gc | sleep
	Sender uint16
	Topic  string
	N      int
}

func (s c15step) String() string {
	switch s.Op {
	case "recv":
		return fmt.Sprintf("recv(s=%d,t=%s)x%d", s.Sender, s.Topic, s.N)
	case "send":
		return "send(" + s.Topic + ")"
	case "ticks":
		return fmt.Sprintf("ticks(%d)", s.N)
	case "gc":
		return "gc"
	default:
		return fmt.Sprintf("sleep(%dms)", s.N)
	}
}

type c15hist struct {
	Name      string
	L         int // MaxInFlightTopicsBySender
	Ratio     int // GCExpire / GCSweep
	RealClock bool
	Steps     []c15step
}

type recHandler struct {
	mu  sync.Mutex
	log []*tss.IncMessage
}

func (h *recHandler) HandleMessage(m *tss.IncMessage) {
	h.mu.Lock()
	h.log = append(h.log, m)
	h.mu.Unlock()
}

func (h *recHandler) take() []*tss.IncMessage {
	h.mu.Lock()
	defer h.mu.Unlock()
	l := h.log
	h.log = nil
	return l
}

func topic32(name string) []byte {
	b := make([]byte, 32)
	copy(b, name)
	for i := len(name); i < 32; i++ {
		b[i] = '.'
	}
	return b
}

// model state per message
const (
	stMust = iota
	stEither
	stMustNot
)

type mmsg struct {
	id      string
	sender  uint16
	status  int
	arrival int // ticks pushed at arrival
	at      int // logical time of the history at arrival (conservation monitor)
}

type mtopic struct {
	started     bool
	msgs        []*mmsg
	lastArrival int // ticks pushed at the last arrival that MAY have been stored (upper bound of the topic's last use)
	lastMust    int // ticks pushed at the last arrival that MUST have been stored (lower bound of the topic's last use)
}

type c15model struct {
	L, ratio int
	ticks    int // ticks pushed so far
	topics   map[string]*mtopic
	// gcAfter[topic] = true once a GC-driving Send on another topic happened after the topic definitely expired
}

type c15run struct {
	hist     c15hist
	box      *msg.Box
	h        *recHandler
	tick     chan time.Time
	model    *c15model
	swept    map[string]bool // topics that expired for sure and have seen >=3 GC rounds
	gcRounds map[string]int
	seq      int
	gcSeq    int
	// conservation monitor: messages that were released were buffered from their arrival to their release for sure
	clock  int // one tick per received message and per Send
	stored []c15interval
}

// c15interval: sender had a message buffered for topic during [from, to] (logical time of the history)
type c15interval struct {
	sender   uint16
	topic    string
	from, to int
}

// topicsHeld: the largest number of distinct topics in which one sender had messages buffered at the same instant, judged only
// from messages that were released later (so they were in the buffer all the time in between, whatever the model thinks).
func (r *c15run) topicsHeld() (uint16, int, int) {
	type ev struct {
		at    int
		open  bool
		topic string
	}
	per := map[uint16][]ev{}
	for _, iv := range r.stored {
		per[iv.sender] = append(per[iv.sender], ev{iv.from, true, iv.topic}, ev{iv.to, false, iv.topic})
	}
	var worstS uint16
	worst, at := 0, 0
	for sd, evs := range per {
		sort.Slice(evs, func(i, j int) bool {
			if evs[i].at != evs[j].at {
				return evs[i].at < evs[j].at
			}
			return !evs[i].open && evs[j].open // a release at t frees the slot before an arrival at t
		})
		cnt := map[string]int{}
		for _, e := range evs {
			if e.open {
				cnt[e.topic]++
			} else if cnt[e.topic]--; cnt[e.topic] == 0 {
				delete(cnt, e.topic)
			}
			if len(cnt) > worst {
				worstS, worst, at = sd, len(cnt), e.at
			}
		}
	}
	return worstS, worst, at
}

func newC15run(hist c15hist) *c15run {
	r := &c15run{hist: hist, h: &recHandler{}, tick: make(chan time.Time), swept: map[string]bool{}, gcRounds: map[string]int{}}
	r.model = &c15model{L: hist.L, ratio: hist.Ratio, topics: map[string]*mtopic{}}
	sweep := time.Hour
	newTicker := func(time.Duration) *time.Ticker { return &time.Ticker{C: r.tick} }
	if hist.RealClock {
		sweep = 10 * time.Millisecond
		newTicker = time.NewTicker
	}
	r.box = &msg.Box{Logger: common.Nolog{}, MaxInFlightTopicsBySender: hist.L, GCSweep: sweep, GCExpire: sweep * time.Duration(hist.Ratio),
		NewTicker: newTicker, ForwardSend: func(uint8, []byte, []byte, ...tss.UniversalID) {}, MessageHandler: r.h}
	return r
}

// definitelyExpired / definitelyFresh per topic (virtual clock only)
func (r *c15run) definitelyExpired(t *mtopic) bool {
	return (r.model.ticks-1)-t.lastArrival > r.model.ratio
}
func (r *c15run) definitelyFresh(t *mtopic) bool {
	if r.hist.RealClock {
		// real time may have advanced further than the sleeps asked for: fresh only if no sleep happened since
		return r.model.ticks == t.lastMust
	}
	// only an arrival that must have been stored is known to have refreshed the topic (a message the box may have dropped
	// because its sender was over a limit refreshes nothing)
	return r.model.ticks-(t.lastMust-1) <= r.model.ratio
}

func (r *c15run) live(sender uint16, except string) (must, may int) {
	for name, t := range r.model.topics {
		if name == except || t.started {
			continue
		}
		hasMust, hasMay := false, false
		for _, x := range t.msgs {
			if x.sender != sender {
				continue
			}
			if x.status == stMust {
				hasMust, hasMay = true, true
			} else if x.status == stEither {
				hasMay = true
			}
		}
		if hasMust && r.definitelyFresh(t) {
			must++
		}
		if hasMay && !r.swept[name] {
			may++
		}
	}
	return
}

// exec runs the history; returns (signature, description) of the first disagreement with the model.
func (r *c15run) exec() (string, string) {
	// the box starts its clock lazily: make sure it runs before the first tick is pushed
	r.box.Send(uint8(tss.MsgTypeMPC), topic32("init"), []byte("init"), 9)
	defer r.box.Stop()
	m := r.model
	for si, st := range r.hist.Steps {
		switch st.Op {
		case "recv":
			for k := 0; k < st.N; k++ {
				r.seq++
				r.clock++
				id := fmt.Sprintf("%s/%d/#%d", st.Topic, st.Sender, r.seq)
				t := m.topics[st.Topic]
				if t == nil {
					t = &mtopic{}
					m.topics[st.Topic] = t
				}
				status := stMust
				if t.started {
					// forwarded at once (a started topic that idled beyond the expiry may be buffered again: either)
					if !r.definitelyFresh(t) {
						status = stEither
					}
				} else {
					mustLive, mayLive := r.live(st.Sender, st.Topic)
					cntMust, cntMay := 0, 0
					for _, x := range t.msgs {
						if x.sender == st.Sender {
							if x.status == stMust {
								cntMust++
							}
							if x.status != stMustNot {
								cntMay++
							}
						}
					}
					switch {
					case mustLive >= m.L+2 || cntMust >= perTopicLimit+2:
						status = stMustNot
					case mayLive+1 <= m.L && cntMay < perTopicLimit:
						status = stMust
					default:
						status = stEither
					}
					if len(t.msgs) > 0 && !r.definitelyFresh(t) {
						// the topic may have expired in between: what was buffered before is gone for sure (swept)
						// or in an unknown state; the newcomer opens the topic afresh
						for _, x := range t.msgs {
							if r.swept[st.Topic] {
								x.status = stMustNot
							} else if x.status == stMust {
								x.status = stEither
							}
						}
						if !r.swept[st.Topic] && status == stMust {
							status = stEither
						}
					}
				}
				before := len(r.h.take())
				_ = before
				r.box.HandleMessage(&tss.IncMessage{MsgType: uint8(tss.MsgTypeMPC), Topic: topic32(st.Topic), Source: st.Sender, Data: []byte(id)})
				out := r.h.take()
				if t.started {
					if status == stMust && (len(out) != 1 || string(out[0].Data) != id) {
						return "started-topic-not-forwarded", fmt.Sprintf("step %d %v: message for a started topic was not handed over at once (got %d hand-overs)", si, st, len(out))
					}
					if len(out) == 1 {
						continue
					}
					// buffered again after an idle period (it was observably not forwarded): from here on the topic is an unstarted one
					// that this message opened, and the message is judged like any message that opens a topic - it is in the buffer
					// unless its sender was beyond its limits
					t.started = false
					t.msgs = nil
					mustLive, mayLive := r.live(st.Sender, st.Topic)
					switch {
					case mustLive >= m.L+2:
						status = stMustNot
					case mayLive+1 <= m.L:
						status = stMust
					default:
						status = stEither
					}
				} else if len(out) != 0 {
					return "forwarded-before-start", fmt.Sprintf("step %d %v: %d messages were handed over although the local party has not sent on the topic", si, st, len(out))
				}
				t.msgs = append(t.msgs, &mmsg{id: id, sender: st.Sender, status: status, arrival: m.ticks, at: r.clock})
				if status != stMustNot {
					t.lastArrival = m.ticks
					delete(r.swept, st.Topic)
					r.gcRounds[st.Topic] = 0
				}
				if status == stMust {
					t.lastMust = m.ticks
				}
			}
		case "send":
			t := m.topics[st.Topic]
			if t == nil {
				t = &mtopic{}
				m.topics[st.Topic] = t
			}
			r.clock++
			r.box.Send(uint8(tss.MsgTypeMPC), topic32(st.Topic), []byte("out"), 9)
			out := r.h.take()
			if sig, what := r.judgeRelease(si, st, t, out); sig != "" {
				return sig, what
			}
			rel := map[string]bool{}
			for _, o := range out {
				rel[string(o.Data)] = true
			}
			for _, x := range t.msgs {
				if rel[x.id] {
					r.stored = append(r.stored, c15interval{x.sender, st.Topic, x.at, r.clock})
				}
			}
			if sd, n, at := r.topicsHeld(); n > m.L+1 {
				return "limit-exceeded/topics-per-sender", fmt.Sprintf("step %d %v: the messages released so far show that sender %d had messages buffered in %d topics at the same instant (logical time %d); the topic limit is %d (+1)", si, st, sd, n, at, m.L)
			}
			t.started = true
			t.msgs = nil
			t.lastArrival = m.ticks
			t.lastMust = m.ticks
			r.noteGC(st.Topic)
		case "gc":
			r.gcSeq++
			name := fmt.Sprintf("gc-%d", r.gcSeq)
			r.box.Send(uint8(tss.MsgTypeMPC), topic32(name), []byte("gc"), 9)
			if out := r.h.take(); len(out) != 0 {
				return "phantom", fmt.Sprintf("step %d: a Send on a fresh topic released %d messages", si, len(out))
			}
			r.noteGC(name)
		case "ticks":
			if r.hist.RealClock {
				// a slow machine only makes more time pass, which cannot turn "expired" into "not expired"
				time.Sleep(time.Duration(st.N)*15*time.Millisecond + 10*time.Millisecond)
				m.ticks += st.N
				continue
			}
			for k := 0; k < st.N; k++ {
				r.tick <- time.Time{}
			}
			m.ticks += st.N
			time.Sleep(100 * time.Microsecond) // let the last increment land (bands of +-1 epoch absorb it anyway)
		case "sleep":
			time.Sleep(time.Duration(st.N) * time.Millisecond)
		}
	}
	return "", ""
}

// noteGC: a Send just ran (GC had a chance afterwards). Topics that definitely expired collect GC rounds;
// after three rounds spaced by more than ratio epochs they count as swept for sure.
func (r *c15run) noteGC(except string) {
	for name, t := range r.model.topics {
		if name == except || t.started || len(t.msgs) == 0 {
			continue
		}
		if r.definitelyExpired(t) {
			r.gcRounds[name]++
			if r.gcRounds[name] >= 3 {
				r.swept[name] = true
			}
		}
	}
}

func (r *c15run) judgeRelease(si int, st c15step, t *mtopic, out []*tss.IncMessage) (string, string) {
	got := map[string]int{}
	var order []string
	for _, o := range out {
		got[string(o.Data)]++
		order = append(order, string(o.Data))
	}
	known := map[string]*mmsg{}
	for _, x := range t.msgs {
		known[x.id] = x
	}
	for id, c := range got {
		if known[id] == nil {
			return "phantom", fmt.Sprintf("step %d %v released %s which was not buffered for this topic", si, st, id)
		}
		if c > 1 {
			return "released-twice", fmt.Sprintf("step %d %v released %s %d times", si, st, id, c)
		}
	}
	expiredForSure := r.swept[st.Topic]
	mayHaveExpired := len(t.msgs) > 0 && !r.definitelyFresh(t)
	perSender := map[uint16]int{}
	for _, x := range t.msgs {
		if got[x.id] > 0 {
			perSender[x.sender]++
		}
		switch {
		case expiredForSure:
			if got[x.id] > 0 {
				return "expired-data-released", fmt.Sprintf("step %d %v released %s although the topic expired %d epochs ago and garbage collection had three chances since", si, st, x.id, r.model.ticks-t.lastArrival)
			}
		case x.status == stMust && !mayHaveExpired:
			if got[x.id] == 0 {
				return "throttled-within-limits", fmt.Sprintf("step %d %v did not release %s although its sender was within the limits when it arrived (history %s)", si, st, x.id, r.hist.Name)
			}
		case x.status == stMustNot:
			if got[x.id] > 0 {
				return "limit-exceeded", fmt.Sprintf("step %d %v released %s although its sender was beyond the limits (+1) when it arrived", si, st, x.id)
			}
		}
	}
	for s, c := range perSender {
		if c > perTopicLimit+2 {
			return "limit-exceeded", fmt.Sprintf("step %d %v released %d messages of sender %d for one topic (limit %d)", si, st, c, s, perTopicLimit)
		}
	}
	// per-sender order among the released messages follows arrival order
	pos := map[string]int{}
	for i, x := range t.msgs {
		pos[x.id] = i
	}
	last := map[uint16]int{}
	for _, id := range order {
		x := known[id]
		if p, ok := last[x.sender]; ok && pos[id] < p {
			return "reordered", fmt.Sprintf("step %d %v released messages of sender %d out of arrival order", si, st, x.sender)
		}
		last[x.sender] = pos[id]
	}
	return "", ""
}

// ---- history generators ----

func c15templates(L, ratio int) []c15hist {
	var out []c15hist
	expire := []c15step{{Op: "ticks", N: ratio + 3}, {Op: "gc"}, {Op: "ticks", N: ratio + 1}, {Op: "gc"}, {Op: "ticks", N: ratio + 1}, {Op: "gc"}, {Op: "ticks", N: 1}, {Op: "gc"}}
	// (a) churn: topics strictly one after the other, each started at once, far beyond the topic limit
	{
		h := c15hist{Name: "churn", L: L, Ratio: ratio}
		for i := 0; i < 3*L+8; i++ {
			t := fmt.Sprintf("churn-%d", i)
			h.Steps = append(h.Steps, c15step{Op: "recv", Sender: 7, Topic: t, N: 2}, c15step{Op: "send", Topic: t})
		}
		out = append(out, h)
	}
	// (b) burst beyond the per-topic limit, then start
	out = append(out, c15hist{Name: "burst-over-per-topic-limit", L: L, Ratio: ratio, Steps: []c15step{
		{Op: "recv", Sender: 7, Topic: "big", N: perTopicLimit + 30}, {Op: "recv", Sender: 8, Topic: "big", N: 3}, {Op: "send", Topic: "big"},
		{Op: "recv", Sender: 7, Topic: "next", N: 2}, {Op: "send", Topic: "next"}}})
	// (b') very long bursts of one sender on one unstarted topic (the count of what is kept must not depend on how long the burst is)
	for _, burst := range []int{255, 256, 257, 300, 1000, 5000} {
		if L != 3 && burst != 300 {
			continue // once per burst length is enough (the per-topic limit does not depend on L)
		}
		out = append(out, c15hist{Name: fmt.Sprintf("burst-of-%d-on-one-topic", burst), L: L, Ratio: ratio, Steps: []c15step{
			{Op: "recv", Sender: 7, Topic: "huge", N: burst}, {Op: "recv", Sender: 8, Topic: "huge", N: 3}, {Op: "send", Topic: "huge"},
			{Op: "recv", Sender: 7, Topic: "after-huge", N: 2}, {Op: "send", Topic: "after-huge"}}})
	}
	// (c) too many topics at once, then start them all, then the sender must be served again
	{
		h := c15hist{Name: "too-many-topics", L: L, Ratio: ratio}
		for i := 0; i < L+5; i++ {
			h.Steps = append(h.Steps, c15step{Op: "recv", Sender: 7, Topic: fmt.Sprintf("many-%d", i), N: 1})
		}
		h.Steps = append(h.Steps, c15step{Op: "recv", Sender: 8, Topic: "many-0", N: 1})
		for i := 0; i < L+5; i++ {
			h.Steps = append(h.Steps, c15step{Op: "send", Topic: fmt.Sprintf("many-%d", i)})
		}
		for i := 0; i < L; i++ {
			h.Steps = append(h.Steps, c15step{Op: "recv", Sender: 7, Topic: fmt.Sprintf("after-%d", i), N: 1})
		}
		for i := 0; i < L; i++ {
			h.Steps = append(h.Steps, c15step{Op: "send", Topic: fmt.Sprintf("after-%d", i)})
		}
		out = append(out, h)
	}
	// (d) expiry: a topic that never starts is discarded and no longer counts against its sender
	{
		h := c15hist{Name: "expiry", L: L, Ratio: ratio}
		for i := 0; i < L; i++ {
			h.Steps = append(h.Steps, c15step{Op: "recv", Sender: 7, Topic: fmt.Sprintf("stale-%d", i), N: 2})
		}
		h.Steps = append(h.Steps, expire...)
		for i := 0; i < L; i++ {
			h.Steps = append(h.Steps, c15step{Op: "recv", Sender: 7, Topic: fmt.Sprintf("fresh-%d", i), N: 1})
		}
		for i := 0; i < L; i++ {
			h.Steps = append(h.Steps, c15step{Op: "send", Topic: fmt.Sprintf("fresh-%d", i)})
		}
		h.Steps = append(h.Steps, c15step{Op: "send", Topic: "stale-0"})
		out = append(out, h)
	}
	// (e) idle period far longer than the expiry without any Send, then expiry must still work
	{
		h := c15hist{Name: "idle-then-expiry", L: L, Ratio: ratio}
		h.Steps = append(h.Steps, c15step{Op: "gc"}, c15step{Op: "ticks", N: 4*ratio + 5}, c15step{Op: "gc"})
		for i := 0; i < L; i++ {
			h.Steps = append(h.Steps, c15step{Op: "recv", Sender: 9, Topic: fmt.Sprintf("idle-stale-%d", i), N: 1})
		}
		h.Steps = append(h.Steps, expire...)
		for i := 0; i < L; i++ {
			h.Steps = append(h.Steps, c15step{Op: "recv", Sender: 9, Topic: fmt.Sprintf("idle-fresh-%d", i), N: 1})
		}
		for i := 0; i < L; i++ {
			h.Steps = append(h.Steps, c15step{Op: "send", Topic: fmt.Sprintf("idle-fresh-%d", i)})
		}
		h.Steps = append(h.Steps, c15step{Op: "send", Topic: "idle-stale-0"})
		out = append(out, h)
	}
	// (f') topics that were started, idled far beyond the expiry (the collector had its chances) and are then used AGAIN: a message
	// arrives (forwarded at once or buffered anew, either is fine), the local party sends again - by then the message has been handed
	// over - and afterwards the sender is served on fresh topics (a topic that started releases its bookkeeping, also the second time)
	{
		h := c15hist{Name: "restart-after-expiry", L: L, Ratio: ratio}
		for i := 0; i < L+2; i++ {
			h.Steps = append(h.Steps, c15step{Op: "send", Topic: fmt.Sprintf("again-%d", i)})
		}
		h.Steps = append(h.Steps, expire...)
		for i := 0; i < L+2; i++ {
			t := fmt.Sprintf("again-%d", i)
			h.Steps = append(h.Steps, c15step{Op: "recv", Sender: 7, Topic: t, N: 1}, c15step{Op: "send", Topic: t}, c15step{Op: "recv", Sender: 7, Topic: t, N: 1})
		}
		for i := 0; i < L; i++ {
			h.Steps = append(h.Steps, c15step{Op: "recv", Sender: 7, Topic: fmt.Sprintf("again-fresh-%d", i), N: 1})
		}
		for i := 0; i < L; i++ {
			h.Steps = append(h.Steps, c15step{Op: "send", Topic: fmt.Sprintf("again-fresh-%d", i)})
		}
		out = append(out, h)
	}
	// (g) a sender follows into topics that OTHER senders opened: the topic limit is per sender, whoever opened the topic
	{
		h := c15hist{Name: "follow-into-others-topics", L: L, Ratio: ratio}
		var ts []string
		for _, opener := range []uint16{3, 4, 5} {
			for i := 0; i < L; i++ {
				t := fmt.Sprintf("opened-by-%d-%d", opener, i)
				ts = append(ts, t)
				h.Steps = append(h.Steps, c15step{Op: "recv", Sender: opener, Topic: t, N: 1})
			}
		}
		for _, t := range ts {
			h.Steps = append(h.Steps, c15step{Op: "recv", Sender: 9, Topic: t, N: 1})
		}
		for _, t := range ts {
			h.Steps = append(h.Steps, c15step{Op: "send", Topic: t})
		}
		// afterwards everybody must be served again
		for _, sd := range []uint16{9, 3} {
			for i := 0; i < L; i++ {
				h.Steps = append(h.Steps, c15step{Op: "recv", Sender: sd, Topic: fmt.Sprintf("later-%d-%d", sd, i), N: 1})
			}
		}
		for _, sd := range []uint16{9, 3} {
			for i := 0; i < L; i++ {
				h.Steps = append(h.Steps, c15step{Op: "send", Topic: fmt.Sprintf("later-%d-%d", sd, i)})
			}
		}
		out = append(out, h)
	}
	// (f) retention: within the expiry nothing may vanish
	{
		h := c15hist{Name: "retention", L: L, Ratio: ratio}
		h.Steps = append(h.Steps, c15step{Op: "recv", Sender: 7, Topic: "keep", N: 3}, c15step{Op: "ticks", N: ratio - 2}, c15step{Op: "gc"}, c15step{Op: "recv", Sender: 7, Topic: "keep", N: 1},
			c15step{Op: "ticks", N: ratio - 2}, c15step{Op: "gc"}, c15step{Op: "send", Topic: "keep"})
		out = append(out, h)
	}
	return out
}

func c15random(rng *rand.Rand, idx int) c15hist {
	L := 2 + rng.Intn(4)
	ratio := 3 + rng.Intn(4)
	h := c15hist{Name: fmt.Sprintf("random-%d", idx), L: L, Ratio: ratio}
	steps := 50 + rng.Intn(250)
	if idx%40 == 0 {
		steps = 2000
	}
	topicN := 0
	var open []string // topics with buffered data, not started
	newTopic := func() string { topicN++; return fmt.Sprintf("r%d", topicN) }
	senders := []uint16{3, 4, 5}
	for i := 0; i < steps; i++ {
		switch x := rng.Intn(20); {
		case x < 8: // receive on an open or new topic
			var t string
			if len(open) > 0 && rng.Intn(3) > 0 {
				t = open[rng.Intn(len(open))]
			} else {
				t = newTopic()
				open = append(open, t)
			}
			n := 1 + rng.Intn(3)
			if rng.Intn(40) == 0 {
				n = perTopicLimit + rng.Intn(12) - 4
			}
			h.Steps = append(h.Steps, c15step{Op: "recv", Sender: senders[rng.Intn(len(senders))], Topic: t, N: n})
		case x < 14: // start an open topic
			if len(open) == 0 {
				continue
			}
			j := rng.Intn(len(open))
			h.Steps = append(h.Steps, c15step{Op: "send", Topic: open[j]})
			open = append(open[:j], open[j+1:]...)
		case x < 15 && len(open) > L && rng.Intn(3) == 0: // one sender follows into every open topic
			sd := senders[rng.Intn(len(senders))]
			for _, t := range open {
				h.Steps = append(h.Steps, c15step{Op: "recv", Sender: sd, Topic: t, N: 1})
			}
		case x < 16: // burst of new topics beyond the limit
			s := senders[rng.Intn(len(senders))]
			for k := 0; k < L+1+rng.Intn(4); k++ {
				t := newTopic()
				open = append(open, t)
				h.Steps = append(h.Steps, c15step{Op: "recv", Sender: s, Topic: t, N: 1})
			}
		case x < 18: // small clock advance
			h.Steps = append(h.Steps, c15step{Op: "ticks", N: 1 + rng.Intn(max(1, ratio-2))})
			if rng.Intn(2) == 0 {
				h.Steps = append(h.Steps, c15step{Op: "gc"})
			}
		default: // idle period beyond the expiry with GC rounds
			h.Steps = append(h.Steps, c15step{Op: "ticks", N: ratio + 3 + rng.Intn(3*ratio)})
			for k := 0; k < 3; k++ {
				h.Steps = append(h.Steps, c15step{Op: "gc"}, c15step{Op: "ticks", N: ratio + 1})
			}
			h.Steps = append(h.Steps, c15step{Op: "gc"})
		}
	}
	for _, t := range open {
		h.Steps = append(h.Steps, c15step{Op: "send", Topic: t})
	}
	return h
}

func histSummary(h c15hist) string {
	var sb strings.Builder
	for i, s := range h.Steps {
		if i >= 40 {
			fmt.Fprintf(&sb, " ...(%d steps)", len(h.Steps))
			break
		}
		sb.WriteString(s.String() + " ")
	}
	return sb.String()
}

func unitC15(e common.Env, p *common.Part) {
	p.Rule = "histories (receive bursts, first Sends, epoch ticks, GC-driving Sends) on a real msg.Box with MaxInFlightTopicsBySender 2..5 and a virtual epoch clock, compared step by step with a reference model written from the statement (must-deliver / must-not-deliver / either); plus excess traffic (over the per-topic and the topic limit) on topics of 0..40 bytes, which must be dropped without failing the call (a panic kills the child and is reported by the parent) and leave the box serving; distinct key = history content hash; non-trivial when the history exceeds a limit, contains an expiry or churns more than limit+1 topics"
	p.Assumptions = append(p.Assumptions, "the per-sender per-topic limit is the constant 100 of msgbox.go; bands: limit..limit+1 and expired-but-not-yet-swept are 'either'; expiry is judged only after three GC-driving Sends spaced by more than the expiry")
	if e.Mine(0) {
		// topics that are not 32-byte digests: more than limit+1 distinct unstarted topics of one sender that are longer than 32 bytes
		// and differ only after byte 32, shorter ones that differ only by trailing zero bytes, and one-byte differences at the end
		for _, fam := range []string{"common 32-byte prefix, differing suffix", "trailing zero bytes", "differing last byte of 32"} {
			const L = 3
			h := &boxHandler{}
			b := &msg.Box{Logger: common.Nolog{}, MaxInFlightTopicsBySender: L, GCSweep: time.Hour, GCExpire: 10 * time.Hour,
				NewTicker: time.NewTicker, ForwardSend: func(uint8, []byte, []byte, ...tss.UniversalID) {}, MessageHandler: h}
			var topics [][]byte
			for k := 0; k < 40; k++ {
				base := bytes.Repeat([]byte{0x42}, 32)
				switch fam {
				case "common 32-byte prefix, differing suffix":
					topics = append(topics, append(base, []byte(fmt.Sprintf("/%d", k))...))
				case "trailing zero bytes":
					topics = append(topics, append(base[:8], make([]byte, k)...))
				default:
					base[31] = byte(k)
					topics = append(topics, base)
				}
			}
			for k, t := range topics {
				b.HandleMessage(&tss.IncMessage{MsgType: uint8(tss.MsgTypeMPC), Topic: t, Source: 7, Data: []byte(fmt.Sprintf("x%d", k))})
			}
			released := 0
			for _, t := range topics {
				h.mu.Lock()
				before := len(h.log)
				h.mu.Unlock()
				b.Send(uint8(tss.MsgTypeMPC), t, []byte("out"), 9)
				h.mu.Lock()
				if len(h.log) > before {
					released++
				}
				h.mu.Unlock()
			}
			b.Stop()
			key := "40 unstarted topics of one sender, " + fam
			p.Begin(key)
			p.Case(key, true)
			p.Count("unusual_topic_families", 1)
			if released > L+1 {
				p.Violate("limit-exceeded/topics-per-sender/unusual-topics", fmt.Sprintf("%s: messages of the sender were released for %d topics that were all unstarted at the same time; the topic limit is %d (+1)", key, released, L), nil)
			}
		}
	}
	var hists []c15hist
	for L := 2; L <= 5; L++ {
		for _, ratio := range []int{2, 4, 7} {
			hists = append(hists, c15templates(L, ratio)...)
		}
	}
	for _, h := range c15templates(3, 4) {
		if h.Name == "expiry" || h.Name == "idle-then-expiry" || h.Name == "churn" {
			h.Name += "-realclock"
			h.RealClock = true
			hists = append(hists, h)
		}
	}
	n := e.Pick(300, 6000)
	for i := 0; i < n; i++ {
		hists = append(hists, c15random(e.Rng("c15", i), i))
	}
	// excess traffic on topics of every length (the topic of a received message is whatever the peer sent: 0..40 bytes): the
	// excess must be dropped, never make the call fail, and the box must go on serving afterwards
	if e.Mine(0) {
		for _, tl := range []int{0, 1, 2, 3, 4, 5, 7, 8, 16, 31, 32, 33, 40} {
			key := fmt.Sprintf("excess traffic on %d-byte topics", tl)
			p.Begin(key)
			h := &recHandler{}
			b := &msg.Box{Logger: common.Nolog{}, MaxInFlightTopicsBySender: 2, GCSweep: time.Hour, GCExpire: 10 * time.Hour, NewTicker: time.NewTicker,
				ForwardSend: func(uint8, []byte, []byte, ...tss.UniversalID) {}, MessageHandler: h}
			mkTopic := func(k int) []byte {
				t := make([]byte, tl)
				for i := range t {
					t[i] = byte(k*31 + i)
				}
				return t
			}
			done := make(chan struct{})
			go func() {
				defer close(done)
				// over the per-topic limit on one topic
				for k := 0; k < perTopicLimit+8; k++ {
					b.HandleMessage(&tss.IncMessage{MsgType: uint8(tss.MsgTypeMPC), Topic: mkTopic(1), Source: 7, Data: []byte{byte(k)}})
				}
				// over the topic limit (only distinguishable topics exist for lengths >= 1)
				for k := 2; k < 9; k++ {
					b.HandleMessage(&tss.IncMessage{MsgType: uint8(tss.MsgTypeMPC), Topic: mkTopic(k), Source: 7, Data: []byte("x")})
				}
				// another sender is still served, on a 32-byte topic
				b.HandleMessage(&tss.IncMessage{MsgType: uint8(tss.MsgTypeMPC), Topic: topic32("after-excess"), Source: 8, Data: []byte("probe")})
				b.Send(uint8(tss.MsgTypeMPC), topic32("after-excess"), []byte("out"), 9)
			}()
			select {
			case <-done:
				got := h.take()
				if len(got) != 1 || string(got[0].Data) != "probe" {
					p.Violate("throttled-within-limits/after-excess-on-short-topics", fmt.Sprintf("%s: afterwards another sender's message on a fresh topic was not released (%d hand-overs)", key, len(got)), nil)
				}
			case <-time.After(20 * time.Second):
				p.Violate("stuck/after-excess-on-short-topics", key+": the box did not return from HandleMessage / Send within 20 s", nil)
			}
			b.Stop()
			p.Case(key, true)
			p.Count("excess_topic_lengths", 1)
		}
	}
	for i, h := range hists {
		if !e.Mine(i) || p.ViolationCount() >= 3 {
			continue
		}
		p.Begin(h.Name)
		r := newC15run(h)
		sig, what := r.exec()
		nontrivial := false
		topics := map[string]bool{}
		for _, s := range h.Steps {
			if s.Op == "ticks" && s.N > h.Ratio || s.Op == "recv" && s.N > perTopicLimit {
				nontrivial = true
			}
			if s.Op == "recv" {
				topics[s.Topic] = true
			}
		}
		if len(topics) > h.L+1 {
			nontrivial = true
		}
		p.Case(fmt.Sprintf("%s/L=%d/r=%d/%x", h.Name, h.L, h.Ratio, common.H(fmt.Sprint(h.Steps))), nontrivial)
		p.Count("steps", int64(len(h.Steps)))
		p.Count("topics", int64(len(topics)))
		p.Count("messages", int64(r.seq))
		if sig != "" {
			cls := h.Name
			if strings.HasPrefix(cls, "random-") {
				cls = "random"
			}
			p.Violate(sig+"/"+cls, fmt.Sprintf("%s (L=%d, expire/sweep=%d): %s", h.Name, h.L, h.Ratio, what), map[string]interface{}{"history": h})
		}
		if i%97 == 0 {
			p.Sample(map[string]interface{}{"history": h.Name, "L": h.L, "ratio": h.Ratio, "steps": histSummary(h)})
		}
	}
}

// ---- C15 under the controlled scheduler: bookkeeping must be released also when receives race with the first Send ----

// unitC15ctl replays every schedule of a small racing configuration on several topics in a row (same box,
// topic limit 1) and then probes sequentially: the sender has nothing buffered, so a message for a fresh
// topic must be accepted and released. A slot leaked by a particular interleaving shows up after two rounds.
func unitC15ctl(e common.Env, p *common.Part) {
	p.Rule = "real msg.Box (MaxInFlightTopicsBySender=1) under the controlled scheduler: each schedule of a racing configuration {buffered messages; receive(s) || first Send} is replayed on three topics in a row, then a sequential probe demands that the same sender is served on a fresh topic; plus configurations in which one sender at its limit delivers on several fresh topics concurrently (then every topic is started and the topics that released its messages are counted: limit+1 at most); plus the collector (mark, yield point, sweep) racing with a delivery of a new sender for the expiring topic, replayed on three topics, all topics started, then a probe; distinct key = (configuration, schedule); non-trivial when the schedule switched threads at least twice"
	cfgs := []c14cfg{
		{Name: "recv m1 || Send", Threads: [][]string{{"r:A:7:m1"}, {"s:A"}}, Limit: e.Pick(3000, 100000)},
		{Name: "m0 buffered; recv m1 || Send", Pre: []string{"r:A:7:m0"}, Threads: [][]string{{"r:A:7:m1"}, {"s:A"}}, Limit: e.Pick(3000, 100000)},
		{Name: "m0 buffered; recv m1,m2 || Send", Pre: []string{"r:A:7:m0"}, Threads: [][]string{{"r:A:7:m1", "r:A:7:m2"}, {"s:A"}}, Limit: e.Pick(2500, 100000)},
		{Name: "m0 buffered; recv m1 || Send,Send", Pre: []string{"r:A:7:m0"}, Threads: [][]string{{"r:A:7:m1"}, {"s:A", "s:A"}}, Limit: e.Pick(2500, 100000)},
	}
	const rounds = 3
	for i, cfg := range cfgs {
		if !e.Mine(i) || p.ViolationCount() >= 3 {
			continue
		}
		cfg := cfg
		p.Begin(cfg.Name)
		run := func(prefix []int) ([]int, []int) {
			ctlMu.Lock()
			defer ctlMu.Unlock()
			h := &boxHandler{}
			b := newBox(h)
			b.MaxInFlightTopicsBySender = 1
			var first, firstEn []int
			var trace []string
			for r := 0; r < rounds; r++ {
				msg.SetVerifHook(func(string) {})
				for _, d := range cfg.Pre {
					mkOpShift(b, d, byte(r))()
				}
				s := ctlsched.New()
				msg.SetVerifHook(s.Hook)
				var ops [][]func()
				for _, th := range cfg.Threads {
					var o []func()
					for _, d := range th {
						o = append(o, mkOpShift(b, d, byte(r)))
					}
					ops = append(ops, o)
				}
				s.Start(ops)
				ch, en, ok := s.Run(func(step int, enabled []*ctlsched.Thread) int {
					if r == 0 {
						if step < len(prefix) {
							return prefix[step]
						}
						return 0
					}
					if step < len(first) {
						return first[step]
					}
					return 0
				})
				msg.SetVerifHook(func(string) {})
				if r == 0 {
					first, firstEn = ch, en
					trace = s.Trace
				}
				if !ok {
					p.Violate("stuck/"+cfg.Name, cfg.Name+": "+s.Deadlock, map[string]interface{}{"config": cfg, "schedule": s.Trace})
					b.Stop()
					return nil, nil
				}
			}
			// sequential probe on a fresh topic
			h.mu.Lock()
			h.log = nil
			h.mu.Unlock()
			mkOp(b, "r:Z:7:probe")()
			mkOp(b, "s:Z")()
			b.Stop()
			h.mu.Lock()
			got := append([]string{}, h.log...)
			h.mu.Unlock()
			switches := 0
			for j := 1; j < len(trace); j++ {
				if trace[j][0] != trace[j-1][0] {
					switches++
				}
			}
			p.Case(cfg.Name+"#"+strings.Join(trace, " "), switches >= 2)
			p.Count("schedules", 1)
			p.Count("probes_served", int64(len(got)))
			if len(got) != 1 {
				p.Violate("throttled-within-limits/after-racing-first-send", fmt.Sprintf("%s: after %d topics that started while a receive was racing with the first Send, a sender with nothing buffered is no longer served on a fresh topic (probe released %v)", cfg.Name, rounds, got),
					map[string]interface{}{"config": cfg, "schedule": trace})
				return nil, nil
			}
			return first, firstEn
		}
		execs, exhaustive := ctlsched.Explore(cfg.Limit, run, func(ch []int) bool { return ch != nil && p.ViolationCount() < 3 })
		p.SetExhaustive(cfg.Name, exhaustive)
		p.Sample(map[string]interface{}{"config": cfg.Name, "schedules_enumerated": execs, "exhaustive": exhaustive, "rounds_per_schedule": rounds})
	}
	// the collector racing with a delivery: topic A (one message of sender 7 buffered) has expired; a Send on another topic runs the
	// collector (mark, yield point, sweep) while a message of ANOTHER sender (8) for topic A arrives. Replayed on three topics
	// (topic limit 1), then every topic is started and sender 8 must still be served on a fresh topic: whatever the collector
	// dropped, it must have released the bookkeeping of everybody whose data it dropped.
	gcCfgs := []c14cfg{
		{Name: "limit 1, expiry 3 epochs: A expired; Send M (collector) || recv A from a new sender", Pre: []string{"r:A:7:m0", "k", "k", "k", "k", "k"}, Threads: [][]string{{"s:M"}, {"r:A:8:x0"}}, Limit: e.Pick(3000, 100000)},
		{Name: "limit 1, expiry 3 epochs: A expired; Send M (collector) || recv A from a new sender, recv A again", Pre: []string{"r:A:7:m0", "k", "k", "k", "k", "k"}, Threads: [][]string{{"s:M"}, {"r:A:8:x0", "r:A:8:x1"}}, Limit: e.Pick(3000, 100000)},
	}
	for i, cfg := range gcCfgs {
		if !e.Mine(len(cfgs)+3+i) || p.ViolationCount() >= 3 {
			continue
		}
		cfg := cfg
		p.Begin(cfg.Name)
		sawGC := false
		run := func(prefix []int) ([]int, []int) {
			ctlMu.Lock()
			defer ctlMu.Unlock()
			h := &boxHandler{}
			b := newTickBox(h, 3)
			defer boxTicks.Delete(b)
			b.MaxInFlightTopicsBySender = 1
			msg.SetVerifHook(func(string) {})
			mkOp(b, "s:Z")() // starts the clock
			mkOp(b, "k")()
			var first, firstEn []int
			var trace []string
			for r := 0; r < rounds; r++ {
				msg.SetVerifHook(func(string) {})
				for _, d := range cfg.Pre {
					mkOpShift(b, d, byte(r))()
				}
				s := ctlsched.New()
				msg.SetVerifHook(s.Hook)
				var ops [][]func()
				for _, th := range cfg.Threads {
					var o []func()
					for _, d := range th {
						o = append(o, mkOpShift(b, d, byte(r)))
					}
					ops = append(ops, o)
				}
				s.Start(ops)
				ch, en, ok := s.Run(func(step int, enabled []*ctlsched.Thread) int {
					src := prefix
					if r > 0 {
						src = first
					}
					if step < len(src) {
						return src[step]
					}
					return 0
				})
				msg.SetVerifHook(func(string) {})
				if r == 0 {
					first, firstEn = ch, en
					trace = s.Trace
				}
				if s.Points["gc.marked"] {
					sawGC = true
				}
				if !ok {
					p.Violate("stuck/"+cfg.Name, cfg.Name+": "+s.Deadlock, map[string]interface{}{"config": cfg, "schedule": s.Trace})
					b.Stop()
					return nil, nil
				}
			}
			// start everything, then the probe
			for r := 0; r < rounds; r++ {
				mkOpShift(b, "s:A", byte(r))()
			}
			h.mu.Lock()
			h.log = nil
			h.mu.Unlock()
			mkOp(b, "r:Y:8:probe")()
			mkOp(b, "s:Y")()
			b.Stop()
			h.mu.Lock()
			got := append([]string{}, h.log...)
			h.mu.Unlock()
			p.Case(cfg.Name+"#"+strings.Join(trace, " "), true)
			p.Count("schedules", 1)
			p.Count("gc_schedules", 1)
			p.Count("probes_served", int64(len(got)))
			if len(got) != 1 {
				p.Violate("throttled-within-limits/after-collector-raced-a-delivery", fmt.Sprintf("%s: after %d topics whose expiry was collected while another sender's message for them arrived, and after every topic was started, that sender (nothing buffered any more) is not served on a fresh topic (probe released %v)", cfg.Name, rounds, got),
					map[string]interface{}{"config": cfg, "schedule": trace})
				return nil, nil
			}
			return first, firstEn
		}
		execs, exhaustive := ctlsched.Explore(cfg.Limit, run, func(ch []int) bool { return ch != nil && p.ViolationCount() < 3 })
		p.SetExhaustive(cfg.Name, exhaustive)
		if !sawGC {
			p.Inconcl(cfg.Name + ": the yield point between the collector's passes was never reached (hook missing in this build?)")
		}
		p.Sample(map[string]interface{}{"config": cfg.Name, "schedules_enumerated": execs, "exhaustive": exhaustive})
	}
	// the topic limit under concurrent receives: a sender at its limit delivers on several fresh topics at the same time (one
	// dispatcher goroutine per topic); whatever the interleaving, it may end up buffered in limit+1 topics at most. Afterwards
	// every topic is started sequentially and the topics in which the sender's message was released are counted.
	bound := []c14cfg{
		{Name: "limit 1: a0 buffered; recv B || recv C || recv D (one sender)", Pre: []string{"r:A:7:a0"}, Threads: [][]string{{"r:B:7:b0"}, {"r:C:7:c0"}, {"r:D:7:d0"}}, Limit: e.Pick(4000, 200000)},
		{Name: "limit 1: recv A || recv B || recv C || recv D (one sender)", Threads: [][]string{{"r:A:7:a0"}, {"r:B:7:b0"}, {"r:C:7:c0"}, {"r:D:7:d0"}}, Limit: e.Pick(4000, 200000)},
		{Name: "limit 1: a0 buffered; recv B,C || recv D,E (one sender)", Pre: []string{"r:A:7:a0"}, Threads: [][]string{{"r:B:7:b0", "r:C:7:c0"}, {"r:D:7:d0", "r:E:7:e0"}}, Limit: e.Pick(4000, 200000)},
	}
	for i, cfg := range bound {
		if !e.Mine(len(cfgs)+i) || p.ViolationCount() >= 3 {
			continue
		}
		cfg := cfg
		p.Begin(cfg.Name)
		run := func(prefix []int) ([]int, []int) {
			ch, en, _, sch, ok := runCtlBox(cfg, 1, func(step, n int) int {
				if step < len(prefix) {
					return prefix[step]
				}
				return 0
			}, func(b *msg.Box, h *boxHandler) {
				for _, t := range []string{"A", "B", "C", "D", "E"} {
					mkOp(b, "s:"+t)()
				}
			})
			if !ok {
				p.Violate("stuck/"+cfg.Name, cfg.Name+": "+sch.Deadlock, map[string]interface{}{"config": cfg, "schedule": sch.Trace})
				return nil, nil
			}
			topics := map[string]bool{}
			for _, l := range sch.Handed {
				f := strings.SplitN(l, "/", 3)
				if f[1] == "7" {
					topics[f[0]] = true
				}
			}
			p.Case(cfg.Name+"#"+strings.Join(sch.Trace, " "), true)
			p.Count("schedules", 1)
			p.Count("bound_schedules", 1)
			if len(topics) > 2 {
				p.Violate("limit-exceeded/topics-per-sender/concurrent-receives", fmt.Sprintf("%s: messages of sender 7 were released for %d topics that were all unstarted at the same time; the topic limit is 1 (+1)", cfg.Name, len(topics)),
					map[string]interface{}{"config": cfg, "schedule": sch.Trace, "handed_over": sch.Handed})
				return nil, nil
			}
			if len(cfg.Pre) > 0 && !topics["A"] {
				p.Violate("throttled-within-limits/concurrent-receives", cfg.Name+": the message buffered first (sender within its limit) was not released", map[string]interface{}{"config": cfg, "schedule": sch.Trace})
				return nil, nil
			}
			return ch, en
		}
		execs, exhaustive := ctlsched.Explore(cfg.Limit, run, func(ch []int) bool { return ch != nil && p.ViolationCount() < 3 })
		p.SetExhaustive(cfg.Name, exhaustive)
		p.Sample(map[string]interface{}{"config": cfg.Name, "schedules_enumerated": execs, "exhaustive": exhaustive})
	}
}
