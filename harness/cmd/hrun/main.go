// hrun is the parent process of every check: it starts the child processes (driver binaries, one per
// shard of each unit), survives their death, merges what they observed, matches violations against
// /verif/known_findings.json, writes /verif/evidence/<id>.json and prints the verdict lines.
//
//	hrun -prop C04 -tier quick            run a check
//	hrun -replay evidence/replays/x.json  re-run the unit/seed/tier a witness came from
//
// Exit codes: 0 held on everything explored (known findings are printed, not failed);
// 1 at least one violation that known_findings.json does not list; 2 inconclusive; 3 harness failure.
package main

import (
	"bufio"
	"context"
	"encoding/json"
	"flag"
	"fmt"
	"os"
	"os/exec"
	"path/filepath"
	"regexp"
	"sort"
	"strconv"
	"strings"
	"sync"
	"syscall"
	"time"

	"verifharness/common"
)

type unit struct {
	Bin     string // driver binary name under bin/
	Name    string
	ShardsQ int
	ShardsT int
	Race    bool
	MaxQ    time.Duration // safety-net timeouts of one child (inconclusive when hit)
	MaxT    time.Duration
}

type check struct {
	ID     string
	Level  string
	Units  []unit
	Floors map[string]int64 // counters that must reach at least this value, else inconclusive
	Explan string
}

func u(bin, name string, sq, st int) unit {
	return unit{Bin: bin, Name: name, ShardsQ: sq, ShardsT: st, MaxQ: 8 * time.Minute, MaxT: 50 * time.Minute}
}

func ur(bin, name string, sq, st int) unit {
	x := u(bin, name, sq, st)
	x.Race = true
	return x
}

var root = "/verif"

type finding struct {
	Property  string `json:"property"`
	Signature string `json:"signature"`
	Status    string `json:"status"`
	Commit    string `json:"commit,omitempty"`
	What      string `json:"what"`
}

func loadFindings() []finding {
	var f struct {
		Findings []finding `json:"findings"`
	}
	b, err := os.ReadFile(filepath.Join(root, "known_findings.json"))
	if err != nil {
		return nil
	}
	if err := json.Unmarshal(b, &f); err != nil {
		fmt.Fprintln(os.Stderr, "known_findings.json is malformed:", err)
		os.Exit(3)
	}
	return f.Findings
}

type childResult struct {
	u        unit
	shard    int
	shards   int
	part     *common.Part
	crash    *common.Violation
	harness  string // non-empty: harness bug description
	timedOut bool
	races    []common.Violation
	log      string
}

func main() {
	prop := flag.String("prop", "", "property id")
	tier := flag.String("tier", "quick", "quick|thorough")
	replay := flag.String("replay", "", "witness file to replay")
	onlyUnit := flag.String("unit", "", "run only this unit (debugging)")
	flag.Parse()
	if r := os.Getenv("VERIF_ROOT"); r != "" {
		root = r
	}
	seed := int64(1)
	if s := os.Getenv("VERIF_SEED"); s != "" {
		if v, err := strconv.ParseInt(s, 10, 64); err == nil {
			seed = v
		}
	}
	if *replay != "" {
		var w struct {
			Property string `json:"property"`
			Unit     string `json:"unit"`
			Seed     int64  `json:"seed"`
			Tier     string `json:"tier"`
			common.Violation
		}
		b, err := os.ReadFile(*replay)
		if err != nil || json.Unmarshal(b, &w) != nil {
			fmt.Fprintln(os.Stderr, "cannot read witness", *replay)
			os.Exit(3)
		}
		fmt.Printf("witness: property=%s unit=%s seed=%d tier=%s\n  signature: %s\n  what: %s\n", w.Property, w.Unit, w.Seed, w.Tier, w.Signature, w.What)
		rb, _ := json.MarshalIndent(w.Replay, "  ", " ")
		fmt.Printf("  data: %s\nre-running that unit with the same seed and tier...\n", rb)
		*prop, *tier, seed, *onlyUnit = w.Property, w.Tier, w.Seed, w.Unit
	}
	c, ok := checks[*prop]
	if !ok {
		fmt.Fprintln(os.Stderr, "unknown property", *prop)
		os.Exit(3)
	}
	os.Exit(run(c, *tier, seed, *onlyUnit))
}

func run(c check, tier string, seed int64, onlyUnit string) int {
	start := time.Now()
	bin := filepath.Join(root, "bin")
	if b := os.Getenv("VERIF_BIN"); b != "" {
		bin = b
	}
	evdir := filepath.Join(root, "evidence")
	if e := os.Getenv("VERIF_EVIDENCE"); e != "" {
		evdir = e
	}
	parts := filepath.Join(evdir, "parts")
	logs := filepath.Join(evdir, "logs")
	replays := filepath.Join(evdir, "replays")
	for _, d := range []string{parts, logs, replays} {
		os.MkdirAll(d, 0o755)
	}
	// remove stale replays/parts of this property
	for _, pat := range []string{filepath.Join(replays, c.ID+"-*.json"), filepath.Join(parts, c.ID+".*"), filepath.Join(logs, c.ID+".*")} {
		m, _ := filepath.Glob(pat)
		for _, f := range m {
			os.Remove(f)
		}
	}

	var results []*childResult
	var mu sync.Mutex
	var wg sync.WaitGroup
	sem := make(chan struct{}, 16)
	for _, un := range c.Units {
		if onlyUnit != "" && un.Name != onlyUnit {
			continue
		}
		shards := un.ShardsQ
		maxDur := un.MaxQ
		if tier == "thorough" {
			shards = un.ShardsT
			maxDur = un.MaxT
		}
		if shards < 1 {
			shards = 1
		}
		for s := 0; s < shards; s++ {
			un, s := un, s
			wg.Add(1)
			go func() {
				defer wg.Done()
				sem <- struct{}{}
				defer func() { <-sem }()
				r := runChild(c, un, s, shards, tier, seed, bin, parts, logs, maxDur)
				mu.Lock()
				results = append(results, r)
				mu.Unlock()
			}()
		}
	}
	wg.Wait()
	sort.Slice(results, func(i, j int) bool {
		if results[i].u.Name != results[j].u.Name {
			return results[i].u.Name < results[j].u.Name
		}
		return results[i].shard < results[j].shard
	})

	// merge
	evaluations := 0
	distinct := map[uint64]struct{}{}
	var samples []interface{}
	counters := map[string]int64{}
	notes := map[string]interface{}{}
	exhaustive := map[string]bool{}
	var rules []string
	assumptions := []string{"the harness's own recorders and simulated networks are correct (they are part of the trusted base of every check)"}
	seenRule := map[string]bool{}
	type tagged struct {
		unit string
		v    common.Violation
	}
	var violations []tagged
	var inconclusive []string
	harnessBug := ""
	perUnitSamples := map[string]int{}
	for _, r := range results {
		if r.harness != "" {
			harnessBug = r.harness
		}
		if r.timedOut {
			inconclusive = append(inconclusive, fmt.Sprintf("%s shard %d hit the safety-net timeout (log %s)", r.u.Name, r.shard, r.log))
		}
		if r.crash != nil {
			violations = append(violations, tagged{r.u.Name, *r.crash})
		}
		for _, v := range r.races {
			if !strings.Contains(v.Signature, "github.com/IBM/TSS") {
				if strings.Contains(v.Signature, "(harness frames)") {
					harnessBug = "the race detector reported a race in the harness itself: " + fmt.Sprint(v.Replay)
				} else {
					counters[r.u.Name+".third_party_race_reports"]++ // e.g. inside tss-lib: reported, not a property of IBM/TSS
				}
				continue
			}
			violations = append(violations, tagged{r.u.Name, v})
		}
		p := r.part
		if p == nil {
			continue
		}
		evaluations += p.Evaluations
		for _, h := range p.Distinct {
			distinct[h] = struct{}{}
		}
		for _, s := range p.Samples {
			if perUnitSamples[r.u.Name] < 4 {
				samples = append(samples, map[string]interface{}{"unit": r.u.Name, "case": s})
				perUnitSamples[r.u.Name]++
			}
		}
		for k, v := range p.Counters {
			counters[r.u.Name+"."+k] += v
		}
		for k, v := range p.Notes {
			notes[r.u.Name+"."+k] = v
		}
		for k, v := range p.Exhaustive {
			key := r.u.Name + "." + k
			if old, ok := exhaustive[key]; ok {
				exhaustive[key] = old && v
			} else {
				exhaustive[key] = v
			}
		}
		if p.Rule != "" && !seenRule[p.Rule] {
			seenRule[p.Rule] = true
			rules = append(rules, r.u.Name+": "+p.Rule)
		}
		for _, a := range p.Assumptions {
			if !seenRule["A:"+a] {
				seenRule["A:"+a] = true
				assumptions = append(assumptions, a)
			}
		}
		for _, v := range p.Violations {
			violations = append(violations, tagged{r.u.Name, v})
		}
		for _, i := range p.Inconclusive {
			inconclusive = append(inconclusive, r.u.Name+": "+i)
		}
	}
	for k, floor := range c.Floors {
		if onlyUnit != "" && !strings.HasPrefix(k, onlyUnit+".") {
			continue
		}
		if counters[k] < floor {
			inconclusive = append(inconclusive, fmt.Sprintf("counter %s = %d is below the sanity floor %d: the monitored events were not observed", k, counters[k], floor))
		}
	}

	// verdicts
	findings := loadFindings()
	known := map[string]finding{}
	for _, f := range findings {
		if f.Property == c.ID && f.Status == "known" {
			known[f.Signature] = f
		}
	}
	seenSig := map[string]bool{}
	nViol := 0
	var knownHit []string
	var lines []string
	for _, tv := range violations {
		if seenSig[tv.v.Signature] {
			continue
		}
		seenSig[tv.v.Signature] = true
		if f, ok := known[tv.v.Signature]; ok {
			lines = append(lines, fmt.Sprintf("KNOWN-FINDING: property=%s %s [%s]", c.ID, f.What, tv.v.Signature))
			knownHit = append(knownHit, tv.v.Signature)
			continue
		}
		nViol++
		path := filepath.Join(replays, fmt.Sprintf("%s-%d.json", c.ID, nViol))
		w := map[string]interface{}{"property": c.ID, "unit": tv.unit, "seed": seed, "tier": tier,
			"signature": tv.v.Signature, "what": tv.v.What, "replay": tv.v.Replay}
		b, _ := json.MarshalIndent(w, "", " ")
		os.WriteFile(path, b, 0o644)
		lines = append(lines, fmt.Sprintf("VIOLATION property=%s replay=%s", c.ID, path))
		lines = append(lines, fmt.Sprintf("  signature: %s", tv.v.Signature))
		lines = append(lines, fmt.Sprintf("  what: %s", tv.v.What))
	}

	// evidence
	if len(samples) == 0 {
		samples = append(samples, "no case was completed")
	}
	cov := map[string]interface{}{
		"evaluations":          evaluations,
		"distinct_nontrivial":  len(distinct),
		"rule":                 strings.Join(rules, " || "),
		"samples":              samples,
		"counters":             counters,
		"notes":                notes,
		"exhaustive_subspaces": exhaustive,
		"exhaustive":           false,
		"known_findings_hit":   knownHit,
		"inconclusive":         inconclusive,
		"units":                unitNames(results),
	}
	if c.Level == "other" {
		cov["explanation"] = c.Explan + " Observed: " + summarize(counters)
	}
	ev := map[string]interface{}{
		"property_id": c.ID, "tier": tier, "seed": seed, "level": c.Level, "coverage": cov,
		"assumptions": assumptions, "wall_s": time.Since(start).Seconds(), "violations": nViol,
	}
	if onlyUnit == "" || os.Getenv("VERIF_WRITE_EVIDENCE") != "" {
		b, _ := json.MarshalIndent(ev, "", " ")
		tmp := filepath.Join(evdir, c.ID+".json.tmp")
		os.WriteFile(tmp, b, 0o644)
		os.Rename(tmp, filepath.Join(evdir, c.ID+".json"))
	}

	fmt.Printf("property=%s tier=%s seed=%d evaluations=%d distinct_nontrivial=%d wall=%.1fs\n", c.ID, tier, seed, evaluations, len(distinct), time.Since(start).Seconds())
	fmt.Printf("observed: %s\n", summarize(counters))
	for _, l := range lines {
		fmt.Println(l)
	}
	if harnessBug != "" {
		fmt.Println("HARNESS-FAILURE:", harnessBug)
		return 3
	}
	if nViol > 0 {
		return 1
	}
	if len(inconclusive) > 0 {
		for _, i := range inconclusive {
			fmt.Println("INCONCLUSIVE:", i)
		}
		return 2
	}
	fmt.Printf("HELD property=%s on everything explored\n", c.ID)
	return 0
}

func unitNames(rs []*childResult) []string {
	seen := map[string]bool{}
	var out []string
	for _, r := range rs {
		k := fmt.Sprintf("%s/%s x%d", r.u.Bin, r.u.Name, r.shards)
		if !seen[k] {
			seen[k] = true
			out = append(out, k)
		}
	}
	return out
}

func summarize(c map[string]int64) string {
	var keys []string
	for k := range c {
		if strings.Contains(k, "dup-violation:") {
			continue
		}
		keys = append(keys, k)
	}
	sort.Strings(keys)
	var sb strings.Builder
	for i, k := range keys {
		if i > 0 {
			sb.WriteString(" ")
		}
		fmt.Fprintf(&sb, "%s=%d", k, c[k])
	}
	return sb.String()
}

func runChild(c check, un unit, shard, shards int, tier string, seed int64, bin, parts, logs string, maxDur time.Duration) *childResult {
	r := &childResult{u: un, shard: shard, shards: shards}
	base := fmt.Sprintf("%s.%s.%d", c.ID, un.Name, shard)
	out := filepath.Join(parts, base+".json")
	journal := filepath.Join(parts, base+".journal")
	logPath := filepath.Join(logs, base+".log")
	r.log = logPath
	exe := filepath.Join(bin, un.Bin)
	if un.Race {
		exe += ".race"
	}
	lf, err := os.Create(logPath)
	if err != nil {
		r.harness = err.Error()
		return r
	}
	defer lf.Close()
	ctx, cancel := context.WithCancel(context.Background())
	defer cancel()
	cmd := exec.CommandContext(ctx, exe, "child", "-prop", c.ID, "-unit", un.Name, "-shard", strconv.Itoa(shard), "-shards", strconv.Itoa(shards),
		"-seed", strconv.FormatInt(seed, 10), "-tier", tier, "-out", out, "-journal", journal)
	cmd.Stdout = lf
	cmd.Stderr = lf
	cmd.Env = append(os.Environ(), "GOTRACEBACK=all")
	raceLog := filepath.Join(logs, base+".race")
	if un.Race {
		cmd.Env = append(cmd.Env, "GORACE=halt_on_error=0 log_path="+raceLog)
	}
	if err := cmd.Start(); err != nil {
		r.harness = fmt.Sprintf("cannot start %s: %v", exe, err)
		return r
	}
	done := make(chan error, 1)
	go func() { done <- cmd.Wait() }()
	var werr error
	select {
	case werr = <-done:
	case <-time.After(maxDur):
		r.timedOut = true
		cmd.Process.Signal(syscall.SIGQUIT) // goroutine dump into the log
		select {
		case werr = <-done:
		case <-time.After(20 * time.Second):
			cmd.Process.Kill()
			werr = <-done
		}
	}
	if b, err := os.ReadFile(out); err == nil {
		var p common.Part
		if json.Unmarshal(b, &p) == nil {
			r.part = &p
		}
	}
	if un.Race {
		r.races = raceReports(raceLog)
	}
	if r.timedOut {
		return r
	}
	// a -race child that finished its work exits with the detector's own code when it saw races: that is not a crash
	if r.part == nil || !r.part.Done || (werr != nil && !un.Race) {
		// the child died: find out where
		running := runningCases(journal)
		sig, what, harness := classifyCrash(logPath)
		if harness {
			r.harness = fmt.Sprintf("%s shard %d: %s (log %s)", un.Name, shard, what, logPath)
			return r
		}
		r.crash = &common.Violation{Signature: "crash/" + sig, What: fmt.Sprintf("process died while running %v: %s", running, what),
			Replay: map[string]interface{}{"running_cases": running, "log": logPath, "exit": fmt.Sprint(werr)}}
	}
	return r
}

func runningCases(journal string) []string {
	f, err := os.Open(journal)
	if err != nil {
		return nil
	}
	defer f.Close()
	open := map[string]int{}
	var order []string
	sc := bufio.NewScanner(f)
	sc.Buffer(make([]byte, 1<<20), 1<<24)
	for sc.Scan() {
		l := sc.Text()
		if len(l) < 3 {
			continue
		}
		switch l[0] {
		case 'B':
			open[l[2:]]++
			order = append(order, l[2:])
		case 'E':
			open[l[2:]]--
		}
	}
	var res []string
	seen := map[string]bool{}
	for i := len(order) - 1; i >= 0 && len(res) < 8; i-- {
		if open[order[i]] > 0 && !seen[order[i]] {
			seen[order[i]] = true
			res = append(res, order[i])
		}
	}
	return res
}

var frameRe = regexp.MustCompile(`^([^\s(][^\s]*)\(`)

// classifyCrash reads a Go crash dump: returns a signature (panic class + innermost function outside
// the runtime), a description, and whether the innermost such frame belongs to the harness itself.
func classifyCrash(logPath string) (sig, what string, harness bool) {
	b, err := os.ReadFile(logPath)
	if err != nil {
		return "unknown", "no log", false
	}
	lines := strings.Split(string(b), "\n")
	start := -1
	for i, l := range lines {
		if strings.HasPrefix(l, "panic: ") || strings.HasPrefix(l, "fatal error: ") {
			start = i
			break
		}
	}
	if start < 0 {
		tail := lines
		if len(tail) > 15 {
			tail = tail[len(tail)-15:]
		}
		return "exit-without-panic", "child exited abnormally without a panic message: " + strings.Join(tail, " / "), true
	}
	msg := lines[start]
	if i := strings.Index(msg, " [recovered]"); i > 0 {
		msg = msg[:i]
	}
	// first goroutine block after the message is the panicking one
	fn := ""
	inGoroutine := false
	for _, l := range lines[start+1:] {
		if strings.HasPrefix(l, "goroutine ") {
			if inGoroutine {
				break
			}
			inGoroutine = true
			continue
		}
		if !inGoroutine {
			continue
		}
		m := frameRe.FindStringSubmatch(l)
		if m == nil {
			continue
		}
		f := m[1]
		if strings.HasPrefix(f, "runtime.") || strings.HasPrefix(f, "panic") || strings.HasPrefix(f, "runtime/") || strings.HasPrefix(f, "sync.") || strings.HasPrefix(f, "internal/") {
			continue
		}
		fn = f
		break
	}
	class := msg
	// strip variable parts (addresses, numbers) from the class
	class = regexp.MustCompile(`0x[0-9a-f]+`).ReplaceAllString(class, "X")
	class = regexp.MustCompile(`[0-9]+`).ReplaceAllString(class, "N")
	if len(class) > 90 {
		class = class[:90]
	}
	fnShort := regexp.MustCompile(`\.func[0-9.]+$`).ReplaceAllString(fn, "")
	return class + "@" + fnShort, msg + " in " + fn, strings.HasPrefix(fn, "verifharness/") || strings.HasPrefix(fn, "main.")
}

var raceFrame = regexp.MustCompile(`^\s+(github\.com/IBM/TSS/\S+)\(\)\s*$`)

// raceReports parses the race detector's log files and returns one violation per distinct pair of
// innermost IBM/TSS frames.
func raceReports(prefix string) []common.Violation {
	files, _ := filepath.Glob(prefix + ".*")
	var out []common.Violation
	seen := map[string]bool{}
	for _, f := range files {
		b, err := os.ReadFile(f)
		if err != nil {
			continue
		}
		blocks := strings.Split(string(b), "WARNING: DATA RACE")
		for _, blk := range blocks[1:] {
			// stacks are separated by blank lines; take the innermost IBM/TSS frame of the first two stacks
			var frames []string
			for _, st := range strings.Split(blk, "\n\n") {
				if len(frames) >= 2 {
					break
				}
				if !(strings.Contains(st, "Write at") || strings.Contains(st, "Read at") || strings.Contains(st, "Previous write") || strings.Contains(st, "Previous read")) {
					continue
				}
				fr := "(third-party frames only)"
				for _, l := range strings.Split(st, "\n") {
					if m := raceFrame.FindStringSubmatch(l); m != nil {
						fr = regexp.MustCompile(`\.func[0-9.]+$`).ReplaceAllString(m[1], "")
						break
					}
				}
				if fr == "(third-party frames only)" {
					for _, l := range strings.Split(st, "\n") {
						t := strings.TrimSpace(l)
						if strings.HasPrefix(t, "verifharness/") || strings.HasPrefix(t, "main.") {
							fr = "(harness frames)"
							break
						}
					}
				}
				frames = append(frames, fr)
			}
			sort.Strings(frames)
			sig := "race/" + strings.Join(frames, "|")
			if seen[sig] {
				continue
			}
			seen[sig] = true
			text := blk
			if len(text) > 3000 {
				text = text[:3000]
			}
			out = append(out, common.Violation{Signature: sig, What: "data race between " + strings.Join(frames, " and "),
				Replay: map[string]interface{}{"report": text, "file": f}})
		}
	}
	return out
}
