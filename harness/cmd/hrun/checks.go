package main

var checks = map[string]check{
	"C02": {ID: "C02", Level: "fault_enumeration", Units: []unit{u("hcore", "byzrbc", 6, 16), u("hcore", "byzorch", 8, 16)},
		Floors: map[string]int64{"byzrbc.byzantine_deliveries": 1000, "byzrbc.handovers": 1000, "byzorch.byzantine_deliveries": 500, "byzorch.handovers": 300}},
	"C03": {ID: "C03", Level: "fault_enumeration", Units: []unit{u("hcore", "byzrbc", 6, 16), u("hcore", "byzorch", 8, 16)},
		Floors: map[string]int64{"byzrbc.byzantine_deliveries": 1000, "byzrbc.handovers": 1000, "byzorch.byzantine_deliveries": 500, "byzorch.handovers": 300}},
	"C04": {ID: "C04", Level: "exploration", Units: []unit{u("hcore", "c04rbc", 6, 16), u("hcore", "c04orch", 8, 16)},
		Floors: map[string]int64{"c04rbc.handovers": 1000, "c04rbc.ack_before_payload": 100, "c04orch.handovers": 500}},
	"C14": {ID: "C14", Level: "exploration", Units: []unit{u("hcore", "c14ctl", 11, 11), u("hcore", "c14stress", 2, 4)},
		Floors: map[string]int64{"c14ctl.handoffs": 500, "c14ctl.schedules": 300, "c14stress.handoffs": 1000}},
	"C15": {ID: "C15", Level: "exploration", Units: []unit{u("hcore", "c15", 8, 12), u("hcore", "c15ctl", 4, 4)},
		Floors: map[string]int64{"c15.messages": 5000, "c15.topics": 1000, "c15ctl.probes_served": 200}},
	"C06": {ID: "C06", Level: "exploration", Units: []unit{u("hcore", "c06", 10, 16)},
		Floors: map[string]int64{"c06.sessions": 100, "c06.duplicate_party_sessions": 5}},
	"C12": {ID: "C12", Level: "exploration", Units: []unit{u("hcore", "c12", 12, 16), u("hcore", "c12silent", 2, 4)},
		Floors: map[string]int64{"c12.ops": 300, "c12.held_windows": 20, "c12silent.reuse_sessions": 2}},
	"C13": {ID: "C13", Level: "exploration", Units: []unit{u("hcore", "c13sess", 10, 16)},
		Floors: map[string]int64{"c13sess.sessions_with_large_ids": 50}},
	"C07": {ID: "C07", Level: "exploration", Units: []unit{u("hcore", "c07honest", 8, 16), u("hcore", "c07byz", 8, 16)},
		Floors: map[string]int64{"c07honest.completions": 200, "c07byz.honest_completions_under_attack": 40, "c07byz.byz_sessions": 50}},
	"C10": {ID: "C10", Level: "exploration", Units: []unit{u("hcore", "c07byz", 8, 16)},
		Floors: map[string]int64{"c07byz.byz_sessions": 50}},
}
