package main

// C19 — disguised envelopes. The adapters' ClassifyMsg decides from the wire bytes alone under which (sender, round) slot and
// whether through the reliable broadcast a message travels; OnMsg hands the same bytes to tss-lib, which decodes them with
// protobuf semantics. The two readings must agree on every envelope the library accepts, not only on canonical ones. The
// reference reading is tss-lib's own parser (tss.ParseWireMessage); the table "library type -> (round, broadcast class)" is
// learned from the genuine messages of the run. Envelopes are re-assembled from the fields of genuine ones: the type field
// twice (another type first / last), fields in the opposite order, the payload of one type under the name of another.

import (
	"fmt"
	"math/big"
	"strings"
	"sync"
	"time"

	libtss "github.com/bnb-chain/tss-lib/v2/tss"
	"google.golang.org/protobuf/encoding/protowire"

	"verifharness/common"
)

type envParts struct {
	url, val []byte
	ok       bool
}

// splitEnvelope: a canonical envelope is field 1 (type URL, bytes) followed by field 2 (value, bytes), each once.
func splitEnvelope(b []byte) envParts {
	var out envParts
	seen := 0
	for len(b) > 0 {
		num, typ, n := protowire.ConsumeTag(b)
		if n < 0 || typ != protowire.BytesType {
			return envParts{}
		}
		b = b[n:]
		v, m := protowire.ConsumeBytes(b)
		if m < 0 {
			return envParts{}
		}
		b = b[m:]
		seen++
		switch num {
		case 1:
			out.url = v
		case 2:
			out.val = v
		default:
			return envParts{}
		}
	}
	out.ok = seen == 2 && out.url != nil && out.val != nil
	return out
}

func envField(num protowire.Number, v []byte) []byte {
	return protowire.AppendBytes(protowire.AppendTag(nil, num, protowire.BytesType), v)
}

func cat(parts ...[]byte) []byte {
	var o []byte
	for _, p := range parts {
		o = append(o, p...)
	}
	return o
}

type clsKey struct {
	round uint8
	bcast bool
}

func disguisedEnvelopeOracle(w *wiring, p *common.Part, label string) {
	log := w.emittedLog()
	if len(log) == 0 {
		return
	}
	cls := newAdapter(w.kind, w.ids[0])
	libType := func(b []byte, from uint16, bc bool) (string, bool) {
		id := libtss.NewPartyID(fmt.Sprintf("%d", from), "", big.NewInt(int64(from)))
		m, err := libtss.ParseWireMessage(b, id, bc)
		if err != nil || m == nil {
			return "", false
		}
		return m.Type(), true
	}
	// learn: library type -> classification, from the genuine messages (one representative envelope per type)
	table := map[string]clsKey{}
	reps := map[string]emitted{}
	var order []string
	for _, e := range log {
		t, ok := libType(e.Data, e.From, e.Bcast)
		if !ok {
			continue
		}
		r, bc, err := cls.ClassifyMsg(e.Data)
		if err != nil {
			continue // reported by the classification oracle
		}
		if prev, seen := table[t]; seen && prev != (clsKey{r, bc}) {
			p.Violate("type-classified-two-ways/"+w.kind, fmt.Sprintf("%s: two genuine messages of library type %s are classified differently (%v and %v)", label, t, prev, clsKey{r, bc}), nil)
			return
		}
		if _, seen := table[t]; !seen {
			table[t] = clsKey{r, bc}
			if sp := splitEnvelope(e.Data); sp.ok {
				// format self-check: the re-assembled canonical envelope is byte-identical
				if string(cat(envField(1, sp.url), envField(2, sp.val))) != string(e.Data) {
					p.Inconcl("envelope re-assembly differs from the original bytes: disguised envelopes skipped")
					return
				}
				reps[t] = e
				order = append(order, t)
			}
		}
	}
	if len(order) < 2 {
		return
	}
	p.Count("library_types_learned", int64(len(order)))
	check := func(what string, env []byte, from uint16, bc bool) {
		t, ok := libType(env, from, bc)
		if !ok {
			p.Count("disguised_refused_by_library", 1)
			return
		}
		want, known := table[t]
		if !known {
			return
		}
		r, b, err := cls.ClassifyMsg(env)
		p.Count("disguised_envelopes", 1)
		p.Case(fmt.Sprintf("%s %s disguised %s", label, w.kind, what), true)
		if err != nil {
			return // a refused envelope is never handed over
		}
		if (clsKey{r, b}) != want {
			p.Violate("classified-as-another-type/"+w.kind, fmt.Sprintf("%s: an envelope (%s) that tss-lib decodes as %s, whose genuine messages are classified as round %d broadcast=%v, is classified as round %d broadcast=%v", label, what, t, want.round, want.bcast, r, b),
				map[string]interface{}{"envelope_hex": fmt.Sprintf("%x", env[:min(len(env), 200)])})
		}
	}
	for _, ta := range order {
		for _, tb := range order {
			if ta == tb || p.ViolationCount() >= 3 {
				continue
			}
			a, b := splitEnvelope(reps[ta].Data), splitEnvelope(reps[tb].Data)
			from, bc := reps[tb].From, reps[tb].Bcast
			check(fmt.Sprintf("type field twice: %s first, then %s with its payload", ta, tb), cat(envField(1, a.url), envField(1, b.url), envField(2, b.val)), from, bc)
			check(fmt.Sprintf("type field twice: %s with its payload, then %s", tb, ta), cat(envField(1, b.url), envField(2, b.val), envField(1, a.url)), from, bc)
			check(fmt.Sprintf("payload twice: %s, payload of %s, payload of %s", tb, ta, tb), cat(envField(1, b.url), envField(2, a.val), envField(2, b.val)), from, bc)
		}
		b := splitEnvelope(reps[ta].Data)
		check(fmt.Sprintf("fields in the opposite order (%s)", ta), cat(envField(2, b.val), envField(1, b.url)), reps[ta].From, reps[ta].Bcast)
		check(fmt.Sprintf("type field repeated identically (%s)", ta), cat(envField(1, b.url), envField(1, b.url), envField(2, b.val)), reps[ta].From, reps[ta].Bcast)
	}
}

// craftedPrefixSession: a session member re-labels its broadcast-class messages: the envelope's type URL keeps the message name but
// gets another prefix ("x.example/<name>" instead of "type.googleapis.com/<name>"), and the member sends them to the others one
// by one. tss-lib resolves a type by what follows the last '/', so it still recognises the message; the adapter's classifier
// decides whether the reliable broadcast runs. If the honest parties COMPLETE a key generation in which such messages were
// classified as point-to-point, the library consumed broadcast-class messages that never went through the reliable broadcast.
func craftedPrefixSession(p *common.Part, kind string, ids []uint16, thr int, label string) {
	w := newWiring(kind, ids, thr)
	if err := w.fresh("keygen", ids, nil); err != nil {
		return
	}
	byz := ids[len(ids)-1]
	var mu sync.Mutex
	relabelled, asP2P, refused := 0, 0, 0
	selfOK := true
	w.route = func(e emitted, deliver deliverFn) {
		if e.From != byz || !e.Bcast {
			w.genuine(e, ids)
			return
		}
		sp := splitEnvelope(e.Data)
		if !sp.ok || string(cat(envField(1, sp.url), envField(2, sp.val))) != string(e.Data) {
			mu.Lock()
			selfOK = false
			mu.Unlock()
			w.genuine(e, ids)
			return
		}
		name := string(sp.url)
		if i := strings.LastIndex(name, "/"); i >= 0 {
			name = name[i+1:]
		}
		env := cat(envField(1, []byte("x.example/"+name)), envField(2, sp.val))
		for _, m := range ids {
			if m == byz {
				continue
			}
			_, bc, err := w.parts[m].ClassifyMsg(env)
			mu.Lock()
			relabelled++
			if err != nil {
				refused++
			} else if !bc {
				asP2P++
			}
			mu.Unlock()
			deliver(m, env, e.From, false)
		}
	}
	out := w.run(ids, false, nil, 3*time.Second)
	mu.Lock()
	defer mu.Unlock()
	p.Count("relabelled_envelopes", int64(relabelled))
	p.Case(label+" "+kind+" crafted type-URL prefix", relabelled > 0)
	if !selfOK {
		p.Inconcl("envelope re-assembly differs from the original bytes: crafted prefixes skipped")
		return
	}
	completed := 0
	for _, id := range ids {
		if id != byz && out.errs[id] == nil {
			completed++
		}
	}
	if completed > 0 && asP2P > 0 {
		p.Violate("broadcast-consumed-without-reliable-broadcast/"+kind, fmt.Sprintf("%s: %d honest parties completed a key generation in which %d broadcast-class messages of party %d, re-labelled with another type-URL prefix, had been classified as point-to-point (so no reliable broadcast ran for them) and were consumed by the library all the same", label, completed, asP2P, byz), nil)
	}
	if completed == 0 {
		p.Count("relabelled_sessions_refused", 1)
	}
}
