package main

import (
	"context"
	"crypto/sha256"
	"fmt"
	"time"

	"verifharness/common"
)

// unitC11binance: a tss-lib adapter whose local party cannot start (the node is not among the parties it was initialised with - what
// a node that was not picked but still calls Sign amounts to - or is listed alone) and whose context has ended already, ends at
// once or ends a little later. KeyGen / Sign must come back with an error in bounded time after the context ended, without a panic.
// The verdict is taken on the return itself; the 20 s are a watchdog far beyond anything the code does after a context ends.
func unitC11binance(e common.Env, p *common.Part) {
	p.Rule = "EdDSA adapter (thorough: each case 5x): KeyGen and Sign on a party initialised with {party lists without itself, itself alone, the honest list with silent peers} x contexts {cancelled before the call, deadline in the past, cancelled 0.2 / 2 / 20 ms into the call, 30 ms deadline}; oracle: the call returns an error within 20 s of the end of its context, no panic, no signature; distinct key = (operation, party list, context kind, repetition); non-trivial always (every case is a fault)"
	if !e.Mine(0) {
		return
	}
	ids := []uint16{1, 2, 3}
	w := newWiring("eddsa", ids, 1)
	p.Begin("eddsa corpus key")
	shares, _, ok := keygenAndCheck(w, p, "eddsa key for the cannot-start cases")
	if !ok {
		p.Inconcl("no key material: the honest key generation of the set-up failed")
		return
	}
	d := sha256.Sum256([]byte("c11binance"))
	lists := []struct {
		name string
		l    []uint16
	}{{"without-itself", []uint16{2, 3}}, {"without-itself-one-peer", []uint16{3}}, {"honest-list-silent-peers", []uint16{1, 2, 3}}, {"itself-alone", []uint16{1}}}
	ctxs := []struct {
		name string
		mk   func() (context.Context, context.CancelFunc)
	}{
		{"cancelled-before", func() (context.Context, context.CancelFunc) {
			c, f := context.WithCancel(context.Background())
			f()
			return c, f
		}},
		{"deadline-in-the-past", func() (context.Context, context.CancelFunc) {
			c, f := context.WithDeadline(context.Background(), time.Now().Add(-time.Second))
			<-c.Done()
			return c, f
		}},
		{"cancel-after-0.2ms", func() (context.Context, context.CancelFunc) {
			c, f := context.WithCancel(context.Background())
			time.AfterFunc(200*time.Microsecond, f)
			return c, f
		}},
		{"cancel-after-2ms", func() (context.Context, context.CancelFunc) {
			c, f := context.WithCancel(context.Background())
			time.AfterFunc(2*time.Millisecond, f)
			return c, f
		}},
		{"cancel-after-20ms", func() (context.Context, context.CancelFunc) {
			c, f := context.WithCancel(context.Background())
			time.AfterFunc(20*time.Millisecond, f)
			return c, f
		}},
		{"deadline-30ms", func() (context.Context, context.CancelFunc) {
			return context.WithTimeout(context.Background(), 30*time.Millisecond)
		}},
	}
	reps := e.Pick(2, 5)
	for _, op := range []string{"KeyGen", "Sign"} {
		for _, ls := range lists {
			for _, cx := range ctxs {
				for r := 0; r < reps; r++ {
					key := fmt.Sprintf("eddsa.%s/%s/%s#%d", op, ls.name, cx.name, r)
					p.Begin(key)
					a := newAdapter("eddsa", 1)
					if op == "Sign" {
						if err := a.SetShareData(shares[1]); err != nil {
							p.Inconcl("share data of the set-up key refused: " + err.Error())
							return
						}
					}
					var pan string
					type res struct {
						out []byte
						err error
					}
					done := make(chan res, 1)
					ctx, cancel := cx.mk()
					go func() {
						var o []byte
						var err error
						pan = guardedB(func() {
							a.Init(append([]uint16{}, ls.l...), 1, func([]byte, bool, uint16) {})
							if op == "Sign" {
								o, err = a.Sign(ctx, d[:])
							} else {
								o, err = a.KeyGen(ctx)
							}
						})
						done <- res{o, err}
					}()
					<-ctx.Done()
					select {
					case x := <-done:
						if pan != "" {
							p.Violate("panic/eddsa."+op+"/cannot-start", fmt.Sprintf("%s: panicked: %s", key, pan), map[string]interface{}{"case": key})
						} else if x.err == nil && ls.name != "itself-alone" {
							p.Violate("result-without-peers/eddsa."+op, fmt.Sprintf("%s: returned a result (%d bytes) and no error although no peer ever answered", key, len(x.out)), map[string]interface{}{"case": key})
						} else {
							p.Count("error_returns", 1)
						}
					case <-time.After(20 * time.Second):
						p.Violate("hang/eddsa."+op+"/cannot-start", fmt.Sprintf("%s: the call had not returned 20 s after its context ended", key), map[string]interface{}{"case": key})
					}
					cancel()
					p.Case(key, true)
					p.Count("faults_effective", 1)
					if p.ViolationCount() >= 3 {
						return
					}
				}
			}
		}
	}
}
