package main

// Direct wiring of tss-lib adapters with a recording sendMsg: every (bytes, isBroadcast, to) a party emits is
// captured; delivery goes through a filter (re-attribution, outsiders, duplicates).

import (
	"context"
	"fmt"
	"sync"
	"time"

	ecdsa "github.com/IBM/TSS/mpc/binance/ecdsa"
	eddsa "github.com/IBM/TSS/mpc/binance/eddsa"
	tss "github.com/IBM/TSS/types"

	"verifharness/common"
)

type adapter interface {
	tss.KeyGenerator
	tss.Signer
}

func newAdapter(kind string, id uint16) adapter {
	if kind == "eddsa" {
		return eddsa.NewParty(id, common.Nolog{})
	}
	return ecdsa.NewParty(id, common.Nolog{})
}

type emitted struct {
	From  uint16
	Data  []byte
	Bcast bool
	To    uint16
	Seq   int
	Phase string
}

type deliverFn func(to uint16, data []byte, from uint16, bcast bool)

type wiring struct {
	kind  string
	ids   []uint16
	thr   int
	parts map[uint16]adapter
	mu    sync.Mutex
	log   []emitted
	phase string
	// keep: fresh() re-uses the adapter objects of parties that already have one (a long-lived instance serving session after session)
	keep bool
	// hostileCaller: Init gets the party list in descending order, in a slice that the caller overwrites after Init returned
	hostileCaller bool
	// route decides what reaches whom for an emitted message; default: genuine delivery
	route func(e emitted, deliver deliverFn)
}

func newWiring(kind string, ids []uint16, thr int) *wiring {
	return &wiring{kind: kind, ids: ids, thr: thr, parts: map[uint16]adapter{}}
}

// fresh creates new adapter objects for the given parties and initialises them.
func (w *wiring) fresh(phase string, members []uint16, shares map[uint16][]byte) error {
	w.mu.Lock()
	w.phase = phase
	old := w.parts
	w.parts = map[uint16]adapter{}
	w.mu.Unlock()
	for _, id := range members {
		if w.keep && old[id] != nil {
			// the same adapter object serves the next session (Init is called on it again)
			w.parts[id] = old[id]
			continue
		}
		w.parts[id] = newAdapter(w.kind, id)
	}
	for _, id := range members {
		id := id
		a := w.parts[id]
		lst := append([]uint16{}, members...)
		if w.hostileCaller {
			// a caller that lists the parties in descending order ...
			for i, j := 0, len(lst)-1; i < j; i, j = i+1, j-1 {
				lst[i], lst[j] = lst[j], lst[i]
			}
		}
		a.Init(lst, w.thr, func(msg []byte, bcast bool, to uint16) { w.onSend(id, members, msg, bcast, to) })
		if w.hostileCaller {
			// ... and re-uses its slice for something else once Init has returned
			for i := range lst {
				lst[i] = 0xFFF0 - uint16(i)
			}
		}
		if shares != nil {
			if err := a.SetShareData(shares[id]); err != nil {
				return fmt.Errorf("SetShareData(%d): %v", id, err)
			}
		}
	}
	return nil
}

func (w *wiring) deliver(to uint16, data []byte, from uint16, bcast bool) {
	w.mu.Lock()
	a := w.parts[to]
	w.mu.Unlock()
	if a == nil {
		return
	}
	// the orchestrator classifies first and hands over with the receiver-side classification
	_, cb, err := a.ClassifyMsg(data)
	if err != nil {
		return
	}
	a.OnMsg(append([]byte{}, data...), from, cb)
}

func (w *wiring) onSend(from uint16, members []uint16, msg []byte, bcast bool, to uint16) {
	w.mu.Lock()
	e := emitted{From: from, Data: append([]byte{}, msg...), Bcast: bcast, To: to, Seq: len(w.log), Phase: w.phase}
	w.log = append(w.log, e)
	route := w.route
	w.mu.Unlock()
	if route != nil {
		route(e, w.deliver)
		return
	}
	w.genuine(e, members)
}

func (w *wiring) genuine(e emitted, members []uint16) {
	if e.Bcast {
		for _, m := range members {
			if m != e.From {
				w.deliver(m, e.Data, e.From, true)
			}
		}
		return
	}
	w.deliver(e.To, e.Data, e.From, false)
}

type runOut struct {
	outs map[uint16][]byte
	errs map[uint16]error
}

// run executes KeyGen or Sign on the members (digest per member for signing).
func (w *wiring) run(members []uint16, sign bool, digests map[uint16][]byte, timeout time.Duration) runOut {
	ctx, cancel := context.WithTimeout(context.Background(), timeout)
	defer cancel()
	res := runOut{outs: map[uint16][]byte{}, errs: map[uint16]error{}}
	var mu sync.Mutex
	var wg sync.WaitGroup
	for _, id := range members {
		id := id
		a := w.parts[id]
		wg.Add(1)
		go func() {
			defer wg.Done()
			var out []byte
			var err error
			func() {
				defer func() {
					if x := recover(); x != nil {
						err = fmt.Errorf("PANIC: %v", x)
					}
				}()
				if sign {
					out, err = a.Sign(ctx, digests[id])
				} else {
					out, err = a.KeyGen(ctx)
				}
			}()
			mu.Lock()
			res.outs[id], res.errs[id] = out, err
			mu.Unlock()
		}()
	}
	wg.Wait()
	return res
}

func (w *wiring) emittedLog() []emitted {
	w.mu.Lock()
	defer w.mu.Unlock()
	return append([]emitted{}, w.log...)
}
