// hbinance drives the engines that need the tss-lib adapters (mpc/binance/ecdsa, mpc/binance/eddsa).
package main

import "verifharness/common"

var units = map[string]common.UnitFunc{
	"c19eddsa":    unitC19eddsa,
	"c19ecdsa":    unitC19ecdsa,
	"c19orch":     unitC19orch,
	"c10binance":  unitC10binance,
	"c20eddsa":    unitC20eddsa,
	"c13adapters": unitC13adapters,
	"c11binance":  unitC11binance,
}

func main() { common.ChildMain(units) }
