package main

// C19 — tss-lib adapters: receiver-side classification and sender binding.

import (
	"bytes"
	"context"
	"crypto/ecdsa"
	"crypto/ed25519"
	"crypto/sha256"
	"crypto/x509"
	"encoding/json"
	"fmt"
	"math/big"
	mrand "math/rand"
	"sort"
	"strings"
	"sync"
	"sync/atomic"
	"time"

	tss "github.com/IBM/TSS/types"

	"verifharness/cluster"
	"verifharness/common"
	"verifharness/fuzz"
	"verifharness/simnet"
)

func verifySig(kind string, tpk, digest, sig []byte) bool {
	if kind == "eddsa" {
		if len(tpk) != ed25519.PublicKeySize || len(sig) != ed25519.SignatureSize {
			return false
		}
		return ed25519.Verify(ed25519.PublicKey(tpk), digest, sig)
	}
	pk, err := x509.ParsePKIXPublicKey(tpk)
	if err != nil {
		return false
	}
	epk, ok := pk.(*ecdsa.PublicKey)
	return ok && ecdsa.VerifyASN1(epk, digest, sig)
}

// classificationOracle: every emitted message is classified by every receiver in agreement with tss-lib's routing flag,
// with a non-zero round and no error; the broadcast-class messages one sender emits within one phase get pairwise distinct rounds.
func classificationOracle(w *wiring, p *common.Part, label string) {
	log := w.emittedLog()
	type sp struct {
		from  uint16
		phase string
	}
	rounds := map[sp]map[uint8][]byte{}
	for _, e := range log {
		for _, id := range w.ids {
			a := w.parts[id]
			if a == nil {
				a = newAdapter(w.kind, id)
			}
			r, bc, err := a.ClassifyMsg(e.Data)
			p.Count("classifications", 1)
			switch {
			case err != nil:
				p.Violate("classification-error/"+w.kind, fmt.Sprintf("%s: a %s message emitted by party %d is rejected by the classifier of party %d: %v", label, e.Phase, e.From, id, err), nil)
			case bc != e.Bcast:
				p.Violate("classification-mismatch/"+w.kind, fmt.Sprintf("%s: a %s message that tss-lib routes with broadcast=%v is classified by the receiver as broadcast=%v (round %d)", label, e.Phase, e.Bcast, bc, r), nil)
			case r == 0:
				p.Violate("classification-round-zero/"+w.kind, fmt.Sprintf("%s: an emitted %s message (broadcast=%v) is classified as round 0", label, e.Phase, e.Bcast), nil)
			}
			if err == nil && e.Bcast && id == w.ids[0] {
				k := sp{e.From, e.Phase}
				if rounds[k] == nil {
					rounds[k] = map[uint8][]byte{}
				}
				if prev, ok := rounds[k][r]; ok && !bytes.Equal(prev, e.Data) {
					p.Violate("broadcast-types-share-a-round/"+w.kind, fmt.Sprintf("%s: two different broadcast-class %s messages of party %d are both classified as round %d", label, e.Phase, e.From, r), nil)
				}
				rounds[k][r] = e.Data
			}
		}
	}
}

// concurrentClassification: the orchestrator calls a session's classifier from the transport's goroutines, i.e. one adapter instance
// classifies the traffic of all peers at once. The classification of every recorded message, computed by several goroutines at
// the same time on ONE instance, must equal the sequential one.
func concurrentClassification(w *wiring, p *common.Part, label string) {
	log := w.emittedLog()
	if len(log) < 2 {
		return
	}
	a := newAdapter(w.kind, w.ids[0])
	type cls struct {
		r   uint8
		bc  bool
		err bool
	}
	seq := make([]cls, len(log))
	for i, e := range log {
		r, bc, err := a.ClassifyMsg(e.Data)
		seq[i] = cls{r, bc, err != nil}
	}
	const workers = 6
	var wg sync.WaitGroup
	var bad int32
	var first atomic.Value
	for g := 0; g < workers; g++ {
		g := g
		wg.Add(1)
		go func() {
			defer wg.Done()
			for rep := 0; rep < 300 && atomic.LoadInt32(&bad) == 0; rep++ {
				for k := range log {
					i := (k*7 + g*13 + rep) % len(log)
					r, bc, err := a.ClassifyMsg(log[i].Data)
					if (cls{r, bc, err != nil}) != seq[i] {
						if atomic.AddInt32(&bad, 1) == 1 {
							first.Store(fmt.Sprintf("a %s message classified sequentially as round %d broadcast=%v was classified as round %d broadcast=%v while %d goroutines classified on the same instance", log[i].Phase, seq[i].r, seq[i].bc, r, bc, workers))
						}
						return
					}
				}
			}
		}()
	}
	wg.Wait()
	p.Count("concurrent_classifications", int64(workers*300*len(log)))
	if atomic.LoadInt32(&bad) > 0 {
		p.Violate("classification-depends-on-concurrency/"+w.kind, label+": "+first.Load().(string), nil)
	}
}

type nt struct{ n, t int }

func sessionIDs(rng *mrand.Rand, n int, variant int) []uint16 {
	switch variant % 3 {
	case 0:
		ids := make([]uint16, n)
		for i := range ids {
			ids[i] = uint16(i + 1)
		}
		return ids
	case 1:
		return append([]uint16{}, []uint16{1, 3, 5, 8, 13}[:n]...)
	default:
		used := map[uint16]bool{}
		var ids []uint16
		for len(ids) < n {
			v := uint16(1 + rng.Intn(65000))
			if !used[v] {
				used[v] = true
				ids = append(ids, v)
			}
		}
		sort.Slice(ids, func(i, j int) bool { return ids[i] < ids[j] })
		return ids
	}
}

func c19digests(rng *mrand.Rand) [][]byte {
	r := func(n int) []byte { b := make([]byte, n); rng.Read(b); return b }
	lz := func(k int) []byte {
		b := r(32)
		for i := 0; i < k; i++ {
			b[i] = 0
		}
		return b
	}
	return [][]byte{r(32), lz(1), lz(2), lz(4), r(1), r(31), r(33), r(64), {}}
}

// keygenAndCheck runs a complete key generation and checks consistency of the threshold key.
// ecdsaKeygenTimeout: watchdog of an all-honest ECDSA key generation (20 s on an idle machine); below the parent's safety net of
// the tier, so that a key generation that never completes is reported as such
var ecdsaKeygenTimeout = 4 * time.Minute

func keygenAndCheck(w *wiring, p *common.Part, label string) (map[uint16][]byte, []byte, bool) {
	if err := w.fresh("keygen", w.ids, nil); err != nil {
		p.Violate("keygen-failed/"+w.kind, label+": "+err.Error(), nil)
		return nil, nil, false
	}
	to := 60 * time.Second
	if w.kind == "ecdsa" {
		to = ecdsaKeygenTimeout
	}
	res := w.run(w.ids, false, nil, to)
	for _, id := range w.ids {
		if res.errs[id] != nil {
			p.Violate("keygen-failed/"+w.kind, fmt.Sprintf("%s: all-honest key generation failed at party %d: %v", label, id, res.errs[id]), nil)
			return nil, nil, false
		}
	}
	var tpk []byte
	for _, id := range w.ids {
		a := newAdapter(w.kind, id)
		a.Init(append([]uint16{}, w.ids...), w.thr, func([]byte, bool, uint16) {})
		if err := a.SetShareData(res.outs[id]); err != nil {
			p.Violate("share-data-unusable/"+w.kind, fmt.Sprintf("%s: stored data of party %d cannot be loaded: %v", label, id, err), nil)
			return nil, nil, false
		}
		k, err := a.ThresholdPK()
		if err != nil {
			p.Violate("keygen-failed/"+w.kind, fmt.Sprintf("%s: ThresholdPK(%d): %v", label, id, err), nil)
			return nil, nil, false
		}
		if tpk == nil {
			tpk = k
		} else if !bytes.Equal(tpk, k) {
			p.Violate("inconsistent-key/"+w.kind, fmt.Sprintf("%s: party %d reports a different threshold public key", label, id), nil)
			return nil, nil, false
		}
	}
	p.Count("keygens", 1)
	return res.outs, tpk, true
}

func pickSigners(rng *mrand.Rand, ids []uint16, k int) []uint16 {
	perm := rng.Perm(len(ids))
	var s []uint16
	for _, i := range perm[:k] {
		s = append(s, ids[i])
	}
	sort.Slice(s, func(i, j int) bool { return s[i] < s[j] })
	return s
}

// signAndCheck: every signer must obtain a verifying signature for its digest, or an error; never a non-verifying signature.
func signAndCheck(w *wiring, p *common.Part, label string, shares map[uint16][]byte, tpk []byte, signers []uint16, digests map[uint16][]byte, mustSucceed bool, timeout time.Duration) bool {
	if err := w.fresh("sign", signers, shares); err != nil {
		p.Violate("sign-failed/"+w.kind, label+": "+err.Error(), nil)
		return false
	}
	res := w.run(signers, true, digests, timeout)
	ok := true
	for _, id := range signers {
		err := res.errs[id]
		switch {
		case err != nil && strings.HasPrefix(err.Error(), "PANIC"):
			p.Violate("sign-panic/"+w.kind, fmt.Sprintf("%s: Sign at party %d: %v", label, id, err), nil)
			ok = false
		case err != nil && mustSucceed:
			p.Violate("sign-failed/"+w.kind, fmt.Sprintf("%s: all-honest signing of a %d-byte digest failed at party %d: %v", label, len(digests[id]), id, err), map[string]interface{}{"digest": fmt.Sprintf("%x", digests[id])})
			ok = false
		case err == nil && !verifySig(w.kind, tpk, digests[id], res.outs[id]):
			p.Violate("signature-does-not-verify/"+w.kind, fmt.Sprintf("%s: party %d obtained a signature that does not verify for the %d-byte digest it asked to sign (%x...)", label, id, len(digests[id]), digests[id][:min(4, len(digests[id]))]), map[string]interface{}{"digest": fmt.Sprintf("%x", digests[id])})
			ok = false
		case err == nil:
			p.Count("signatures_verified", 1)
		default:
			p.Count("sign_errors", 1)
		}
	}
	return ok
}

func sameDigest(signers []uint16, d []byte) map[uint16][]byte {
	m := map[uint16][]byte{}
	for _, s := range signers {
		m[s] = d
	}
	return m
}

func unitC19eddsa(e common.Env, p *common.Part) {
	c19unit(e, p, "eddsa", []nt{{2, 1}, {3, 1}, {3, 2}, {4, 2}, {4, 3}}, e.Pick(1, 3))
}

func unitC19ecdsa(e common.Env, p *common.Part) {
	nts := []nt{{2, 1}}
	if e.Thorough() {
		nts = append(nts, nt{3, 1}, nt{3, 2})
	}
	c19unit(e, p, "ecdsa", nts, 1)
}

func c19unit(e common.Env, p *common.Part, kind string, nts []nt, reps int) {
	ecdsaKeygenTimeout = time.Duration(e.Pick(4, 8)) * time.Minute
	p.Rule = "complete key-generation and signing runs of the " + kind + " adapter wired directly with a recording sendMsg (every (bytes, isBroadcast, to) captured), several (n,t) and identifier sets (1..n, gaps, PRNG 16-bit), the party list handed to Init in ascending order or (ECDSA, every second EdDSA configuration) in descending order in a slice the caller overwrites after Init returned: (a) every emitted message classified by every receiver: broadcast flag = tss-lib's routing flag, round != 0, no error, distinct broadcast messages of one sender and phase get distinct rounds; (b) digests of length 0,1,31,32,33,64 and with 1,2,4 leading zero bytes: every signer obtains a signature that an independent library (crypto/ed25519 resp. crypto/ecdsa) verifies for the requested digest under the threshold key, or an error; (c) one signer asks for a different digest than the others; (d) re-attribution: captured genuine messages delivered again under every other session member's identity before the genuine traffic, and by an outsider whose identifier lies between the members'; honest parties must end with consistent key material / verifying signatures or an error, never a non-verifying signature; outsider traffic must have no effect; (e) one adapter object per party serves the key generation and then three signing sessions among fewer parties (Init again on the same objects) while the parties that left re-send all signing traffic under their own identities: every signer obtains a verifying signature; distinct key = (adapter, n, t, ids, case); non-trivial always"
	p.Assumptions = append(p.Assumptions, "in tss-lib v2.0.2 the wire bytes carry no embedded sender (ParseWireMessage stamps the caller-supplied id), so 'embedded sender != transport sender' cannot occur on the wire; what is decided is the consequence the clause protects: no message is ever credited to anyone but its transport sender (safety outcomes under re-attribution and outsider injection)")
	idx := 0
	for _, x := range nts {
		for rep := 0; rep < reps; rep++ {
			idx++
			if !e.Mine(idx) || p.ViolationCount() >= 3 {
				continue
			}
			rng := e.Rng("c19", kind, x.n, x.t, rep)
			ids := sessionIDs(rng, x.n, rep+x.n)
			label := fmt.Sprintf("%s n=%d t=%d ids=%v", kind, x.n, x.t, ids)
			p.Begin(label)
			w := newWiring(kind, ids, x.t)
			// the ECDSA configurations and every second EdDSA one: the party list is handed to Init in descending order, in a slice
			// the caller overwrites afterwards (Init has no ordering contract and cannot keep the caller's slice)
			w.hostileCaller = kind == "ecdsa" || idx%2 == 0
			if w.hostileCaller {
				p.Count("configurations_with_unsorted_reused_party_lists", 1)
			}
			shares, tpk, ok := keygenAndCheck(w, p, label)
			p.Case(label+" keygen", true)
			if !ok {
				continue
			}
			classificationOracle(w, p, label)
			disguisedEnvelopeOracle(w, p, label)
			concurrentClassification(w, p, label)
			if kind == "eddsa" && x.n >= 3 || kind == "ecdsa" && e.Thorough() {
				craftedPrefixSession(p, kind, ids, x.t, label)
			}
			// (b) digests
			digs := c19digests(rng)
			if kind == "ecdsa" {
				// leading zeros and digests longer than the curve order (SHA-384 / SHA-512 sized)
				digs = [][]byte{digs[0], digs[1], digs[7], append(append([]byte{}, digs[0]...), digs[5][:16]...)}
				// 32-byte digests that are numerically at or above the curve's group order / field prime (2^256-1, and the field
				// prime of P-256 itself): the library may refuse them, but a signature that comes back is one for THAT digest
				pprime, _ := new(big.Int).SetString("ffffffff00000001000000000000000000000000ffffffffffffffffffffffff", 16)
				digs = append(digs, bytes.Repeat([]byte{0xff}, 32), pprime.Bytes())
			}
			for di, d := range digs {
				signers := pickSigners(rng, ids, x.t+1)
				must := len(d) > 0 // an empty digest may legitimately be refused
				to := 60 * time.Second
				if kind == "ecdsa" && di >= 4 {
					must, to = false, 6*time.Second // out-of-range digests: refusal (also by running into the deadline) is fine
				}
				signAndCheck(w, p, fmt.Sprintf("%s digest#%d (%d bytes) signers=%v", label, di, len(d), signers), shares, tpk, signers, sameDigest(signers, d), must, to)
				p.Case(fmt.Sprintf("%s digest#%d", label, di), true)
				if di == 0 {
					classificationOracle(w, p, label)
					disguisedEnvelopeOracle(w, p, label)
				}
			}
			// (c) one signer asks for a different digest
			{
				signers := pickSigners(rng, ids, x.t+1)
				dg := sameDigest(signers, digs[0])
				other := sha256.Sum256([]byte("a different request"))
				dg[signers[0]] = other[:]
				signAndCheck(w, p, label+" one signer asks for another digest", shares, tpk, signers, dg, false, 4*time.Second)
				p.Case(label+" digest-mix-up", true)
				p.Count("digest_mixups", 1)
			}
			if kind == "eddsa" {
				c19reattribution(e, p, w, label, ids, x, rng)
			}
			if kind == "eddsa" || e.Thorough() {
				c19formerMembers(e, p, kind, label, ids, x, rng)
			}
			if idx%2 == 0 {
				p.Sample(map[string]interface{}{"adapter": kind, "n": x.n, "t": x.t, "ids": ids, "messages_captured": len(w.emittedLog())})
			}
		}
	}
}

// c19reattribution: key generations in which captured genuine messages are delivered again under another identity.
func c19reattribution(e common.Env, p *common.Part, w0 *wiring, label string, ids []uint16, x nt, rng *mrand.Rand) {
	// (d1) an outsider whose identifier lies between / below the members' re-sends every genuine message it sees to everybody,
	// before the genuine copy arrives. The session must complete as if nothing happened.
	outsiders := []uint16{}
	for i := 0; i+1 < len(ids); i++ {
		if ids[i]+1 < ids[i+1] {
			outsiders = append(outsiders, ids[i]+1)
		}
	}
	if ids[0] > 0 {
		outsiders = append(outsiders, ids[0]-1)
	}
	outsiders = append(outsiders, ids[len(ids)-1]+1)
	for _, o := range outsiders {
		w := newWiring(w0.kind, ids, x.t)
		o := o
		w.route = func(em emitted, deliver deliverFn) {
			for _, m := range ids {
				if m != em.From {
					deliver(m, em.Data, o, em.Bcast) // the outsider's copy first
				}
			}
			w.genuine(em, ids)
		}
		lbl := fmt.Sprintf("%s outsider %d replays all traffic", label, o)
		_, _, ok := keygenAndCheck(w, p, lbl)
		p.Case(lbl, true)
		p.Count("outsider_sessions", 1)
		_ = ok
		if p.ViolationCount() >= 3 {
			return
		}
	}
	// (d2) re-attribution among members: the first k genuine messages are additionally delivered, beforehand, under the identity of
	// another member. The session may fail, but parties that complete must agree on the key.
	for trial := 0; trial < e.Pick(3, 10); trial++ {
		w := newWiring(w0.kind, ids, x.t)
		victim := ids[rng.Intn(len(ids))]
		which := rng.Intn(4)
		count := 0
		w.route = func(em emitted, deliver deliverFn) {
			w.mu.Lock()
			count++
			c := count
			w.mu.Unlock()
			if c%4 == which {
				for _, claimed := range ids {
					if claimed != em.From && claimed != victim {
						deliver(victim, em.Data, claimed, em.Bcast)
						p.Count("reattributed_deliveries", 1)
						break
					}
				}
			}
			w.genuine(em, ids)
		}
		if err := w.fresh("keygen", ids, nil); err != nil {
			continue
		}
		res := w.run(ids, false, nil, 3*time.Second)
		var tpk []byte
		for _, id := range ids {
			if res.errs[id] != nil {
				if strings.HasPrefix(res.errs[id].Error(), "PANIC") {
					p.Violate("reattribution-panic/"+w.kind, fmt.Sprintf("%s: %v", label, res.errs[id]), nil)
				}
				continue
			}
			a := newAdapter(w.kind, id)
			a.Init(append([]uint16{}, ids...), x.t, func([]byte, bool, uint16) {})
			if a.SetShareData(res.outs[id]) != nil {
				continue
			}
			k, err := a.ThresholdPK()
			if err != nil {
				continue
			}
			if tpk == nil {
				tpk = k
			} else if !bytes.Equal(tpk, k) {
				p.Violate("inconsistent-key-under-reattribution/"+w.kind, fmt.Sprintf("%s: with messages re-attributed towards party %d two parties completed with different keys", label, victim), nil)
			}
		}
		p.Case(fmt.Sprintf("%s reattribution victim=%d slot=%d", label, victim, which), true)
	}
}

// c19formerMembers: ONE adapter object per party serves the key generation among all parties and then signing sessions among fewer
// of them (Init is called again on the same objects). The parties that left re-send, under their own authenticated identities,
// every message of the signing session to its receivers before the genuine copy arrives. They are outsiders of the signing session:
// their traffic must have no effect, every signer obtains a verifying signature.
func c19formerMembers(e common.Env, p *common.Part, kind, label string, ids []uint16, x nt, rng *mrand.Rand) {
	if x.t+1 >= len(ids) {
		return
	}
	w := newWiring(kind, ids, x.t)
	w.keep = true
	shares, tpk, ok := keygenAndCheck(w, p, label+" long-lived instances")
	if !ok {
		return
	}
	for trial := 0; trial < 3 && p.ViolationCount() < 3; trial++ {
		var signers []uint16
		switch trial {
		case 0:
			signers = append(signers, ids[len(ids)-x.t-1:]...) // the highest identifiers stay
		case 1:
			signers = append(signers, ids[:x.t+1]...) // the lowest stay
		default:
			signers = pickSigners(rng, ids, x.t+1)
		}
		in := map[uint16]bool{}
		for _, s := range signers {
			in[s] = true
		}
		var former []uint16
		for _, id := range ids {
			if !in[id] {
				former = append(former, id)
			}
		}
		w.route = func(em emitted, deliver deliverFn) {
			for _, f := range former {
				if em.Bcast {
					for _, m := range signers {
						if m != em.From {
							deliver(m, em.Data, f, true)
						}
					}
				} else {
					deliver(em.To, em.Data, f, false)
				}
				p.Count("former_member_replays", 1)
			}
			w.genuine(em, signers)
		}
		d := sha256.Sum256([]byte(fmt.Sprintf("former members %d", trial)))
		lbl := fmt.Sprintf("%s: instances re-initialised for signers %v, former members %v re-send all traffic under their own identities", label, signers, former)
		signAndCheck(w, p, lbl, shares, tpk, signers, sameDigest(signers, d[:]), true, 20*time.Second)
		p.Case(lbl, true)
		p.Count("reinitialised_sessions", 1)
		w.route = nil
	}
}

// ---- orchestrated EdDSA: key generation and signing through real Loud / Silent schemes (also C01's orchestrated-signing clause) ----

func unitC19orch(e common.Env, p *common.Part) {
	p.Rule = "EdDSA key generation and orchestrated signing through real LoudScheme / SilentScheme objects on the simulated network (random delivery policies, staggered starts), n = 3,4, exactly Threshold+1 callers PRNG-chosen from the universe; every node is asked for the threshold public key through its scheme object (all reports identical) and every participant's signature must verify under it with crypto/ed25519 for the requested digest (incl. digests with leading zero bytes); in loud mode a SECOND key generation runs on the same scheme objects, after which the reported key is the new one and signatures verify under it; distinct key = (n, t, mode, generation, signers, digest kind)"
	cases := []struct {
		n, t   int
		silent bool
	}{{3, 1, false}, {3, 2, true}, {4, 2, false}, {4, 2, true}}
	if e.Thorough() {
		cases = append(cases, []struct {
			n, t   int
			silent bool
		}{{3, 2, false}, {4, 3, true}, {4, 1, false}, {5, 2, true}}...)
	}
	for i, cs := range cases {
		if !e.Mine(i) || p.ViolationCount() >= 3 {
			continue
		}
		rng := e.Rng("c19orch", i)
		ids := sessionIDs(rng, cs.n, i)
		mode := "loud"
		if cs.silent {
			mode = "silent"
		}
		label := fmt.Sprintf("eddsa %s n=%d t=%d ids=%v", mode, cs.n, cs.t, ids)
		p.Begin(label)
		m := map[uint16]uint16{}
		for _, id := range ids {
			m[id] = id
		}
		_, pol := []string{"", ""}, []simnet.Policy{simnet.Uniform, simnet.PreferNewest, simnet.Burst(), simnet.ByReceiver}[i%4]
		c := cluster.New(cluster.Config{Map: m, Silent: cs.silent, Threshold: cs.t,
			KGF: func(node uint16) tss.KeyGenerator { return newAdapter("eddsa", node) },
			SF:  func(node uint16) tss.Signer { return newAdapter("eddsa", node) }})
		go c.Net.RunRandom(rng, pol)
		if cs.silent {
			c.SetPick(tss.DkgTopicName, ids)
		}
		ctx, cancel := context.WithTimeout(context.Background(), 90*time.Second)
		// loud mode: TWO key generations on the same scheme objects, each followed by signing (a long-lived node whose key is
		// rotated); what a node reports and signs with after the second one belongs to the second one
		gens := 1
		if !cs.silent {
			gens = 2
		}
		var prevTPK []byte
		var mu sync.Mutex
		var wg sync.WaitGroup
		for gen := 0; gen < gens; gen++ {
			shares := map[uint16][]byte{}
			errs := map[uint16]error{}
			delays := map[uint16]time.Duration{}
			for _, u := range ids {
				delays[u] = time.Duration(rng.Intn(2000)) * time.Microsecond
			}
			for _, u := range ids {
				u := u
				wg.Add(1)
				go func() {
					defer wg.Done()
					time.Sleep(delays[u])
					out, err := c.Schemes[u].KeyGen(ctx, cs.n, cs.t)
					mu.Lock()
					shares[u], errs[u] = out, err
					mu.Unlock()
				}()
			}
			wg.Wait()
			failed := false
			for _, u := range ids {
				if errs[u] != nil {
					p.Violate("orchestrated-keygen-failed/"+mode, fmt.Sprintf("%s: node %d: %v", label, u, errs[u]), nil)
					failed = true
				}
			}
			p.Case(fmt.Sprintf("%s keygen #%d", label, gen+1), true)
			if failed {
				break
			}
			for _, u := range ids {
				c.Schemes[u].SetStoredData(shares[u])
			}
			// every node is asked for the key it reports (through the scheme object, as an application does)
			var tpk []byte
			for _, u := range ids {
				k, err := c.Schemes[u].ThresholdPK()
				if err != nil {
					p.Violate("orchestrated-keygen-failed/"+mode, fmt.Sprintf("%s: ThresholdPK at node %d after key generation #%d: %v", label, u, gen+1, err), nil)
					continue
				}
				if tpk == nil {
					tpk = k
				} else if !bytes.Equal(tpk, k) {
					p.Violate("orchestrated-public-material-differs/"+mode, fmt.Sprintf("%s: after key generation #%d node %d reports another threshold public key than node %d", label, gen+1, u, ids[0]), nil)
				}
			}
			if gen > 0 && bytes.Equal(tpk, prevTPK) {
				p.Violate("orchestrated-public-material-stale/"+mode, fmt.Sprintf("%s: after a second key generation on the same scheme objects the nodes still report the threshold public key of the first", label), nil)
			}
			prevTPK = tpk
			if gen > 0 {
				p.Count("second_key_generations_on_the_same_scheme_objects", 1)
			}
			for di, d := range c19digests(rng)[:4-2*gen] {
				signers := pickSigners(rng, ids, cs.t+1)
				topic := fmt.Sprintf("c19-orch-%d-%d-%d", i, gen, di)
				if cs.silent {
					c.SetPick(topic, signers)
				}
				sigs := map[uint16][]byte{}
				for _, u := range signers {
					u := u
					wg.Add(1)
					go func() {
						defer wg.Done()
						out, err := c.Schemes[u].Sign(ctx, d, topic)
						mu.Lock()
						sigs[u], errs[u] = out, err
						mu.Unlock()
					}()
				}
				wg.Wait()
				for _, u := range signers {
					switch {
					case errs[u] != nil:
						p.Violate("orchestrated-sign-failed/"+mode, fmt.Sprintf("%s: Sign of digest#%d at node %d (signers %v): %v", label, di, u, signers, errs[u]), nil)
					case !verifySig("eddsa", tpk, d, sigs[u]):
						p.Violate("orchestrated-signature-does-not-verify/"+mode, fmt.Sprintf("%s: node %d obtained a signature that crypto/ed25519 rejects for the requested digest#%d (%x...)", label, u, di, d[:4]), nil)
					default:
						p.Count("orchestrated_signatures_verified", 1)
					}
				}
				p.Case(fmt.Sprintf("%s generation %d digest#%d signers=%v", label, gen+1, di, signers), true)
			}
		}
		cancel()
		c.Net.Stop()
		p.Sample(map[string]interface{}{"mode": mode, "n": cs.n, "t": cs.t, "ids": ids})
	}
}

// ---- C13 (adapter part): large and boundary party identifiers, serialisation round trip of the key material ----

func unitC13adapters(e common.Env, p *common.Part) {
	p.Rule = "EdDSA key generation and signing with party identifiers along the byte boundaries and at the top of the 16-bit range (1, 255, 256, 257, 32768, 65279, 65534, 65535, PRNG), signers re-created only from the serialised stored data; every session must complete and every signature verify with crypto/ed25519; distinct key = id tuple; non-trivial when the tuple contains an identifier >= 256"
	p.Assumptions = append(p.Assumptions, "identifier 0 is not used with the tss-lib adapters: the party key is the evaluation point of the secret sharing and 0 cannot be one (limitation of the underlying library, stated in DESIGN.md)")
	sets := [][]uint16{{1, 255, 256}, {3, 300, 65534}, {7, 9, 65535}, {257, 32768, 65279}, {65533, 65534, 65535}, {2, 256, 512, 65535}}
	rng := e.Rng("c13adapters")
	for i := 0; i < e.Pick(2, 10); i++ {
		sets = append(sets, sessionIDs(rng, 3+i%2, 2))
	}
	for i, ids := range sets {
		if !e.Mine(i) || p.ViolationCount() >= 3 {
			continue
		}
		label := fmt.Sprintf("eddsa ids=%v", ids)
		p.Begin(label)
		w := newWiring("eddsa", ids, 1)
		shares, tpk, ok := keygenAndCheck(w, p, label)
		large := false
		for _, v := range ids {
			large = large || v >= 256
		}
		p.Case(label, large)
		if !ok {
			continue
		}
		for k := 0; k < 2; k++ {
			signers := pickSigners(rng, ids, 2)
			d := sha256.Sum256([]byte(label + fmt.Sprint(k)))
			signAndCheck(w, p, fmt.Sprintf("%s signers=%v", label, signers), shares, tpk, signers, sameDigest(signers, d[:]), true, 60*time.Second)
		}
		p.Count("sessions_with_large_ids", 1)
		p.Sample(map[string]interface{}{"ids": ids})
	}
}

// ---- C20 (adapter part): EdDSA sessions through real schemes with concurrent dispatch under the race detector ----

func unitC20eddsa(e common.Env, p *common.Part) {
	p.Rule = "race-detector build; EdDSA key generation and orchestrated signing through real Loud/Silent schemes with one dispatcher goroutine per link; distinct key = (mode, repetition)"
	reps := e.Pick(4, 30)
	for r := 0; r < reps; r++ {
		if !e.Mine(r) {
			continue
		}
		silent := r%2 == 1
		key := fmt.Sprintf("eddsa silent=%v #%d", silent, r)
		p.Begin(key)
		ids := []uint16{1, 2, 3}
		m := map[uint16]uint16{1: 1, 2: 2, 3: 3}
		c := cluster.New(cluster.Config{Map: m, Silent: silent, Threshold: 1,
			KGF: func(node uint16) tss.KeyGenerator { return newAdapter("eddsa", node) },
			SF:  func(node uint16) tss.Signer { return newAdapter("eddsa", node) }})
		c.Net.StartConcurrent()
		if silent {
			c.SetPick(tss.DkgTopicName, ids)
		}
		ctx, cancel := context.WithTimeout(context.Background(), 60*time.Second)
		var wg sync.WaitGroup
		var mu sync.Mutex
		shares := map[uint16][]byte{}
		for _, u := range ids {
			u := u
			wg.Add(1)
			go func() {
				defer wg.Done()
				time.Sleep(time.Duration(u*u) * 500 * time.Microsecond)
				out, _ := c.Schemes[u].KeyGen(ctx, 3, 1)
				mu.Lock()
				shares[u] = out
				mu.Unlock()
			}()
		}
		wg.Wait()
		signers := []uint16{1, 3}
		topic := fmt.Sprintf("c20-eddsa-%d", r)
		if silent {
			c.SetPick(topic, signers)
		}
		for _, u := range signers {
			u := u
			c.Schemes[u].SetStoredData(shares[u])
			wg.Add(1)
			go func() {
				defer wg.Done()
				d := sha256.Sum256([]byte(topic))
				c.Schemes[u].Sign(ctx, d[:], topic)
			}()
		}
		wg.Wait()
		cancel()
		links := c.Net.LinkCount()
		c.Net.Stop()
		p.Case(key, links >= 2)
		p.Count("sessions", 1)
		p.Count("dispatcher_goroutines", int64(links))
		if r%3 == 0 {
			p.Sample(map[string]interface{}{"mode_silent": silent, "repetition": r, "dispatcher_goroutines": links})
		}
	}
}

// ---- C10 (adapter part): mutated tss-lib messages and stored data ----

func guardedB(f func()) (msg string) {
	defer func() {
		if x := recover(); x != nil {
			msg = fmt.Sprint(x)
		}
	}()
	f()
	return ""
}

func unitC10binance(e common.Env, p *common.Part) {
	p.Rule = "messages captured from complete EdDSA (thorough: also ECDSA) key-generation and signing runs of this build and the stored key material, mutated (prefixes, extensions, header bytes, bit flips) and fed to ClassifyMsg+OnMsg of a live party (sources restricted to session members, as the orchestrator's filter guarantees) and to SetShareData; oracle: no panic, the live KeyGen returns when its context ends; distinct key = (adapter, entry point, input hash)"
	kinds := []string{"eddsa"}
	if e.Thorough() {
		kinds = append(kinds, "ecdsa")
	}
	for ki, kind := range kinds {
		if !e.Mine(ki) {
			continue
		}
		rng := e.Rng("c10b", kind)
		ids := []uint16{1, 2, 3}
		w := newWiring(kind, ids, 1)
		p.Begin(kind + " corpus")
		shares, _, ok := keygenAndCheck(w, p, kind+" corpus run")
		if !ok {
			continue
		}
		signers := []uint16{1, 3}
		d := sha256.Sum256([]byte("c10"))
		signAndCheck(w, p, kind+" corpus signing", shares, nil2tpk(w, shares), signers, sameDigest(signers, d[:]), true, 60*time.Second)
		seen := map[string]bool{}
		var corpus []emitted
		for _, em := range w.emittedLog() {
			r, bc, _ := newAdapter(kind, 1).ClassifyMsg(em.Data)
			k := fmt.Sprintf("%s/%d/%v", em.Phase, r, bc)
			if !seen[k] {
				seen[k] = true
				corpus = append(corpus, em)
			}
		}
		p.Note(kind+"_corpus_messages", len(corpus))
		calls := 0
		for _, em := range corpus {
			muts := fuzzBasic(em.Data, rng, e.Pick(250, 1200))
			for off := 0; off < len(muts); off += 120 {
				a := newAdapter(kind, 1)
				a.Init([]uint16{1, 2, 3}, 1, func([]byte, bool, uint16) {})
				ctx, cancel := context.WithCancel(context.Background())
				ret := make(chan struct{})
				if kind == "eddsa" {
					go func() {
						defer close(ret)
						if m := guardedB(func() { a.KeyGen(ctx) }); m != "" {
							p.Violate("panic/"+kind+".KeyGen-with-hostile-peers", kind+": KeyGen panicked: "+m, nil)
						}
					}()
					time.Sleep(300 * time.Microsecond)
				} else {
					close(ret) // ECDSA key generation needs seconds of pre-computation: only the handlers are exercised
				}
				for _, m := range muts[off:min(off+120, len(muts))] {
					for _, from := range []uint16{2, 3} {
						m := m
						if msg := guardedB(func() {
							if _, bc, err := a.ClassifyMsg(m); err == nil {
								a.OnMsg(append([]byte{}, m...), from, bc)
							}
						}); msg != "" {
							p.Violate("panic/"+kind+".ClassifyMsg-OnMsg", fmt.Sprintf("%s: a mutated %s message made ClassifyMsg/OnMsg panic: %s", kind, em.Phase, msg), map[string]interface{}{"input_hex": fmt.Sprintf("%x", m[:min(300, len(m))])})
						}
						calls++
					}
				}
				cancel()
				select {
				case <-ret:
				case <-time.After(20 * time.Second):
					p.Violate("hang/"+kind+".KeyGen-after-hostile-input", kind+": KeyGen did not return 20 s after its context ended", nil)
				}
			}
		}
		for _, m := range append(fuzzBasic(shares[1], rng, e.Pick(2500, 6000)), jsonEdits(shares[1])...) {
			m := m
			if msg := guardedB(func() {
				a := newAdapter(kind, 1)
				a.Init([]uint16{1, 2, 3}, 1, func([]byte, bool, uint16) {})
				if a.SetShareData(m) == nil {
					a.ThresholdPK()
				}
			}); msg != "" {
				p.Violate("panic/"+kind+".SetShareData", kind+": mutated stored data made SetShareData/ThresholdPK panic: "+msg, map[string]interface{}{"input_len": len(m)})
			}
			calls++
		}
		p.Count("calls", int64(calls))
		for k := 0; k < calls; k++ {
			p.Case(fmt.Sprintf("%s#%d", kind, k), true)
		}
		p.Sample(map[string]interface{}{"adapter": kind, "corpus_messages": len(corpus), "hostile_inputs": calls})
	}
}

func nil2tpk(w *wiring, shares map[uint16][]byte) []byte {
	a := newAdapter(w.kind, w.ids[0])
	a.Init(append([]uint16{}, w.ids...), w.thr, func([]byte, bool, uint16) {})
	if a.SetShareData(shares[w.ids[0]]) != nil {
		return nil
	}
	k, _ := a.ThresholdPK()
	return k
}

func fuzzBasic(valid []byte, rng *mrand.Rand, budget int) [][]byte {
	return fuzz.Basic(valid, 64, rng, budget)
}

// jsonEdits: structure-aware edits of the JSON stored data: each top-level member removed, set to null, to an empty
// object / array / string / number.
func jsonEdits(valid []byte) [][]byte {
	var obj map[string]json.RawMessage
	if json.Unmarshal(valid, &obj) != nil {
		return nil
	}
	var out [][]byte
	for k := range obj {
		for _, repl := range []string{"", "null", "{}", "[]", "\"\"", "0", "[null]", "[null,null,null]", "{\"Curve\":null}"} {
			c := map[string]json.RawMessage{}
			for k2, v := range obj {
				c[k2] = v
			}
			if repl == "" {
				delete(c, k)
			} else {
				c[k] = json.RawMessage(repl)
			}
			if b, err := json.Marshal(c); err == nil {
				out = append(out, b)
			}
		}
	}
	return out
}
