package main

// C18 — secret sharing algebra: any t shares reconstruct; all t-subsets cross-checked.

import (
	"context"
	"crypto/rand"
	"encoding/asn1"
	"fmt"
	mrand "math/rand"
	"sort"
	"strings"
	"time"

	"github.com/IBM/TSS/mpc/bls"
	"github.com/IBM/TSS/mpc/ps"
	math "github.com/IBM/mathlib"

	"verifharness/common"
)

// dealBLS deals a fresh secret with the exported SSS.Gen and wraps the shares as stored data.
func dealBLS(n, t int) (map[uint16][]byte, []uint16) {
	poly, shares := (&bls.SSS{Threshold: t}).Gen(n, rand.Reader)
	var pks [][]byte
	for _, s := range shares {
		pks = append(pks, curve.GenG2.Mul(s).Bytes())
	}
	tpk := curve.GenG2.Mul(poly[0]).Bytes()
	stored := map[uint16][]byte{}
	var parties []uint16
	for i, s := range shares {
		b, _ := asn1.Marshal(bls.StoredData{Sk: s.Bytes(), PublicKeys: pks, ThresholdPK: tpk})
		stored[uint16(i+1)] = b
		parties = append(parties, uint16(i+1))
	}
	return stored, parties
}

func psG2(msgLen int) (*math.G2, error) {
	pp := ps.Setup(curve, msgLen)
	var raw ps.RawPP
	if _, err := asn1.Unmarshal(pp.Bytes(), &raw); err != nil || len(raw.Data) < 1 {
		return nil, fmt.Errorf("cannot read the public parameters: %v", err)
	}
	return curve.NewG2FromBytes(raw.Data[0])
}

// dealPS deals x and every y_j with the exported ps.SSS.Gen and wraps them as stored data of the PS scheme.
func dealPS(n, t, msgLen int) (map[uint16][]byte, []uint16, error) {
	g2, err := psG2(msgLen)
	if err != nil {
		return nil, nil, err
	}
	m := msgLen + 1
	xp, xs := (&ps.SSS{Threshold: t}).Gen(n, rand.Reader)
	var yp []ps.Polynomial
	var ys []ps.Shares
	for j := 0; j < m; j++ {
		p, s := (&ps.SSS{Threshold: t}).Gen(n, rand.Reader)
		yp = append(yp, p)
		ys = append(ys, s)
	}
	pkOf := func(x *math.Zr, y []*math.Zr) []byte {
		xys := ps.XYs{X: g2.Mul(x).Bytes()}
		for _, v := range y {
			xys.Ys = append(xys.Ys, g2.Mul(v).Bytes())
		}
		b, _ := asn1.Marshal(xys)
		return b
	}
	var pks [][]byte
	for i := 0; i < n; i++ {
		var y []*math.Zr
		for j := 0; j < m; j++ {
			y = append(y, ys[j][i])
		}
		pks = append(pks, pkOf(xs[i], y))
	}
	var y0 []*math.Zr
	for j := 0; j < m; j++ {
		y0 = append(y0, yp[j][0])
	}
	tpk := pkOf(xp[0], y0)
	stored := map[uint16][]byte{}
	var parties []uint16
	for i := 0; i < n; i++ {
		sk := ps.XYs{X: xs[i].Bytes()}
		for j := 0; j < m; j++ {
			sk.Ys = append(sk.Ys, ys[j][i].Bytes())
		}
		skb, _ := asn1.Marshal(sk)
		b, _ := asn1.Marshal(ps.StoredData{Sk: skb, PublicKeys: pks, ThresholdPK: tpk})
		stored[uint16(i+1)] = b
		parties = append(parties, uint16(i+1))
	}
	return stored, parties, nil
}

func unitC18deal(e common.Env, p *common.Part) {
	p.Rule = "(i) secrets dealt with the exported SSS.Gen (BLS: one polynomial; PS: x and every y_j), shares wrapped as stored data, then for every (n,t) with 2<=t<=n<=N and EVERY subset of size >= t (PRNG order of signers) the partial signatures are aggregated with the library's Lagrange coefficients and verified under g2^P(0): BLS N=7 quick / 11 thorough, PS N=5 quick / 6 thorough; distinct key = (scheme, n, t, subset); non-trivial always; the subset space of each (scheme,n,t) is enumerated completely; plus large committees with high thresholds (BLS (17,17) (18,17) (20,16) (24,15) (32,14) (40,21) (64,12) (100,11), PS (18,17) (24,15)) with the t lowest points, the t highest, everybody and PRNG subsets; plus large committees with low thresholds (BLS and PS (70,2) (66,3) (64,2) (130,2)): families of subsets that share all points but one, the differing point sweeping the committee in ascending order, interleaved with (t+1)-sets"
	type job struct {
		sch  string
		n, t int
	}
	var jobs []job
	for n := 2; n <= e.Pick(7, 11); n++ {
		for t := 2; t <= n; t++ {
			jobs = append(jobs, job{"bls", n, t})
		}
	}
	for n := 2; n <= e.Pick(5, 6); n++ {
		for t := 2; t <= n; t++ {
			jobs = append(jobs, job{"ps", n, t})
		}
	}
	// large committees with high thresholds (evaluation points and powers beyond machine-word range): sampled subsets
	large := map[job]bool{}
	for _, nt := range [][2]int{{17, 17}, {18, 17}, {20, 16}, {24, 15}, {32, 14}, {40, 21}, {64, 12}, {100, 11}} {
		j := job{"bls", nt[0], nt[1]}
		jobs, large[j] = append(jobs, j), true
	}
	for _, nt := range [][2]int{{18, 17}, {24, 15}} {
		j := job{"ps", nt[0], nt[1]}
		jobs, large[j] = append(jobs, j), true
	}
	// large committees with LOW thresholds: families of subsets that share all points but one, the differing point sweeping the
	// whole committee (whatever an implementation remembers from one combination must not leak into the next one)
	family := map[job]bool{}
	for _, sch := range []string{"bls", "ps"} {
		for _, nt := range [][2]int{{70, 2}, {66, 3}, {64, 2}, {130, 2}} {
			j := job{sch, nt[0], nt[1]}
			jobs, large[j], family[j] = append(jobs, j), true, true
		}
	}
	for i, j := range jobs {
		if !e.Mine(i) || p.ViolationCount() >= 3 {
			continue
		}
		rng := e.Rng("c18", j.sch, j.n, j.t)
		key := fmt.Sprintf("%s n=%d t=%d", j.sch, j.n, j.t)
		p.Begin(key)
		var stored map[uint16][]byte
		var parties []uint16
		msgLen := 1 + rng.Intn(2)
		if j.sch == "bls" {
			stored, parties = dealBLS(j.n, j.t)
		} else {
			var err error
			stored, parties, err = dealPS(j.n, j.t, msgLen)
			if err != nil {
				p.Inconcl("PS dealing skipped: " + err.Error())
				continue
			}
		}
		digest := make([]byte, 32)
		rng.Read(digest)
		checked := 0
		subs := [][]uint16(nil)
		if family[j] {
			// base: t-1 points (PRNG, every second family among the low ones); then base + h for every other point h in ascending
			// order (quick: every third below 60, every one from 60 on), and after each t-set the (t+1)-set with the highest point
			for fam := 0; fam < e.Pick(2, 6); fam++ {
				in := map[uint16]bool{}
				var base []uint16
				for len(base) < j.t-1 {
					x := parties[rng.Intn(j.n)]
					if fam%2 == 0 {
						x = parties[rng.Intn(10)]
					}
					if !in[x] {
						in[x] = true
						base = append(base, x)
					}
				}
				for hi, h := range parties {
					if in[h] || (!e.Thorough() && hi < 60 && hi%3 != 0) {
						continue
					}
					sub := append(append([]uint16{}, base...), h)
					sort.Slice(sub, func(a, b int) bool { return sub[a] < sub[b] })
					subs = append(subs, sub)
					if top := parties[j.n-1]; !in[top] && h != top && hi%4 == 0 {
						sub2 := append(append([]uint16{}, sub...), top)
						sort.Slice(sub2, func(a, b int) bool { return sub2[a] < sub2[b] })
						subs = append(subs, sub2)
					}
				}
			}
		} else if large[j] {
			// the t lowest points, the t highest, everybody, and PRNG subsets of size t..n
			subs = append(subs, append([]uint16{}, parties[:j.t]...), append([]uint16{}, parties[j.n-j.t:]...), append([]uint16{}, parties...))
			for k := 0; k < e.Pick(3, 80); k++ {
				perm := rng.Perm(j.n)
				var sub []uint16
				for _, x := range perm[:j.t+rng.Intn(j.n-j.t+1)] {
					sub = append(sub, parties[x])
				}
				sort.Slice(sub, func(a, b int) bool { return sub[a] < sub[b] })
				subs = append(subs, sub)
			}
		} else {
			subs = subsets(parties, j.t)
		}
		for _, sub := range subs {
			order := append([]uint16{}, sub...)
			rng.Shuffle(len(order), func(a, b int) { order[a], order[b] = order[b], order[a] })
			var err error
			if j.sch == "bls" {
				err = jointBLS(parties, j.t, stored, order, digest, parties[0])
			} else {
				msg := make([][]byte, msgLen)
				for k := range msg {
					msg[k] = []byte(fmt.Sprintf("m%d-%x", k, digest[:4]))
				}
				err = jointPS(parties, j.t, msgLen, stored, order, msg, parties[0])
			}
			p.Case(fmt.Sprintf("%s %v", key, sub), true)
			checked++
			if err != nil {
				p.Violate("reconstruction/"+j.sch, fmt.Sprintf("%s: the shares of %v (in this order) of a freshly dealt secret do not combine to the dealt secret: %v", key, order, err), map[string]interface{}{"scheme": j.sch, "n": j.n, "t": j.t, "subset": order})
				break
			}
		}
		p.Count("subsets_checked", int64(checked))
		p.SetExhaustive(key, !large[j])
		if i%5 == 0 {
			p.Sample(map[string]interface{}{"scheme": j.sch, "n": j.n, "t": j.t, "subsets_checked": checked})
		}
	}
}

// offPolynomialDKG runs a directly wired key generation in which exactly one party `victim` ends up with sk+delta
// (delta is added to a share it receives, so its commitment and reveal are consistent). Returns errors per party.
func offPolynomialDKG(sch scheme, n, t int, victim uint16, which int, delta int64, rng *mrand.Rand) (map[uint16]error, []string, bool, bool) {
	errs, panics, ok, tweaked, _ := offPolynomialDKGctx(sch, n, t, victim, which, delta, rng, 0, 0)
	return errs, panics, ok, tweaked
}

// offPolynomialDKGctx: as above; party `observer` (0 = none) runs under a context that ends at its k-th consultation (k = 0: never,
// consultations only counted). Returns the number of consultations the observer's KeyGen made.
// c18idVariant: party identifier sets for the key generations of (ii): 0 = 1..n, 1 = a gap after the second party, 2 = offset 11..,
// 3 = multiples of 257 ending at 65535. victim / observer are POSITIONS (1-based) and are translated here.
var c18idVariant int

func c18ids(n int) []uint16 {
	var ids []uint16
	for i := 1; i <= n; i++ {
		switch c18idVariant {
		case 1:
			v := i
			if i > 2 {
				v = i + 1
			}
			ids = append(ids, uint16(v))
		case 2:
			ids = append(ids, uint16(10+i))
		case 3:
			ids = append(ids, uint16(65535-257*(n-i)))
		default:
			ids = append(ids, uint16(i))
		}
	}
	return ids
}

func offPolynomialDKGctx(sch scheme, n, t int, victim uint16, which int, delta int64, rng *mrand.Rand, observer uint16, k int64) (map[uint16]error, []string, bool, bool, int64) {
	ids := c18ids(n)
	victim = ids[victim-1]
	if observer != 0 {
		observer = ids[observer-1]
	}
	d := newDrun(sch, ids, t, rng)
	var cc *countCtx
	tweaked := false
	selfOK := true
	d.filter = func(m dmsg, seq, g int) []dmsg {
		r, bc, err := d.kgs[m.to].ClassifyMsg(m.data)
		if err == nil && r == 1 && !bc && m.to == victim && !tweaked && delta != 0 {
			if !sch.selfCheckShare(m.data) {
				selfOK = false
				return []dmsg{m}
			}
			out, ok := sch.tweakShare(m.data, which, delta)
			if which >= 100 && sch.Name == "ps" {
				// errors in TWO components that cancel in their sum: +delta on x and -delta on y_(which-100)
				out, ok = sch.tweakShare(m.data, -1, delta)
				if ok {
					out, ok = sch.tweakShare(out, which-100, -delta)
				}
			}
			if ok {
				tweaked = true
				m.data = out
			}
		}
		return []dmsg{m}
	}
	ctx, cancel := context.WithTimeout(context.Background(), 120*time.Second)
	if observer != 0 {
		cc = newCountCtx(ctx, k)
		d.ctxFor = map[uint16]context.Context{observer: cc}
	}
	ok := d.run(ctx, cancel, ids, 120*time.Second)
	var cons int64
	if cc != nil {
		cons = cc.Consultations()
	}
	return d.errs, d.panics, ok && selfOK, tweaked, cons
}

// unitC18ctx: the cross-check must decide whatever the moment at which a party's context ends. One honest party runs under a
// context that ends at its k-th consultation, for every k up to the number of consultations its KeyGen makes.
func unitC18ctx(e common.Env, p *common.Part) {
	p.Rule = "(iii) the key generations of (ii) with t<n and one off-polynomial key, in which one other (honest) party runs under a context that ends at its k-th consultation (Err/Done call), for every k = 1..M+1 (M = consultations counted in a reference run; capped at 60 in quick); oracle: no party returns nil; distinct key = (scheme, n, t, off-polynomial party, observer, k); non-trivial when k <= M (the context ended inside the call)"
	type job struct {
		sch      scheme
		n, t     int
		victim   uint16
		observer uint16
	}
	var jobs []job
	for _, sch := range []scheme{{Name: "bls"}, {Name: "ps", MsgLen: 1}} {
		jobs = append(jobs, job{sch, 3, 2, 3, 1}, job{sch, 4, 2, 4, 1}, job{sch, 4, 3, 2, 3})
		if e.Thorough() {
			jobs = append(jobs, job{sch, 4, 2, 1, 2}, job{sch, 5, 2, 5, 1}, job{sch, 5, 3, 1, 4})
		}
	}
	idx := 0
	for ji, j := range jobs {
		_, _, ok, tweaked, M := offPolynomialDKGctx(j.sch, j.n, j.t, j.victim, -1, 3, e.Rng("c18ctx-ref", ji), j.observer, 0)
		if !ok || !tweaked {
			p.Inconcl(fmt.Sprintf("%s n=%d t=%d: reference run unusable", j.sch.Name, j.n, j.t))
			continue
		}
		p.Note(fmt.Sprintf("consultations %s n=%d t=%d", j.sch.Name, j.n, j.t), M)
		maxK := M + 1
		if c := int64(e.Pick(60, 400)); maxK > c {
			maxK = c
		}
		for k := int64(1); k <= maxK; k++ {
			idx++
			if !e.Mine(idx) || p.ViolationCount() >= 3 {
				continue
			}
			key := fmt.Sprintf("%s n=%d t=%d off-polynomial party=%d observer=%d context ends at consultation %d", j.sch.Name, j.n, j.t, j.victim, j.observer, k)
			p.Begin(key)
			errs, panics, ok, tweaked, cons := offPolynomialDKGctx(j.sch, j.n, j.t, j.victim, -1, 3, e.Rng("c18ctx", ji, k), j.observer, k)
			p.Case(key, cons >= k)
			p.Count("ctx_runs", 1)
			if cons >= k {
				p.Count("contexts_ended_inside_the_call", 1)
			}
			wit := map[string]interface{}{"scheme": j.sch.Name, "n": j.n, "t": j.t, "party": j.victim, "observer": j.observer, "k": k}
			if len(panics) > 0 {
				p.Violate("dkg-panic/"+j.sch.Name, key+": "+panics[0], wit)
				continue
			}
			if !ok {
				p.Violate("hang/"+j.sch.Name, key+": a KeyGen had not returned after every context had ended", wit)
				continue
			}
			if !tweaked {
				continue
			}
			for id, err := range errs {
				if err == nil {
					p.Violate("off-polynomial-key-accepted/"+j.sch.Name+"/context-ends-inside-the-cross-check", fmt.Sprintf("%s: party %d returned key material although the key of party %d is off the common polynomial", key, id, j.victim), wit)
					break
				}
			}
		}
	}
}

func unitC18dkg(e common.Env, p *common.Part) {
	p.Rule = "(ii) directly wired BLS and PS key generations in which exactly one party p (every p in turn) ends up with sk_p+delta (delta added to a share it receives, so that its commitment and reveal are consistent; PS: on x and on each y_j, and on x and one y_j with errors that cancel in their sum): for t<n every party must return an error, for t=n (any n keys lie on one polynomial of degree n-1) and for delta=0 every party must accept; party identifier sets 1..n, with a gap, offset (11..) and 16-bit multiples of 257 ending at 65535 in turn; plus, at every position and t<n, a party that commits to and reveals a valid key off the polynomial and then reveals its genuine key as well, and a party that deals shares of a polynomial of degree t (every honest party must refuse); distinct key = (scheme, n, t, position, scalar); non-trivial always"
	type job struct {
		sch    scheme
		n, t   int
		victim uint16
		which  int
		delta  int64
	}
	var jobs []job
	for n := 2; n <= e.Pick(5, 6); n++ {
		for t := 2; t <= n; t++ {
			for v := 1; v <= n; v++ {
				jobs = append(jobs, job{scheme{Name: "bls"}, n, t, uint16(v), -1, 1 + int64(v)})
			}
			jobs = append(jobs, job{scheme{Name: "bls"}, n, t, 1, -1, 0})
		}
	}
	for n := 2; n <= e.Pick(4, 5); n++ {
		for t := 2; t <= n; t++ {
			for v := 1; v <= n; v++ {
				for which := -1; which <= 1; which++ {
					if !e.Thorough() && which == 0 && v != 1 {
						continue
					}
					jobs = append(jobs, job{scheme{Name: "ps", MsgLen: 1}, n, t, uint16(v), which, 5})
				}
			}
			jobs = append(jobs, job{scheme{Name: "ps", MsgLen: 1}, n, t, 1, -1, 0})
			// a key that is off the polynomial in two components whose errors cancel (x + d, y_0 - d; x + d, y_last - d)
			for v := 1; v <= n; v++ {
				if e.Thorough() || (v+n+t)%2 == 0 {
					jobs = append(jobs, job{scheme{Name: "ps", MsgLen: 1}, n, t, uint16(v), 100, 5}, job{scheme{Name: "ps", MsgLen: 1}, n, t, uint16(v), 101, 9})
				}
			}
		}
	}
	// the off-polynomial key reaches the others by a detour: the party commits to and reveals a valid key that is off the polynomial
	// and then reveals its genuine key as well (the strategy of C05's catalogue; every position, t < n)
	{
		k := 0
		for _, sch := range []scheme{{Name: "bls"}, {Name: "ps", MsgLen: 1}} {
			for n := 3; n <= e.Pick(5, 6); n++ {
				for t := 2; t < n; t++ {
					for byz := 1; byz <= n; byz++ {
						k++
						if !e.Mine(10000+k) || p.ViolationCount() >= 3 {
							continue
						}
						var honest []uint16
						for i := 1; i <= n; i++ {
							if i != byz {
								honest = append(honest, uint16(i))
							}
						}
						for _, strat := range []string{"off-polynomial-key-committed-and-revealed-then-the-genuine-key", "shares-of-a-polynomial-of-too-high-a-degree"} {
							cs := c05case{Sch: sch, N: n, T: t, Byz: uint16(byz), Strategy: strat, Victims: honest, Which: -1}
							p.Begin(cs.String())
							rng := e.Rng("c18detour", k)
							r := runC05(cs, rng)
							p.Case(cs.String(), r.effected)
							p.Count("dkg_runs", 1)
							if r.effected {
								p.Count("detour_cases", 1)
							}
							if !r.selfOK {
								continue
							}
							if sig, what := c05oracle(cs, r, rng); sig != "" {
								p.Violate(sig+"/"+sch.Name+"/"+map[bool]string{true: "revealed-twice", false: "dealer"}[strings.HasPrefix(strat, "off-")], cs.String()+": "+what, map[string]interface{}{"scheme": sch.Name, "n": n, "t": t, "party": byz})
							}
						}
					}
				}
			}
		}
	}
	for i, j := range jobs {
		if !e.Mine(i) || p.ViolationCount() >= 3 {
			continue
		}
		// party identifier sets: the unit is single-threaded per child, so the variant is a package variable
		c18idVariant = i % 4
		key := fmt.Sprintf("%s n=%d t=%d ids=%v off-polynomial position=%d scalar=%d delta=%d", j.sch.Name, j.n, j.t, c18ids(j.n), j.victim, j.which, j.delta)
		p.Begin(key)
		errs, panics, ok, tweaked := offPolynomialDKG(j.sch, j.n, j.t, j.victim, j.which, j.delta, e.Rng("c18dkg", i))
		c18idVariant = 0
		p.Case(key, true)
		p.Count("dkg_runs", 1)
		wit := map[string]interface{}{"scheme": j.sch.Name, "n": j.n, "t": j.t, "party": j.victim, "scalar": j.which, "delta": j.delta}
		if len(panics) > 0 {
			p.Violate("dkg-panic/"+j.sch.Name, key+": "+panics[0], wit)
			continue
		}
		if !ok {
			p.Inconcl(key + ": run did not finish or the share layout self-check failed")
			continue
		}
		expectAccept := j.delta == 0 || j.t == j.n
		if j.delta != 0 && !tweaked {
			p.Inconcl(key + ": no share reached the chosen party")
			continue
		}
		for id, err := range errs {
			if expectAccept && err != nil {
				p.Violate("consistent-keys-rejected/"+j.sch.Name, fmt.Sprintf("%s: party %d rejected keys that lie on one polynomial: %v", key, id, err), wit)
				break
			}
			if !expectAccept && err == nil {
				p.Violate("off-polynomial-key-accepted/"+j.sch.Name, fmt.Sprintf("%s: party %d accepted although the key of party %d is off the common polynomial", key, id, j.victim), wit)
				break
			}
		}
		if expectAccept {
			p.Count("accept_cases", 1)
		} else {
			p.Count("detect_cases", 1)
		}
		if i%11 == 0 {
			p.Sample(map[string]interface{}{"case": key, "expected": map[bool]string{true: "accept", false: "all parties abort"}[expectAccept]})
		}
	}
}
