package main

// C01 — threshold key agreement and signing correctness for all n, t, subsets, schedules (BLS part).

import (
	"context"
	"fmt"
	"math/rand"
	"sort"
	"sync"
	"time"

	"github.com/IBM/TSS/mpc/bls"
	tss "github.com/IBM/TSS/types"

	"verifharness/cluster"
	"verifharness/common"
	"verifharness/simnet"
)

func idSet(rng *rand.Rand, n int, kind int) []uint16 {
	switch kind % 4 {
	case 0:
		var s []uint16
		for i := 1; i <= n; i++ {
			s = append(s, uint16(i))
		}
		return s
	case 1: // non-contiguous small
		base := []uint16{1, 3, 4, 7, 9, 12, 20, 33}
		return append([]uint16{}, base[:n]...)
	default: // PRNG below 256, incl. 0 sometimes
		used := map[uint16]bool{}
		var s []uint16
		for len(s) < n {
			v := uint16(rng.Intn(256))
			if !used[v] {
				used[v] = true
				s = append(s, v)
			}
		}
		sort.Slice(s, func(i, j int) bool { return s[i] < s[j] })
		return s
	}
}

func testDigests(rng *rand.Rand) [][]byte {
	r32 := make([]byte, 32)
	rng.Read(r32)
	lz := make([]byte, 32)
	rng.Read(lz)
	lz[0], lz[1] = 0, 0
	big := make([]byte, 1024)
	rng.Read(big)
	return [][]byte{{}, {7}, r32, lz, big}
}

// verifyAllSubsets: every subset of size >= t signs every digest; signers in PRNG order; all aggregates verify.
func verifyAllSubsetsBLS(rng *rand.Rand, parties []uint16, t int, stored map[uint16][]byte, digests [][]byte, p *common.Part) (string, int) {
	checked := 0
	for _, sub := range subsets(parties, t) {
		for _, d := range digests {
			order := append([]uint16{}, sub...)
			rng.Shuffle(len(order), func(i, j int) { order[i], order[j] = order[j], order[i] })
			reporter := parties[rng.Intn(len(parties))]
			if err := jointBLS(parties, t, stored, order, d, reporter); err != nil {
				return fmt.Sprintf("signers %v (in this order) on a %d-byte digest under the key reported by party %d: %v", order, len(d), reporter, err), checked
			}
			checked++
		}
	}
	return "", checked
}

func consistentPublicMaterial(parties []uint16, stored map[uint16][]byte) string {
	var ref []byte
	for _, p := range parties {
		pm, err := publicMaterial(stored[p])
		if err != nil {
			return fmt.Sprintf("stored data of party %d is unreadable: %v", p, err)
		}
		if ref == nil {
			ref = pm
		} else if !sameBytes(ref, pm) {
			return fmt.Sprintf("party %d reports public material that differs from party %d's", p, parties[0])
		}
	}
	return ""
}

func unitC01direct(e common.Env, p *common.Part) {
	p.Rule = "BLS key generation with directly wired TBLS backends (per-link FIFO, PRNG delivery order) for all 2<=t<=n<=6 (thorough 7), party identifier sets 1..n, non-contiguous and PRNG (<256, incl. 0); then fresh signers re-created from the serialised stored data only: every subset of size >= t signs digests {empty, 1 byte, 32 random bytes, 32 bytes with leading zeros, 1 KiB}, signatures aggregated in PRNG order and verified under the threshold public key a PRNG-chosen party reports; every second case: a second key generation among the same parties, and signer objects that still hold the first key's share (loaded from stored data, or left by the first KeyGen) are loaded with the second key's stored data and must sign under the second key; plus committees of (21,2), (24,3), (30,2) (thorough also (40,2)) parties whose aggregates are formed by everybody, everybody but the first / the last, the upper / lower half, a middle window and PRNG sets; distinct key = (n, t, id set, schedule seed); non-trivial when key generation completed and at least one aggregate was verified"
	maxN := e.Pick(6, 7)
	reps := e.Pick(4, 60)
	idx := 0
	c01large(e, p)
	for n := 2; n <= maxN; n++ {
		for t := 2; t <= n; t++ {
			for r := 0; r < reps; r++ {
				idx++
				if !e.Mine(idx) || p.ViolationCount() >= 3 {
					continue
				}
				rng := e.Rng("c01d", n, t, r)
				ids := idSet(rng, n, r)
				key := fmt.Sprintf("bls direct n=%d t=%d ids=%v seed=%d", n, t, ids, r)
				p.Begin(key)
				d := newDrun(scheme{Name: "bls"}, ids, t, rng)
				d.noFIFO = r%4 == 3 // every fourth key generation: any queued message next (OnMsg has no ordering contract)
				ctx, cancel := context.WithTimeout(context.Background(), 60*time.Second)
				ok := d.run(ctx, cancel, ids, 60*time.Second)
				viol := ""
				switch {
				case len(d.panics) > 0:
					viol = d.panics[0]
				case !ok:
					viol = "KeyGen did not return"
				default:
					for _, id := range ids {
						if d.errs[id] != nil {
							viol = fmt.Sprintf("all-honest key generation failed at party %d: %v", id, d.errs[id])
						}
					}
				}
				checked := 0
				if viol == "" {
					viol = consistentPublicMaterial(ids, d.outs)
				}
				if viol == "" {
					digs := testDigests(rng)
					if n >= 6 {
						digs = digs[1:3]
					}
					viol, checked = verifyAllSubsetsBLS(rng, ids, t, d.outs, digs, p)
				}
				if viol == "" && r%2 == 0 {
					// signer objects that are USED AGAIN: a second key generation among the same parties; objects that hold the first
					// key's share (loaded from stored data, or left by the first KeyGen itself) are loaded with the second key's stored
					// data and must then sign under the second key
					d2 := newDrun(scheme{Name: "bls"}, ids, t, rng)
					ctx2, cancel2 := context.WithTimeout(context.Background(), 60*time.Second)
					if d2.run(ctx2, cancel2, ids, 60*time.Second) && len(d2.panics) == 0 && consistentPublicMaterial(ids, d2.outs) == "" {
						for variant, mk := range []func(id uint16) (tss.Signer, error){
							func(id uint16) (tss.Signer, error) {
								return (scheme{Name: "bls"}).signerFrom(id, ids, t, d.outs[id]) // Init + SetShareData(first key)
							},
							func(id uint16) (tss.Signer, error) {
								sg, ok := d.kgs[id].(tss.Signer) // the object that ran the first KeyGen
								if !ok {
									return nil, fmt.Errorf("not a signer")
								}
								return sg, nil
							},
						} {
							var sigs [][]byte
							digest := []byte("digest-for-the-second-key-0123456789")
							bad := ""
							for _, id := range ids[:t] {
								sg, err := mk(id)
								if err != nil {
									bad = "skip"
									break
								}
								if err := sg.SetShareData(d2.outs[id]); err != nil {
									bad = fmt.Sprintf("signers: a signer object that held another key's share refused the stored data of a later key generation at party %d: %v", id, err)
									break
								}
								sig, err := sg.Sign(context.Background(), digest)
								if err != nil {
									bad = fmt.Sprintf("signers: Sign(%d) on a re-used object: %v", id, err)
									break
								}
								sigs = append(sigs, sig)
							}
							if bad == "skip" {
								continue
							}
							if bad == "" {
								rep, err := (scheme{Name: "bls"}).signerFrom(ids[0], ids, t, d2.outs[ids[0]])
								if err == nil {
									if pp, err := rep.ThresholdPK(); err == nil {
										var v bls.Verifier
										if v.Init(pp) == nil {
											if agg, err := v.AggregateSignatures(sigs, ids[:t]); err != nil {
												bad = fmt.Sprintf("signers %v on re-used objects (variant %d): AggregateSignatures: %v", ids[:t], variant, err)
											} else if err := v.Verify(digest, agg); err != nil {
												bad = fmt.Sprintf("signers %v: signer objects that held the share of an earlier key (variant %d: %s) and were then loaded with the stored data of a second key generation produce an aggregate that does not verify under the second key: %v", ids[:t], variant, []string{"loaded from stored data", "left by KeyGen"}[variant], err)
											} else {
												checked++
												p.Count("reused_signer_aggregates", 1)
											}
										}
									}
								}
							}
							if bad != "" && viol == "" {
								viol = bad
							}
						}
					}
				}
				p.Case(key, checked > 0)
				p.Count("keygens", 1)
				p.Count("aggregates_verified", int64(checked))
				if viol != "" {
					p.Violate("bls-direct/"+classify(viol), key+": "+viol, map[string]interface{}{"n": n, "t": t, "ids": ids, "seed": r})
				}
				if idx%9 == 0 {
					p.Sample(map[string]interface{}{"n": n, "t": t, "ids": ids, "aggregates_verified": checked})
				}
			}
		}
	}
}

// c01large: key generations in committees of 21..40 parties with low thresholds (the DKG's own cross-check enumerates every
// t-subset, which bounds t), then LARGE signer sets: everybody, everybody but the first / the last, the upper and the lower half,
// a window in the middle, PRNG sets of every size class. Products over many evaluation points grow far beyond a machine word.
func c01large(e common.Env, p *common.Part) {
	idx := 1000
	for _, nt := range [][2]int{{21, 2}, {24, 3}, {30, 2}, {40, 2}} {
		idx++
		if !e.Mine(idx) || p.ViolationCount() >= 3 {
			continue
		}
		if !e.Thorough() && nt[0] == 40 {
			continue
		}
		n, t := nt[0], nt[1]
		rng := e.Rng("c01large", n, t)
		ids := make([]uint16, n)
		for i := range ids {
			ids[i] = uint16(i + 1)
		}
		key := fmt.Sprintf("bls direct large committee n=%d t=%d", n, t)
		p.Begin(key)
		d := newDrun(scheme{Name: "bls"}, ids, t, rng)
		ctx, cancel := context.WithTimeout(context.Background(), 180*time.Second)
		ok := d.run(ctx, cancel, ids, 180*time.Second)
		viol := ""
		switch {
		case len(d.panics) > 0:
			viol = d.panics[0]
		case !ok:
			viol = "KeyGen did not return"
		default:
			for _, id := range ids {
				if d.errs[id] != nil {
					viol = fmt.Sprintf("all-honest key generation failed at party %d: %v", id, d.errs[id])
				}
			}
		}
		if viol == "" {
			viol = consistentPublicMaterial(ids, d.outs)
		}
		checked := 0
		if viol == "" {
			sets := [][]uint16{ids, ids[1:], ids[:n-1], ids[n/2:], ids[:n/2], ids[n/4 : n/4+n/2], ids[n-t:], ids[:t]}
			for k := 0; k < e.Pick(6, 40); k++ {
				perm := rng.Perm(n)
				var sub []uint16
				for _, x := range perm[:t+rng.Intn(n-t+1)] {
					sub = append(sub, ids[x])
				}
				sets = append(sets, sub)
			}
			digest := make([]byte, 32)
			rng.Read(digest)
			for _, sub := range sets {
				order := append([]uint16{}, sub...)
				rng.Shuffle(len(order), func(a, b int) { order[a], order[b] = order[b], order[a] })
				if err := jointBLS(ids, t, d.outs, order, digest, ids[rng.Intn(n)]); err != nil {
					srt := append([]uint16{}, sub...)
					sort.Slice(srt, func(a, b int) bool { return srt[a] < srt[b] })
					viol = fmt.Sprintf("the aggregate of the %d signers %v does not verify under the threshold public key: %v", len(sub), srt, err)
					break
				}
				checked++
			}
		}
		p.Case(key, checked > 0)
		p.Count("keygens", 1)
		p.Count("large_committee_aggregates_verified", int64(checked))
		if viol != "" {
			p.Violate("bls-direct/"+classify(viol), key+": "+viol, map[string]interface{}{"n": n, "t": t})
		}
	}
}

func classify(v string) string {
	switch {
	case len(v) >= 7 && v[:7] == "signers":
		return "aggregate-does-not-verify"
	case len(v) >= 5 && v[:5] == "party":
		return "public-material-differs"
	default:
		return "keygen-failed"
	}
}

// ---- orchestrator arm ----

func unitC01orch(e common.Env, p *common.Part) {
	p.Rule = "BLS key generation through real LoudScheme / SilentScheme objects (real disc.Member, rbc.Receiver, msg.Box) on the simulated network in random mode with five delivery policies and staggered starts (silent mode: every second run with a member picker that lists the members in a non-ascending order), node id = party id (non-contiguous, <256), 2<=t<=n<=5 (thorough 6); then every subset of size >= t verified as in the direct arm; distinct key = (n, t, mode, ids, delivery-order hash); non-trivial when key generation completed and >= 1 aggregate verified"
	maxN := e.Pick(5, 6)
	reps := e.Pick(3, 40)
	idx := 0
	for n := 2; n <= maxN; n++ {
		for t := 2; t <= n; t++ {
			for _, silent := range []bool{false, true} {
				for r := 0; r < reps; r++ {
					idx++
					if !e.Mine(idx) || p.ViolationCount() >= 3 {
						continue
					}
					rng := e.Rng("c01o", n, t, silent, r)
					ids := idSet(rng, n, r+1)
					mode := "loud"
					if silent {
						mode = "silent"
					}
					key := fmt.Sprintf("bls %s n=%d t=%d ids=%v seed=%d", mode, n, t, ids, r)
					p.Begin(key)
					viol, checked, oh := runC01orch(rng, ids, t, silent, idx, 1)
					if viol == "WATCHDOG" {
						p.Count("watchdog_replays", 1)
						viol, checked, oh = runC01orch(rng, ids, t, silent, idx, 5)
						if viol == "WATCHDOG" {
							viol = "key generation or signing did not complete within 100 s"
						}
					}
					p.Case(key+" order="+oh, checked > 0)
					p.Count("sessions", 1)
					p.Count("aggregates_verified", int64(checked))
					if viol != "" {
						p.Violate("bls-"+mode+"/"+classify(viol), key+": "+viol, map[string]interface{}{"n": n, "t": t, "ids": ids, "mode": mode, "seed": r})
					}
					if idx%7 == 0 {
						p.Sample(map[string]interface{}{"n": n, "t": t, "mode": mode, "ids": ids, "order_hash": oh, "aggregates_verified": checked})
					}
				}
			}
		}
	}
}

func runC01orch(rng *rand.Rand, ids []uint16, t int, silent bool, idx int, scale int) (string, int, string) {
	n := len(ids)
	m := map[uint16]uint16{}
	for _, i := range ids {
		m[i] = i
	}
	pols := []simnet.Policy{simnet.Uniform, simnet.StarveSender(ids[rng.Intn(n)]), simnet.PreferNewest, simnet.Burst(), simnet.ByReceiver}
	c := cluster.New(cluster.Config{Map: m, Silent: silent, Threshold: t - 1, PermutePicks: idx%2 == 1,
		KGF: func(node uint16) tss.KeyGenerator { return &bls.TBLS{Party: node, Logger: common.Nolog{}} },
		SF:  func(node uint16) tss.Signer { return &bls.TBLS{Party: node, Logger: common.Nolog{}} }})
	go c.Net.RunRandom(rng, pols[idx%len(pols)])
	defer c.Net.Stop()
	if silent {
		c.SetPick(tss.DkgTopicName, ids)
	}
	ctx, cancel := context.WithTimeout(context.Background(), time.Duration(scale)*20*time.Second)
	defer cancel()
	stored := map[uint16][]byte{}
	errs := map[uint16]error{}
	var mu sync.Mutex
	var wg sync.WaitGroup
	for _, u := range ids {
		u := u
		wg.Add(1)
		stag := time.Duration(rng.Intn(3000)) * time.Microsecond
		go func() {
			defer wg.Done()
			time.Sleep(stag)
			out, err := c.Schemes[u].KeyGen(ctx, n, t)
			mu.Lock()
			stored[u], errs[u] = out, err
			mu.Unlock()
		}()
	}
	wg.Wait()
	for _, u := range ids {
		if errs[u] != nil {
			if ctx.Err() != nil {
				return "WATCHDOG", 0, ""
			}
			return fmt.Sprintf("all-honest key generation failed at node %d: %v", u, errs[u]), 0, c.Net.OrderHash()
		}
	}
	if v := consistentPublicMaterial(ids, stored); v != "" {
		return v, 0, c.Net.OrderHash()
	}
	digs := testDigests(rng)[1:4]
	viol, checked := verifyAllSubsetsBLS(rng, ids, t, stored, digs, nil)
	if viol != "" {
		return viol, checked, c.Net.OrderHash()
	}
	// Orchestrated signing is not exercised with BLS: the README states that with BLS the scheme orchestrates the key
	// generation only (the non-interactive signer returns at once, so a fast node may leave a slower one behind in the
	// pre-signing synchronisation). The orchestrated-signing clause is decided with the EdDSA adapter (hbinance).
	return "", checked, c.Net.OrderHash()
}

// ---- C13 (built-in schemes): large identifiers, key material re-created only from its serialised form ----

func unitC13crypto(e common.Env, p *common.Part) {
	p.Rule = "BLS and PS key generations (directly wired) with party identifiers along the byte boundaries and across the 16-bit range (0, 255, 256, 257, 511, 512, 32768, 65279, 65280, 65534, 65535, PRNG); afterwards every signer, verifier and prover is re-created ONLY from the serialised stored data / ThresholdPK() bytes and every subset of size >= t must sign and verify; distinct key = (scheme, id tuple); non-trivial when the tuple contains an identifier >= 256"
	sets := [][]uint16{{0, 256, 65535}, {1, 255, 257}, {511, 512, 32768}, {65279, 65280, 65534}, {2, 300, 40000, 65535}, {255, 256}, {0, 65535}}
	rng := e.Rng("c13crypto")
	for i := 0; i < e.Pick(6, 40); i++ {
		n := 2 + rng.Intn(4)
		used := map[uint16]bool{}
		var s []uint16
		for len(s) < n {
			v := uint16(rng.Intn(65536))
			if !used[v] {
				used[v] = true
				s = append(s, v)
			}
		}
		sort.Slice(s, func(a, b int) bool { return s[a] < s[b] })
		sets = append(sets, s)
	}
	idx := 0
	for _, ids := range sets {
		for _, sch := range []scheme{{Name: "bls"}, {Name: "ps", MsgLen: 2}} {
			idx++
			if !e.Mine(idx) || p.ViolationCount() >= 3 {
				continue
			}
			t := 2
			if len(ids) > 3 {
				t = 3
			}
			key := fmt.Sprintf("%s ids=%v t=%d", sch.Name, ids, t)
			p.Begin(key)
			r := e.Rng("c13c", idx)
			d := newDrun(sch, ids, t, r)
			ctx, cancel := context.WithTimeout(context.Background(), 60*time.Second)
			ok := d.run(ctx, cancel, ids, 60*time.Second)
			viol := ""
			if len(d.panics) > 0 {
				viol = d.panics[0]
			} else if !ok {
				viol = "KeyGen did not return"
			}
			for _, id := range ids {
				if viol == "" && d.errs[id] != nil {
					viol = fmt.Sprintf("key generation failed at party %d: %v", id, d.errs[id])
				}
			}
			if viol == "" {
				viol = consistentPublicMaterial(ids, d.outs)
			}
			checked := 0
			if viol == "" {
				for _, sub := range subsets(ids, t) {
					order := append([]uint16{}, sub...)
					r.Shuffle(len(order), func(a, b int) { order[a], order[b] = order[b], order[a] })
					var err error
					if sch.Name == "bls" {
						err = jointBLS(ids, t, d.outs, order, []byte("c13-digest-0123456789abcdef012345"), ids[r.Intn(len(ids))])
					} else {
						err = jointPS(ids, t, sch.MsgLen, d.outs, order, [][]byte{[]byte("a"), []byte("b")}, ids[r.Intn(len(ids))])
					}
					if err != nil {
						viol = fmt.Sprintf("signers %v (re-created from serialised data only): %v", order, err)
						break
					}
					checked++
				}
			}
			large := false
			for _, v := range ids {
				large = large || v >= 256
			}
			p.Case(key, large)
			p.Count("subsets_verified", int64(checked))
			if large {
				p.Count("sessions_with_large_ids", 1)
			}
			if viol != "" {
				p.Violate("large-ids/"+sch.Name, key+": "+viol, map[string]interface{}{"ids": ids, "scheme": sch.Name})
			}
			if idx%5 == 0 {
				p.Sample(map[string]interface{}{"scheme": sch.Name, "ids": ids, "subsets_verified": checked})
			}
		}
	}
}
