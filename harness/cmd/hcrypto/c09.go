package main

// C09 — verification rejects anything altered; verifying is side-effect free.
// Genuine objects are produced through the public API, then every bound component is perturbed by one
// group / field unit or swapped with the same field of another object (the exported Raw* asn.1 types make
// this possible from outside the packages).

import (
	"context"
	"crypto/sha256"
	"crypto/sha512"
	"encoding/asn1"
	"fmt"
	"math/big"
	mrand "math/rand"
	"strings"

	"github.com/IBM/TSS/mpc/bls"
	"github.com/IBM/TSS/mpc/ps"
	math "github.com/IBM/mathlib"

	"verifharness/common"
)

func g1Add1(b []byte) []byte {
	p, err := curve.NewG1FromBytes(b)
	if err != nil {
		return flipByte(b, -1)
	}
	p.Add(curve.GenG1)
	return p.Bytes()
}

func g2Add1(b []byte) []byte {
	p, err := curve.NewG2FromBytes(b)
	if err != nil {
		return flipByte(b, -1)
	}
	p.Add(curve.GenG2)
	return p.Bytes()
}

func zrAdd1(b []byte) []byte { return addDelta(curve.NewZrFromBytes(b), 1).Bytes() }

// lagrangeBig: independent reference of the coefficient of point x among points (mod the group order).
func lagrangeBig(x int64, points []int64) *big.Int {
	q := new(big.Int).SetBytes(curve.GroupOrder.Bytes())
	num, den := big.NewInt(1), big.NewInt(1)
	for _, j := range points {
		if j == x {
			continue
		}
		num.Mul(num, big.NewInt(j))
		num.Mod(num, q)
		d := big.NewInt(j - x)
		d.Mod(d, q)
		den.Mul(den, d)
		den.Mod(den, q)
	}
	den.ModInverse(den, q)
	num.Mul(num, den)
	return num.Mod(num, q)
}

type c09obs struct {
	p    *common.Part
	kind string
	n, t int
}

func (o c09obs) expectReject(field, pert string, err error, wit map[string]interface{}) {
	key := fmt.Sprintf("%s n=%d t=%d %s %s", o.kind, o.n, o.t, field, pert)
	o.p.Case(key, true)
	o.p.Count("perturbed_objects", 1)
	if err == nil {
		w := map[string]interface{}{"object": o.kind, "field": field, "perturbation": pert, "n": o.n, "t": o.t}
		for k, v := range wit {
			w[k] = v
		}
		o.p.Violate("accepted/"+o.kind+"/"+field+"/"+pert, fmt.Sprintf("%s (n=%d, t=%d): verification accepted an object whose %s was altered (%s)", o.kind, o.n, o.t, field, pert), w)
	}
}

func (o c09obs) expectAccept(what string, err error) bool {
	if err != nil {
		o.p.Violate("genuine-rejected/"+o.kind+"/"+what, fmt.Sprintf("%s (n=%d, t=%d): a genuine object was rejected (%s): %v", o.kind, o.n, o.t, what, err), nil)
		return false
	}
	return true
}

func blsPartial(parties []uint16, t int, stored map[uint16][]byte, p uint16, digest []byte) []byte {
	sg, err := (scheme{Name: "bls"}).signerFrom(p, parties, t, stored[p])
	if err != nil {
		return nil
	}
	s, _ := sg.Sign(context.Background(), digest)
	return s
}

func blsVerifier(parties []uint16, t int, stored map[uint16][]byte) (*bls.Verifier, error) {
	sg, err := (scheme{Name: "bls"}).signerFrom(parties[0], parties, t, stored[parties[0]])
	if err != nil {
		return nil, err
	}
	pp, err := sg.ThresholdPK()
	if err != nil {
		return nil, err
	}
	v := &bls.Verifier{}
	return v, v.Init(pp)
}

func thresholdPKOf(parties []uint16, t int, stored map[uint16][]byte) ([]byte, error) {
	sg, err := (scheme{Name: "bls"}).signerFrom(parties[0], parties, t, stored[parties[0]])
	if err != nil {
		return nil, err
	}
	return sg.ThresholdPK()
}

func wit0(S []uint16) map[string]interface{} { return map[string]interface{}{"signers": S} }

func c09bls(e common.Env, p *common.Part, n, t int, rng *mrand.Rand) {
	o := c09obs{p, "bls-threshold-signature", n, t}
	stored, parties := dealBLS(n, t)
	other, _ := dealBLS(n, t) // another session with the same party ids
	v, err := blsVerifier(parties, t, stored)
	if err != nil {
		p.Inconcl("bls verifier init: " + err.Error())
		return
	}
	vOther, _ := blsVerifier(parties, t, other)
	d1 := sha256.Sum256([]byte(fmt.Sprintf("c09-%d-%d", n, t)))
	d2 := sha256.Sum256([]byte("another message"))
	subs := subsets(parties, t)
	rng.Shuffle(len(subs), func(i, j int) { subs[i], subs[j] = subs[j], subs[i] })
	if len(subs) > 3 {
		subs = subs[:3]
	}
	for _, S := range subs {
		if len(S) != t {
			S = S[:t]
		}
		var sigs [][]byte
		for _, s := range S {
			sigs = append(sigs, blsPartial(parties, t, stored, s, d1[:]))
		}
		agg, err := v.AggregateSignatures(sigs, S)
		if err != nil || !o.expectAccept("aggregate of t genuine shares", v.Verify(d1[:], agg)) {
			continue
		}
		// idempotence
		if e1, e2 := v.Verify(d1[:], agg), v.Verify(d1[:], agg); (e1 == nil) != (e2 == nil) {
			p.Violate("verdict-changes/bls", "verifying the same BLS signature twice gave different verdicts", nil)
		}
		wit := map[string]interface{}{"signers": S}
		o.expectReject("message", "other digest", v.Verify(d2[:], agg), wit)
		o.expectReject("key", "threshold key of another session", vOther.Verify(d1[:], agg), wit)
		// message AND signature altered together by somebody who saw one genuine signature: if the point a message is mapped to had a
		// discrete logarithm that anybody can compute (a scalar derived from the message times a fixed generator), the genuine
		// signature raised to z(d2)/z(d1) would be a signature on d2 that no signer ever produced. Tried for the scalar maps a
		// library could plausibly use; on a sound message-to-curve map every one of these is just another wrong signature.
		if sg, err := curve.NewG1FromBytes(agg); err == nil {
			h512 := sha512.Sum512(d2[:])
			g512 := sha512.Sum512(d1[:])
			hh2, hh1 := sha256.Sum256(d2[:]), sha256.Sum256(d1[:])
			maps := []struct {
				name   string
				z2, z1 *math.Zr
			}{
				{"the curve's hash-to-scalar", curve.HashToZr(d2[:]), curve.HashToZr(d1[:])},
				{"the digest read as an integer", curve.NewZrFromBytes(d2[:]), curve.NewZrFromBytes(d1[:])},
				{"SHA-256 of the digest read as an integer", curve.NewZrFromBytes(hh2[:]), curve.NewZrFromBytes(hh1[:])},
				{"SHA-512 of the digest reduced", curve.HashToZr(h512[:]), curve.HashToZr(g512[:])},
			}
			for _, m := range maps {
				z1 := zmul(m.z1, curve.NewZrFromInt(1)) // reduced
				z2 := zmul(m.z2, curve.NewZrFromInt(1))
				if len(new(big.Int).SetBytes(z1.Bytes()).Bits()) == 0 {
					continue
				}
				for dir, k := range []*math.Zr{zmul(z2, zrInv(z1)), zmul(z1, zrInv(z2))} {
					forged := sg.Mul(k).Bytes()
					o.expectReject("message+signature", fmt.Sprintf("genuine signature raised to the ratio of the two messages' scalars (%s, direction %d) presented for the other digest", m.name, dir), v.Verify(d2[:], forged), wit0(S))
				}
				// additive transfer: sigma + (z2 - z1) * pk-independent generator multiple cannot be computed without the key; the
				// multiplicative one above is the only key-free transfer
			}
			p.Count("message_transfer_forgeries", int64(2*len(maps)))
		}
		// message substitution between a message and its own hash: a signature on M (not 32 bytes long) presented for SHA-256(M),
		// and a signature on the 32-byte value D = SHA-256(M) presented for M - two different messages
		for _, ml := range []int{0, 1, 31, 33, 40, 64, 200} {
			M := make([]byte, ml)
			rng.Read(M)
			D := sha256.Sum256(M)
			var sm, sd [][]byte
			for _, sgn := range S {
				sm = append(sm, blsPartial(parties, t, stored, sgn, M))
				sd = append(sd, blsPartial(parties, t, stored, sgn, D[:]))
			}
			if am, err := v.AggregateSignatures(sm, S); err == nil && v.Verify(M, am) == nil {
				o.expectReject("message", fmt.Sprintf("signature on a %d-byte message presented for the SHA-256 of that message", ml), v.Verify(D[:], am), wit)
			}
			if ad, err := v.AggregateSignatures(sd, S); err == nil && v.Verify(D[:], ad) == nil {
				o.expectReject("message", fmt.Sprintf("signature on the SHA-256 of a %d-byte message presented for the message itself", ml), v.Verify(M, ad), wit)
			}
		}
		// ONE long-lived Verifier object that is re-keyed: Init(key 1), verify; Init(key 2) on the same object, and the signature made
		// under key 1 is presented again for the same digest (it must be rejected now), the genuine signature under key 2 accepted;
		// then back to key 1. Whatever a verifier remembers from earlier calls must not outlive the key it belongs to.
		{
			pk1, e1 := thresholdPKOf(parties, t, stored)
			pk2, e2 := thresholdPKOf(parties, t, other)
			var sigs2 [][]byte
			for _, sgn := range S {
				sigs2 = append(sigs2, blsPartial(parties, t, other, sgn, d1[:]))
			}
			if e1 == nil && e2 == nil {
				lv := &bls.Verifier{}
				if lv.Init(pk1) == nil && o.expectAccept("long-lived verifier, key 1", lv.Verify(d1[:], agg)) {
					if lv.Init(pk2) == nil {
						o.expectReject("key", "signature under key 1 presented to a verifier object re-initialised with key 2 (same digest as its last verification)", lv.Verify(d1[:], agg), wit)
						if agg2, err := lv.AggregateSignatures(sigs2, S); err == nil {
							o.expectAccept("genuine signature under key 2 at a verifier object re-initialised with key 2", lv.Verify(d1[:], agg2))
							if lv.Init(pk1) == nil {
								o.expectReject("key", "signature under key 2 presented to a verifier object re-initialised with key 1", lv.Verify(d1[:], agg2), wit)
								o.expectAccept("genuine signature under key 1 at a verifier object re-initialised with key 1 again", lv.Verify(d1[:], agg))
							}
						}
					}
					p.Count("rekeyed_verifier_sequences", 1)
				}
			}
		}
		for i := range S {
			// share perturbed by one group unit
			alt := append([][]byte{}, sigs...)
			alt[i] = g1Add1(sigs[i])
			a, err := v.AggregateSignatures(alt, S)
			if err == nil {
				o.expectReject(fmt.Sprintf("share[%d]", i), "+G1", v.Verify(d1[:], a), wit)
			}
			// same signer's signature on another digest
			alt = append([][]byte{}, sigs...)
			alt[i] = blsPartial(parties, t, stored, S[i], d2[:])
			if a, err := v.AggregateSignatures(alt, S); err == nil {
				o.expectReject(fmt.Sprintf("share[%d]", i), "signature of the same signer on another digest", v.Verify(d1[:], a), wit)
			}
			// the same index from another key generation
			alt = append([][]byte{}, sigs...)
			alt[i] = blsPartial(parties, t, other, S[i], d1[:])
			if a, err := v.AggregateSignatures(alt, S); err == nil {
				o.expectReject(fmt.Sprintf("share[%d]", i), "share of the same party from another key generation", v.Verify(d1[:], a), wit)
			}
			// another signer's signature (a party outside the set, if any) under this signer's label
			for _, q := range parties {
				in := false
				for _, s := range S {
					if s == q {
						in = true
					}
				}
				if !in {
					alt = append([][]byte{}, sigs...)
					alt[i] = blsPartial(parties, t, stored, q, d1[:])
					if a, err := v.AggregateSignatures(alt, S); err == nil {
						o.expectReject(fmt.Sprintf("share[%d]", i), "another signer's signature under this signer's label", v.Verify(d1[:], a), wit)
					}
					break
				}
			}
		}
		// signer labels permuted (expected verdict from an independent math/big reference of the coefficients)
		if t >= 2 {
			pts := make([]int64, len(S))
			for i, s := range S {
				for pos, q := range parties {
					if q == s {
						pts[i] = int64(pos + 1)
					}
				}
			}
			perm := append([]uint16{}, S...)
			perm[0], perm[1] = perm[1], perm[0]
			if lagrangeBig(pts[0], pts).Cmp(lagrangeBig(pts[1], pts)) != 0 {
				if a, err := v.AggregateSignatures(sigs, perm); err == nil {
					o.expectReject("signer-to-share assignment", "labels of two signers swapped", v.Verify(d1[:], a), wit)
				}
			}
		}
		// fewer than t shares
		if t >= 3 {
			if a, err := v.AggregateSignatures(sigs[:t-1], S[:t-1]); err == nil {
				o.expectReject("share count", "t-1 shares", v.Verify(d1[:], a), wit)
			}
		} else {
			// t = 2: a single partial signature presented as the threshold signature
			o.expectReject("share count", "t-1 shares (a bare partial signature)", v.Verify(d1[:], sigs[0]), wit)
		}
	}
}

// ---- PS ----

type psObjects struct {
	parties []uint16
	t, L    int
	stored  map[uint16][]byte
	tpk     []byte
	sess    *psSession
	signers []uint16
	sigs    map[uint16][]byte
	wits    map[uint16]ps.SignatureWitness
	msg     [][]byte
}

func makePSObjects(n, t, L int, rng *mrand.Rand, tag string) (*psObjects, error) {
	stored, parties, err := dealPS(n, t, L)
	if err != nil {
		return nil, err
	}
	o := &psObjects{parties: parties, t: t, L: L, stored: stored, sigs: map[uint16][]byte{}, wits: map[uint16]ps.SignatureWitness{}}
	o.tpk, err = psThresholdPK(parties, t, L, stored[parties[0]], parties[0])
	if err != nil {
		return nil, err
	}
	o.msg = make([][]byte, L)
	for i := range o.msg {
		o.msg[i] = []byte(fmt.Sprintf("%s-attr-%d", tag, i))
	}
	o.sess, err = newPSSession(parties, L, o.tpk, o.msg)
	if err != nil {
		return nil, err
	}
	perm := rng.Perm(n)
	for _, i := range perm[:t] {
		o.signers = append(o.signers, parties[i])
	}
	for _, s := range parties {
		sg, err := (scheme{Name: "ps", MsgLen: L}).signerFrom(s, parties, t, stored[s])
		if err != nil {
			return nil, err
		}
		sig, err := sg.Sign(context.Background(), o.sess.request)
		if err != nil {
			return nil, fmt.Errorf("genuine request rejected by signer %d: %v", s, err)
		}
		o.sigs[s] = sig
		w, err := o.sess.prover.UnBlind(s, sig, &o.sess.secret)
		if err != nil {
			return nil, fmt.Errorf("genuine partial signature of %d does not unblind: %v", s, err)
		}
		o.wits[s] = w
	}
	return o, nil
}

func (o *psObjects) proof(signers []uint16, witsOf []uint16) []byte {
	var w []ps.SignatureWitness
	for _, s := range witsOf {
		w = append(w, o.wits[s])
	}
	pr := o.sess.prover.ProveKnowledgeOfSignature(&o.sess.secret, signers, w)
	return pr.Bytes()
}

func psVerify(tpk []byte, L int, proof []byte) error {
	var v ps.Verifier
	if err := v.Init(curve, L, tpk); err != nil {
		return err
	}
	return v.Verify(proof)
}

func (o *psObjects) signRequest(req []byte) error {
	sg, err := (scheme{Name: "ps", MsgLen: o.L}).signerFrom(o.parties[0], o.parties, o.t, o.stored[o.parties[0]])
	if err != nil {
		return err
	}
	_, err = sg.Sign(context.Background(), req)
	return err
}

func c09psRequest(e common.Env, p *common.Part, n, t, L int, rng *mrand.Rand) {
	o := c09obs{p, "ps-signing-request", n, t}
	a, err := makePSObjects(n, t, L, rng, "a")
	if err != nil {
		p.Violate("genuine-rejected/ps-objects", fmt.Sprintf("ps n=%d t=%d L=%d: %v", n, t, L, err), nil)
		return
	}
	b, err := makePSObjects(n, t, L, rng, "b") // another request (other key, other message)
	if err != nil {
		return
	}
	if !o.expectAccept("request", a.signRequest(a.sess.request)) {
		return
	}
	// signing the same request again gives the same verdict
	if e1, e2 := a.signRequest(a.sess.request), a.signRequest(a.sess.request); (e1 == nil) != (e2 == nil) {
		p.Violate("verdict-changes/ps-request", "signing the same request twice gave different verdicts", nil)
	}
	var ra, rb ps.RawBlindSignature
	if _, err := asn1.Unmarshal(a.sess.request, &ra); err != nil {
		p.Inconcl("request layout: " + err.Error())
		return
	}
	asn1.Unmarshal(b.sess.request, &rb)
	var pa, pb ps.RawBlindCorrectProof
	if _, err := asn1.Unmarshal(ra.CorrectFormProof, &pa); err != nil {
		p.Inconcl("request proof layout: " + err.Error())
		return
	}
	asn1.Unmarshal(rb.CorrectFormProof, &pb)
	// format self-check: re-encoding the unmodified parts must reproduce the request
	if re, _ := asn1.Marshal(ra); !sameBytes(re, a.sess.request) {
		p.Inconcl("request re-encoding differs from the original: perturbation catalogue skipped")
		return
	}
	try := func(field, pert string, mut func(r *ps.RawBlindSignature, pr *ps.RawBlindCorrectProof)) {
		var r ps.RawBlindSignature
		var pr ps.RawBlindCorrectProof
		asn1.Unmarshal(a.sess.request, &r)
		asn1.Unmarshal(r.CorrectFormProof, &pr)
		mut(&r, &pr)
		r.CorrectFormProof, _ = asn1.Marshal(pr)
		req, _ := asn1.Marshal(r)
		if sameBytes(req, a.sess.request) {
			return
		}
		o.expectReject(field, pert, a.signRequest(req), nil)
	}
	try("commitment CM", "+G1", func(r *ps.RawBlindSignature, pr *ps.RawBlindCorrectProof) { r.CM = g1Add1(r.CM) })
	try("commitment CM", "from another request", func(r *ps.RawBlindSignature, pr *ps.RawBlindCorrectProof) { r.CM = rb.CM })
	try("ephemeral key U", "+G1", func(r *ps.RawBlindSignature, pr *ps.RawBlindCorrectProof) { r.U = g1Add1(r.U) })
	try("ephemeral key U", "from another request", func(r *ps.RawBlindSignature, pr *ps.RawBlindCorrectProof) { r.U = rb.U })
	for i := range ra.A {
		i := i
		try(fmt.Sprintf("ciphertext A[%d]", i), "+G1", func(r *ps.RawBlindSignature, pr *ps.RawBlindCorrectProof) { r.A[i] = g1Add1(r.A[i]) })
		try(fmt.Sprintf("ciphertext B[%d]", i), "+G1", func(r *ps.RawBlindSignature, pr *ps.RawBlindCorrectProof) { r.B[i] = g1Add1(r.B[i]) })
		try(fmt.Sprintf("ciphertext A[%d]", i), "from another request", func(r *ps.RawBlindSignature, pr *ps.RawBlindCorrectProof) { r.A[i] = rb.A[i%len(rb.A)] })
		try(fmt.Sprintf("ciphertext B[%d]", i), "from another request", func(r *ps.RawBlindSignature, pr *ps.RawBlindCorrectProof) { r.B[i] = rb.B[i%len(rb.B)] })
		if i+1 < len(ra.A) {
			try(fmt.Sprintf("ciphertext A[%d]<->A[%d]", i, i+1), "swapped", func(r *ps.RawBlindSignature, pr *ps.RawBlindCorrectProof) { r.A[i], r.A[i+1] = r.A[i+1], r.A[i] })
		}
	}
	try("proof commitment S", "+G1", func(r *ps.RawBlindSignature, pr *ps.RawBlindCorrectProof) { pr.S = g1Add1(pr.S) })
	try("proof response Z", "+1", func(r *ps.RawBlindSignature, pr *ps.RawBlindCorrectProof) { pr.Z = zrAdd1(pr.Z) })
	try("proof response Z", "from another request", func(r *ps.RawBlindSignature, pr *ps.RawBlindCorrectProof) { pr.Z = pb.Z })
	for i := range pa.X {
		i := i
		try(fmt.Sprintf("proof response X[%d]", i), "+1", func(r *ps.RawBlindSignature, pr *ps.RawBlindCorrectProof) { pr.X[i] = zrAdd1(pr.X[i]) })
		try(fmt.Sprintf("proof response Y[%d]", i), "+1", func(r *ps.RawBlindSignature, pr *ps.RawBlindCorrectProof) { pr.Y[i] = zrAdd1(pr.Y[i]) })
		try(fmt.Sprintf("proof commitment D[%d]", i), "+G1", func(r *ps.RawBlindSignature, pr *ps.RawBlindCorrectProof) { pr.D[i] = g1Add1(pr.D[i]) })
		try(fmt.Sprintf("proof commitment F[%d]", i), "+G1", func(r *ps.RawBlindSignature, pr *ps.RawBlindCorrectProof) { pr.F[i] = g1Add1(pr.F[i]) })
		try(fmt.Sprintf("proof commitment D[%d]", i), "from another request", func(r *ps.RawBlindSignature, pr *ps.RawBlindCorrectProof) { pr.D[i] = pb.D[i%len(pb.D)] })
		try(fmt.Sprintf("proof response X[%d]", i), "from another request", func(r *ps.RawBlindSignature, pr *ps.RawBlindCorrectProof) { pr.X[i] = pb.X[i%len(pb.X)] })
	}
	try("whole proof", "from another request", func(r *ps.RawBlindSignature, pr *ps.RawBlindCorrectProof) { *pr = pb })
	// coordinated alteration: the commitment is shifted by k*g_last and the transmitted m' by -k, so that the sum the proof
	// speaks about stays the same; a signer that derives m' from the commitment it received must reject
	if gLast, ok := psLastGenerator(L); ok {
		for _, k := range []int64{1, 5} {
			k := k
			try("commitment CM", fmt.Sprintf("+%d*g_last with the transmitted m' lowered by %d", k, k), func(r *ps.RawBlindSignature, pr *ps.RawBlindCorrectProof) {
				cm, err := curve.NewG1FromBytes(r.CM)
				if err != nil {
					return
				}
				cm.Add(gLast.Mul(curve.NewZrFromInt(k)))
				r.CM = cm.Bytes()
				r.MPrime = curve.ModSub(curve.NewZrFromBytes(r.MPrime), curve.NewZrFromInt(k), curve.GroupOrder).Bytes()
			})
		}
		p.Count("coordinated_alterations", 1)
	}
	// an adaptive requester outside the package (c09ext.go)
	variant, found := "", false
	for _, v := range c09oracleVariants {
		if req, ok := externalRequest(L, rng, "", 0, v); ok && a.signRequest(req) == nil {
			variant, found = v, true
			break
		}
	}
	if !found {
		p.Inconcl("the externally built honest request was not accepted under any challenge variant: adaptive forgeries skipped")
	} else {
		p.Count("external_prover_selfchecks", 1)
		for _, fg := range []string{"plant-b", "plant-a", "solve-d", "solve-f", "solve-s", "shift-pair"} {
			for j := 0; j <= L; j++ {
				req, ok := externalRequest(L, rng, fg, j, variant)
				if !ok {
					continue
				}
				p.Count("adaptive_forgeries", 1)
				wit := map[string]interface{}{"request_hex": fmt.Sprintf("%x", req)}
				if variant != "" {
					wit["challenge_variant"] = "honest requests are only accepted when the prover leaves '" + variant + "' out of the challenge"
				}
				o.expectReject(fmt.Sprintf("adaptive requester, component %d", j), fg, a.signRequest(req), wit)
			}
		}
	}
	// the exported SignBlindSignature on the same BlindSignature value, twice
	pp := ps.Setup(curve, L)
	sk, _ := ps.LocalKeyGen(pp)
	m := make([]*math.Zr, L)
	for i := range m {
		m[i] = curve.HashToZr([]byte{byte(i)})
	}
	bsig, _ := ps.Blind(&pp, curve, m)
	_, e1 := ps.SignBlindSignature(&pp, bsig, sk)
	_, e2 := ps.SignBlindSignature(&pp, bsig, sk)
	p.Count("idempotence_checks", 1)
	if e1 != nil {
		p.Violate("genuine-rejected/ps-request/SignBlindSignature", fmt.Sprintf("SignBlindSignature rejected a genuine request: %v", e1), nil)
	} else if e2 != nil {
		p.Violate("verdict-changes/ps-request/SignBlindSignature", fmt.Sprintf("SignBlindSignature on the same request object: first nil, then %v", e2), nil)
	}
}

func c09psProof(e common.Env, p *common.Part, n, t, L int, rng *mrand.Rand) {
	o := c09obs{p, "ps-proof-of-knowledge", n, t}
	a, err := makePSObjects(n, t, L, rng, "a")
	if err != nil {
		p.Violate("genuine-rejected/ps-objects", fmt.Sprintf("ps n=%d t=%d L=%d: %v", n, t, L, err), nil)
		return
	}
	b, err := makePSObjects(n, t, L, rng, "b")
	if err != nil {
		return
	}
	proof := a.proof(a.signers, a.signers)
	if !o.expectAccept("proof from t genuine witnesses", psVerify(a.tpk, L, proof)) {
		return
	}
	if e1, e2 := psVerify(a.tpk, L, proof), psVerify(a.tpk, L, proof); (e1 == nil) != (e2 == nil) {
		p.Violate("verdict-changes/ps-proof", "verifying the same proof twice gave different verdicts", nil)
	}
	var v ps.Verifier
	v.Init(curve, L, a.tpk)
	if e1, e2 := v.Verify(proof), v.Verify(proof); (e1 == nil) != (e2 == nil) {
		p.Violate("verdict-changes/ps-proof", "one Verifier object verifying the same proof twice gave different verdicts", nil)
	}
	proofB := b.proof(b.signers, b.signers)
	o.expectReject("key", "threshold key of another session", psVerify(b.tpk, L, proof), nil)
	var ra, rb ps.RawSigPok
	if _, err := asn1.Unmarshal(proof, &ra); err != nil || len(ra.Data) != 5 {
		p.Inconcl("proof layout differs from RawSigPok with 5 elements: perturbation catalogue skipped")
		return
	}
	asn1.Unmarshal(proofB, &rb)
	var psiA, psiB ps.RawPoKofSignaturePoCorrectForm
	if _, err := asn1.Unmarshal(ra.Data[0], &psiA); err != nil {
		p.Inconcl("inner proof layout: " + err.Error())
		return
	}
	asn1.Unmarshal(rb.Data[0], &psiB)
	try := func(field, pert string, mut func(r *ps.RawSigPok, psi *ps.RawPoKofSignaturePoCorrectForm)) {
		var r ps.RawSigPok
		var psi ps.RawPoKofSignaturePoCorrectForm
		asn1.Unmarshal(proof, &r)
		asn1.Unmarshal(r.Data[0], &psi)
		mut(&r, &psi)
		r.Data[0], _ = asn1.Marshal(psi)
		alt, _ := asn1.Marshal(r)
		if sameBytes(alt, proof) {
			return
		}
		o.expectReject(field, pert, psVerify(a.tpk, L, alt), nil)
	}
	// the in-memory proof object (what ProveKnowledgeOfSignature returns), verified three times through the exported
	// SigPoK.Verify: same verdict every time, and its serialisation is the same before and after
	if X, Y, ok := psPublicKeyPoints(a.tpk); ok {
		var w []ps.SignatureWitness
		for _, sg := range a.signers {
			w = append(w, a.wits[sg])
		}
		obj := a.sess.prover.ProveKnowledgeOfSignature(&a.sess.secret, a.signers, w)
		before := obj.Bytes()
		pp := ps.Setup(curve, L)
		pk := ps.PK{X: X, Y: Y}
		var verdicts []string
		for k := 0; k < 3; k++ {
			if err := obj.Verify(&pp, pk); err != nil {
				verdicts = append(verdicts, err.Error())
			} else {
				verdicts = append(verdicts, "accepted")
			}
		}
		p.Count("idempotence_checks", 1)
		switch {
		case verdicts[0] != "accepted":
			p.Violate("genuine-rejected/ps-proof-of-knowledge/in-memory-object", fmt.Sprintf("a genuine in-memory proof was rejected by SigPoK.Verify: %s", verdicts[0]), nil)
		case verdicts[1] != verdicts[0] || verdicts[2] != verdicts[0]:
			p.Violate("verdict-changes/ps-proof-of-knowledge/in-memory-object", fmt.Sprintf("the same in-memory proof verified three times: %v", verdicts), nil)
		case !sameBytes(before, obj.Bytes()):
			p.Violate("verdict-changes/ps-proof-of-knowledge/verification-alters-the-proof", "the serialisation of a proof differs before and after it was verified", nil)
		}
	}
	names := []string{"psi", "h^eps", "h'^eps", "nu", "kappa"}
	for i := 1; i <= 3; i++ {
		i := i
		try(names[i], "+G1", func(r *ps.RawSigPok, psi *ps.RawPoKofSignaturePoCorrectForm) { r.Data[i] = g1Add1(r.Data[i]) })
		try(names[i], "from another proof", func(r *ps.RawSigPok, psi *ps.RawPoKofSignaturePoCorrectForm) { r.Data[i] = rb.Data[i] })
	}
	try("kappa", "+G2", func(r *ps.RawSigPok, psi *ps.RawPoKofSignaturePoCorrectForm) { r.Data[4] = g2Add1(r.Data[4]) })
	try("kappa", "from another proof", func(r *ps.RawSigPok, psi *ps.RawPoKofSignaturePoCorrectForm) { r.Data[4] = rb.Data[4] })
	try("psi.Gamma", "+G2", func(r *ps.RawSigPok, psi *ps.RawPoKofSignaturePoCorrectForm) { psi.Gamma = g2Add1(psi.Gamma) })
	try("psi.Phi", "+G1", func(r *ps.RawSigPok, psi *ps.RawPoKofSignaturePoCorrectForm) { psi.Phi = g1Add1(psi.Phi) })
	try("psi.Y", "+1", func(r *ps.RawSigPok, psi *ps.RawPoKofSignaturePoCorrectForm) { psi.Y = zrAdd1(psi.Y) })
	for i := range psiA.X {
		i := i
		try(fmt.Sprintf("psi.X[%d]", i), "+1", func(r *ps.RawSigPok, psi *ps.RawPoKofSignaturePoCorrectForm) { psi.X[i] = zrAdd1(psi.X[i]) })
		try(fmt.Sprintf("psi.X[%d]", i), "from another proof", func(r *ps.RawSigPok, psi *ps.RawPoKofSignaturePoCorrectForm) { psi.X[i] = psiB.X[i%len(psiB.X)] })
	}
	try("psi", "from another proof", func(r *ps.RawSigPok, psi *ps.RawPoKofSignaturePoCorrectForm) { *psi = psiB })
	// coordinated alterations: the signature part re-randomised (h^eps, h'^eps and nu doubled together), and h^eps / h'^eps swapped
	dbl := func(b []byte) []byte {
		p, err := curve.NewG1FromBytes(b)
		if err != nil {
			return flipByte(b, -1)
		}
		return p.Mul(curve.NewZrFromInt(2)).Bytes()
	}
	try("h^eps,h'^eps,nu", "all three doubled (re-randomised signature, same psi)", func(r *ps.RawSigPok, psi *ps.RawPoKofSignaturePoCorrectForm) {
		r.Data[1], r.Data[2], r.Data[3] = dbl(r.Data[1]), dbl(r.Data[2]), dbl(r.Data[3])
	})
	try("h^eps,h'^eps", "both doubled", func(r *ps.RawSigPok, psi *ps.RawPoKofSignaturePoCorrectForm) {
		r.Data[1], r.Data[2] = dbl(r.Data[1]), dbl(r.Data[2])
	})
	try("h^eps<->h'^eps", "swapped", func(r *ps.RawSigPok, psi *ps.RawPoKofSignaturePoCorrectForm) {
		r.Data[1], r.Data[2] = r.Data[2], r.Data[1]
	})
	try("nu,kappa", "nu from another proof together with its kappa", func(r *ps.RawSigPok, psi *ps.RawPoKofSignaturePoCorrectForm) {
		r.Data[3], r.Data[4] = rb.Data[3], rb.Data[4]
	})
	// witness of signer i used under index j (expected verdict from the independent coefficient reference)
	if t >= 2 {
		pts := make([]int64, t)
		for i, s := range a.signers {
			for pos, q := range a.parties {
				if q == s {
					pts[i] = int64(pos + 1)
				}
			}
		}
		if lagrangeBig(pts[0], pts).Cmp(lagrangeBig(pts[1], pts)) != 0 {
			sw := append([]uint16{}, a.signers...)
			sw[0], sw[1] = sw[1], sw[0]
			o.expectReject("signer-to-witness assignment", "witnesses of two signers swapped", psVerify(a.tpk, L, a.proof(a.signers, sw)), nil)
		}
		// a witness of a party outside the set under a signer's label
		for _, q := range a.parties {
			in := false
			for _, s := range a.signers {
				in = in || s == q
			}
			if !in {
				w := append([]uint16{}, a.signers...)
				w[0] = q
				o.expectReject("signer-to-witness assignment", "witness of another signer under this signer's label", psVerify(a.tpk, L, a.proof(a.signers, w)), nil)
				break
			}
		}
	}
	// fewer than t witnesses
	if t >= 3 {
		o.expectReject("witness count", "t-1 witnesses", psVerify(a.tpk, L, a.proof(a.signers[:t-1], a.signers[:t-1])), nil)
	}
	// a proof forged from the public key alone: all G1 components are the identity
	if forged, ok := forgeDegenerateProof(a.tpk, L, rng); ok {
		err := psVerify(a.tpk, L, forged)
		if err != nil && strings.Contains(err.Error(), "not well formed") {
			// our replica of the proof's random oracle no longer matches this build: the entry has no power, say so
			p.Count("forgery_selfcheck_failed", 1)
		} else {
			o.expectReject("all G1 components", "proof forged from the public key alone (identity elements)", err, nil)
			p.Count("forged_proofs", 1)
		}
	}
}

// forgeDegenerateProof builds h^eps = h'^eps = nu = Phi = 0, kappa = X * prod Y_i^{m_i} * g2^delta with a fresh
// Fiat-Shamir argument for (m, delta): no signature share is involved.
func forgeDegenerateProof(tpkBytes []byte, L int, rng *mrand.Rand) ([]byte, bool) {
	var tp ps.ThresholdPK
	if _, err := asn1.Unmarshal(tpkBytes, &tp); err != nil {
		return nil, false
	}
	var xys ps.XYs
	if _, err := asn1.Unmarshal(tp.TPK, &xys); err != nil {
		return nil, false
	}
	g2, err := psG2(L)
	if err != nil {
		return nil, false
	}
	X, err := curve.NewG2FromBytes(xys.X)
	if err != nil {
		return nil, false
	}
	var Y []*math.G2
	for _, yb := range xys.Ys {
		y, err := curve.NewG2FromBytes(yb)
		if err != nil {
			return nil, false
		}
		Y = append(Y, y)
	}
	rz := func() *math.Zr {
		b := make([]byte, 32)
		rng.Read(b)
		return curve.HashToZr(b)
	}
	n := len(Y)
	m := make([]*math.Zr, n)
	gam := make([]*math.Zr, n)
	for i := range m {
		m[i], gam[i] = rz(), rz()
	}
	delta, mu := rz(), rz()
	kappa := X.Copy()
	for i := 0; i < n; i++ {
		kappa.Add(Y[i].Mul(m[i]))
	}
	kappa.Add(g2.Mul(delta))
	zero := curve.GenG1.Copy()
	zero.Sub(zero)
	Gamma := g2.Mul(mu)
	for i := 0; i < n; i++ {
		Gamma.Add(Y[i].Mul(gam[i]))
	}
	h := sha256.New()
	for i := 0; i < n; i++ {
		h.Write(Y[i].Bytes())
	}
	h.Write(X.Bytes())
	h.Write(g2.Bytes())
	h.Write(Gamma.Bytes())
	h.Write(zero.Bytes()) // Phi
	h.Write(zero.Bytes()) // nu
	h.Write(zero.Bytes()) // h^eps
	h.Write(kappa.Bytes())
	ev := curve.HashToZr(h.Sum(nil))
	psi := ps.RawPoKofSignaturePoCorrectForm{Gamma: Gamma.Bytes(), Phi: zero.Bytes()}
	for i := 0; i < n; i++ {
		psi.X = append(psi.X, curve.ModAdd(gam[i], curve.ModMul(ev, m[i], curve.GroupOrder), curve.GroupOrder).Bytes())
	}
	psi.Y = curve.ModAdd(mu, curve.ModMul(ev, delta, curve.GroupOrder), curve.GroupOrder).Bytes()
	pb, _ := asn1.Marshal(psi)
	out, _ := asn1.Marshal(ps.RawSigPok{Data: [][]byte{pb, zero.Bytes(), zero.Bytes(), zero.Bytes(), kappa.Bytes()}})
	return out, true
}

func unitC09(e common.Env, p *common.Part) {
	p.Rule = "genuine objects made through the public API (BLS partial signatures and aggregates from dealt shares; PS requests, partial signatures, witnesses and proofs), then every bound component perturbed by one group or field unit or swapped with the same field of an object of another session: BLS {digest, each share +G1 / other digest / other key generation / other signer, labels swapped, other key, t-1 shares}; PS request {CM, U, each A[i], B[i], proof S, Z, each X[i], Y[i], D[i], F[i]; and requests of an adaptive requester re-implemented outside the package (self-checked: its honest request is accepted) that plants an offset before the challenge and moves A[j]/B[j] afterwards, or solves D[j]/F[j]/S for a false statement after the challenge}; PS proof {h^eps, h'^eps, nu, kappa, psi.X[i], psi.Y, Gamma, Phi, witnesses swapped / foreign, t-1 witnesses, other key, a proof forged from the public key alone with identity elements}; verdicts that depend on Lagrange coefficients are predicted by an independent math/big reference; same object verified/signed twice (serialised objects; the in-memory request through SignBlindSignature; the in-memory proof through SigPoK.Verify three times, serialisation compared before and after); distinct key = (object kind, n, t, field, perturbation); non-trivial when the object differs from the genuine one"
	p.Assumptions = append(p.Assumptions, "a forged object verifying by chance has probability ~2^-250: any acceptance is a violation; MPrime of a request is recomputed by the signer and is not in the catalogue")
	type nt struct{ n, t int }
	nts := []nt{{2, 2}, {3, 2}, {3, 3}, {4, 2}, {4, 3}, {5, 3}}
	if e.Thorough() {
		nts = append(nts, nt{4, 4}, nt{5, 2}, nt{5, 4}, nt{5, 5}, nt{6, 3}, nt{6, 4})
	}
	idx := 0
	for _, x := range nts {
		for rep := 0; rep < e.Pick(1, 160); rep++ {
			for part := 0; part < 3; part++ {
				idx++
				if !e.Mine(idx) || p.ViolationCount() >= 3 {
					continue
				}
				rng := e.Rng("c09", x.n, x.t, rep, part)
				L := 1 + (x.n+rep)%3
				key := fmt.Sprintf("n=%d t=%d L=%d part=%d rep=%d", x.n, x.t, L, part, rep)
				p.Begin(key)
				switch part {
				case 0:
					c09bls(e, p, x.n, x.t, rng)
				case 1:
					c09psRequest(e, p, x.n, x.t, L, rng)
				default:
					c09psProof(e, p, x.n, x.t, L, rng)
				}
				if idx%4 == 0 {
					p.Sample(map[string]interface{}{"case": key})
				}
			}
		}
	}
}

// psLastGenerator reads the last commitment generator out of the scheme's serialised public parameters.
// psPublicKeyPoints parses the X and Y points out of the serialised threshold public key.
func psPublicKeyPoints(tpkBytes []byte) (*math.G2, []*math.G2, bool) {
	var tp ps.ThresholdPK
	if _, err := asn1.Unmarshal(tpkBytes, &tp); err != nil {
		return nil, nil, false
	}
	var xys ps.XYs
	if _, err := asn1.Unmarshal(tp.TPK, &xys); err != nil {
		return nil, nil, false
	}
	X, err := curve.NewG2FromBytes(xys.X)
	if err != nil {
		return nil, nil, false
	}
	var Y []*math.G2
	for _, yb := range xys.Ys {
		y, err := curve.NewG2FromBytes(yb)
		if err != nil {
			return nil, nil, false
		}
		Y = append(Y, y)
	}
	return X, Y, true
}

func psLastGenerator(L int) (*math.G1, bool) {
	pp := ps.Setup(curve, L)
	var raw ps.RawPP
	if _, err := asn1.Unmarshal(pp.Bytes(), &raw); err != nil || len(raw.Data) < 4 {
		return nil, false
	}
	var gs ps.XYs
	if _, err := asn1.Unmarshal(raw.Data[3], &gs); err != nil || len(gs.Ys) == 0 {
		return nil, false
	}
	g, err := curve.NewG1FromBytes(gs.Ys[len(gs.Ys)-1])
	return g, err == nil
}
