package main

// C20 — data races (built-in schemes): BLS and PS key generation through real schemes on the simulated network in
// concurrent mode, with a misbehaving participant that sends out-of-phase protocol messages (a commitment / public key
// captured in an earlier session, re-sent right behind its shares with PRNG micro-delays) and duplicates.

import (
	"context"
	"crypto/sha256"
	"fmt"
	"math/rand"
	"runtime"
	"sync"
	"sync/atomic"
	"time"

	"github.com/IBM/TSS/threshold"
	tss "github.com/IBM/TSS/types"

	"verifharness/cluster"
	"verifharness/common"
	"verifharness/simnet"
)

func jitterC(seed int64) func(simnet.Link) {
	var ctr uint64
	return func(l simnet.Link) {
		x := atomic.AddUint64(&ctr, 0x9e3779b97f4a7c15) ^ uint64(seed)*0xbf58476d1ce4e5b9 ^ uint64(l.Src)<<16 ^ uint64(l.Dst)
		x ^= x >> 29
		switch x % 8 {
		case 0:
			time.Sleep(time.Duration(20+x%130) * time.Microsecond)
		case 1, 2:
			for i := uint64(0); i < x%4; i++ {
				runtime.Gosched()
			}
		}
	}
}

func unitC20crypto(e common.Env, p *common.Part) {
	p.Rule = "race-detector build; BLS and PS key generation through real Loud/Silent schemes on the simulated network in concurrent mode (one dispatcher goroutine per link, micro-delays), staggered first calls; in the 'out-of-phase' scenarios one participant re-sends, right behind each of its transmissions and after a PRNG delay of 0..200 us, a broadcast-class protocol message (commitment / public key) it had sent in an earlier key generation on the same cluster, and duplicates its traffic; in the 'sign-with-out-of-phase-key-messages' scenarios two nodes sign after a key generation, the first to have registered the handlers of its signing session is held at a verif point there, the other signer's captured commitment / public-key messages of the key generation are delivered to it on the signing topic, and it is released without waiting for them; in the 'deadline-with-straggler' scenarios (directly wired, one dispatcher goroutine per link, everybody honest) one party's context ends after 5..20 ms while another party's share / commitment / key for it is handed over within 2 ms of that moment; repeated because reports vary per run; distinct key = (scheme, mode, scenario, repetition); non-trivial when >=2 dispatcher goroutines were active"
	reps := e.Pick(10, 100)
	idx := 0
	for r := 0; r < reps; r++ {
		for _, sch := range []scheme{{Name: "bls"}, {Name: "ps", MsgLen: 1}} {
			for _, sc := range []string{"honest-loud", "honest-silent", "out-of-phase", "out-of-phase", "deadline-with-straggler", "deadline-with-straggler", "sign-with-out-of-phase-key-messages"} {
				idx++
				if !e.Mine(idx) {
					continue
				}
				rng := e.Rng("c20c", sch.Name, sc, r, idx)
				key := fmt.Sprintf("%s %s #%d/%d", sch.Name, sc, r, idx)
				p.Begin(key)
				links, injected := runC20crypto(sch, sc, r, rng)
				p.Case(key, links >= 2)
				p.Count("sessions", 1)
				p.Count("dispatcher_goroutines", int64(links))
				p.Count("out_of_phase_injections", int64(injected))
				if idx%19 == 0 {
					p.Sample(map[string]interface{}{"scheme": sch.Name, "scenario": sc, "repetition": r, "dispatcher_goroutines": links, "out_of_phase_injections": injected})
				}
			}
		}
	}
}

// runC20straggler: directly wired key generation, one dispatcher goroutine per link; party 1's context ends after D (5..20 ms)
// while the j-th message of party 3 to party 1 (its share, its commitment or its key) is held back and handed over D +- 2 ms
// after the start, i.e. right around the moment party 1 gives up. Everybody is honest; only a timer and a slow link are involved.
func runC20straggler(sch scheme, rep int, rng *rand.Rand) (int, int) {
	ids := []uint16{1, 2, 3}
	kgs := map[uint16]tss.KeyGenerator{}
	type lm struct {
		data  []byte
		bcast bool
	}
	links := map[[2]uint16]chan lm{}
	for _, a := range ids {
		for _, b := range ids {
			if a != b {
				links[[2]uint16{a, b}] = make(chan lm, 64)
			}
		}
	}
	stop := make(chan struct{})
	D := time.Duration(5+rng.Intn(16)) * time.Millisecond
	late := D + time.Duration(rng.Intn(4000)-2000)*time.Microsecond
	j := rep % 3
	start := time.Now()
	var lw sync.WaitGroup
	held := int32(0)
	for k, ch := range links {
		k, ch := k, ch
		lw.Add(1)
		go func() {
			defer lw.Done()
			idx := 0
			for {
				select {
				case <-stop:
					return
				case m := <-ch:
					if k == [2]uint16{3, 1} && idx == j {
						if w := late - time.Since(start); w > 0 {
							time.Sleep(w)
						}
						atomic.AddInt32(&held, 1)
					}
					idx++
					kgs[k[1]].OnMsg(m.data, k[0], m.bcast)
				}
			}
		}()
	}
	for _, p := range ids {
		p := p
		kg := sch.newKG(p)
		kgs[p] = kg
		kg.Init(append([]uint16{}, ids...), 2, func(msg []byte, bcast bool, to uint16) {
			cp := append([]byte{}, msg...)
			if bcast {
				for _, d := range ids {
					if d != p {
						select {
						case links[[2]uint16{p, d}] <- lm{cp, true}:
						default:
						}
					}
				}
				return
			}
			select {
			case links[[2]uint16{p, to}] <- lm{cp, false}:
			default:
			}
		})
	}
	var wg sync.WaitGroup
	for _, p := range ids {
		p := p
		d := D + 40*time.Millisecond
		if p == 1 {
			d = D
		}
		wg.Add(1)
		go func() {
			defer wg.Done()
			ctx, cancel := context.WithTimeout(context.Background(), d)
			defer cancel()
			kgs[p].KeyGen(ctx)
		}()
	}
	wg.Wait()
	time.Sleep(3 * time.Millisecond)
	close(stop)
	lw.Wait()
	return len(links), int(atomic.LoadInt32(&held))
}

func runC20crypto(sch scheme, sc string, rep int, rng *rand.Rand) (int, int) {
	if sc == "deadline-with-straggler" {
		return runC20straggler(sch, rep, rng)
	}
	n := 3
	ids := []uint16{1, 2, 3}
	m := map[uint16]uint16{1: 1, 2: 2, 3: 3}
	silent := sc == "honest-silent"
	c := cluster.New(cluster.Config{Map: m, Silent: silent, Threshold: 1, FastBoxClock: 150 * time.Microsecond,
		KGF: func(node uint16) tss.KeyGenerator { return sch.newKG(node) },
		SF:  func(node uint16) tss.Signer { return sch.newSigner(node) }})
	c.Net.Jitter = jitterC(rng.Int63())
	c.Net.StartConcurrent()
	defer c.Net.Stop()
	var wg sync.WaitGroup
	delays := map[uint16]time.Duration{}
	for _, u := range ids {
		delays[u] = time.Duration(int(u)*int(u)*(1+rng.Intn(3))) * 300 * time.Microsecond
	}
	keygen := func(cx context.Context) {
		if silent {
			c.SetPick(tss.DkgTopicName, ids)
		}
		for _, u := range ids {
			u := u
			wg.Add(1)
			go func() {
				defer wg.Done()
				time.Sleep(delays[u])
				c.Schemes[u].KeyGen(cx, n, 2)
			}()
		}
		wg.Wait()
	}
	injected := int32(0)
	if sc == "sign-with-out-of-phase-key-messages" {
		// a key generation whose broadcast-class transmissions (commitments, public keys) are captured per node; then nodes 1 and 2
		// sign. The first of them to have registered the handlers of its signing session is held right there (verif point), the
		// captured key-generation messages of the OTHER signer are delivered to it on the signing topic (out-of-phase traffic of a
		// misbehaving signer; with two signers a broadcast is handed over on receipt), and it is released without waiting for them.
		var mu sync.Mutex
		captured := map[uint16][][]byte{}
		for _, u := range ids {
			u := u
			c.Net.SetInterceptor(u, func(nw *simnet.Net, src uint16, typ uint8, topic, data []byte, dsts []uint16) []simnet.Outgoing {
				if typ == uint8(tss.MsgTypeMPC) && len(dsts) == 2 && len(data) > 30 {
					mu.Lock()
					captured[u] = append(captured[u], append([]byte{}, data...))
					mu.Unlock()
				}
				var o []simnet.Outgoing
				for _, d := range dsts {
					o = append(o, simnet.Outgoing{Dst: d, Type: typ, Topic: topic, Data: data})
				}
				return o
			})
		}
		outs := map[uint16][]byte{}
		c1, cn1 := context.WithTimeout(context.Background(), 6*time.Second)
		for _, u := range ids {
			u := u
			wg.Add(1)
			go func() {
				defer wg.Done()
				out, err := c.Schemes[u].KeyGen(c1, n, 2)
				if err == nil {
					mu.Lock()
					outs[u] = out
					mu.Unlock()
				}
			}()
		}
		wg.Wait()
		cn1()
		if len(outs) < 3 {
			return c.Net.LinkCount(), 0
		}
		for _, u := range ids {
			c.Schemes[u].SetStoredData(outs[u])
		}
		var parked int32
		release := make(chan struct{})
		threshold.SetVerifHook(func(pt string) {
			if pt == "sign.handlersRegistered" && atomic.CompareAndSwapInt32(&parked, 0, 1) {
				<-release
			}
		})
		defer threshold.SetVerifHook(func(string) {})
		topic := fmt.Sprintf("c20-sign-%d", rep)
		th := sha256.Sum256([]byte(topic))
		c2, cn2 := context.WithTimeout(context.Background(), 600*time.Millisecond)
		for _, u := range []uint16{1, 2} {
			u := u
			wg.Add(1)
			go func() {
				defer wg.Done()
				c.Schemes[u].Sign(c2, []byte("request-or-digest-0123456789abcdef"), topic)
			}()
		}
		deadline := time.Now().Add(400 * time.Millisecond)
		for atomic.LoadInt32(&parked) == 0 && time.Now().Before(deadline) {
			time.Sleep(100 * time.Microsecond)
		}
		if atomic.LoadInt32(&parked) == 1 {
			mu.Lock()
			for _, pr := range [][2]uint16{{1, 2}, {2, 1}} {
				for _, msg := range captured[pr[0]] {
					c.Net.Inject(pr[0], simnet.Outgoing{Dst: pr[1], Type: uint8(tss.MsgTypeMPC), Topic: th[:], Data: msg, Tag: "out-of-phase"})
					atomic.AddInt32(&injected, 1)
				}
			}
			mu.Unlock()
			time.Sleep(3 * time.Millisecond)
		}
		close(release)
		wg.Wait()
		cn2()
		time.Sleep(time.Millisecond)
		return c.Net.LinkCount(), int(atomic.LoadInt32(&injected))
	}
	if sc == "out-of-phase" {
		// session 1: honest, to capture node 3's broadcast-class transmissions (everything it sends to both peers at once)
		var mu sync.Mutex
		var old [][]byte
		var oldTopic []byte
		c.Net.SetInterceptor(3, func(nw *simnet.Net, src uint16, typ uint8, topic, data []byte, dsts []uint16) []simnet.Outgoing {
			if typ == uint8(tss.MsgTypeMPC) && len(dsts) == 2 && len(data) > 40 {
				mu.Lock()
				old = append(old, append([]byte{}, data...))
				oldTopic = append([]byte{}, topic...)
				mu.Unlock()
			}
			var o []simnet.Outgoing
			for _, d := range dsts {
				o = append(o, simnet.Outgoing{Dst: d, Type: typ, Topic: topic, Data: data})
			}
			return o
		})
		c1, cn1 := context.WithTimeout(context.Background(), 5*time.Second)
		keygen(c1)
		cn1()
		time.Sleep(2 * time.Millisecond)
		// session 2: node 3 misbehaves: behind each of its protocol transmissions it re-sends old broadcast-class messages
		mu.Lock()
		replay := append([][]byte{}, old...)
		tp := oldTopic
		mu.Unlock()
		seeds := rng.Int63()
		var k uint64
		c.Net.SetInterceptor(3, func(nw *simnet.Net, src uint16, typ uint8, topic, data []byte, dsts []uint16) []simnet.Outgoing {
			var o []simnet.Outgoing
			for _, d := range dsts {
				o = append(o, simnet.Outgoing{Dst: d, Type: typ, Topic: topic, Data: data})
				if rep%3 == 0 {
					o = append(o, simnet.Outgoing{Dst: d, Type: typ, Topic: topic, Data: data, Tag: "dup"})
				}
			}
			if typ == uint8(tss.MsgTypeMPC) && len(replay) > 0 {
				x := atomic.AddUint64(&k, 1)
				msg := replay[int(x+uint64(seeds))%len(replay)]
				delay := time.Duration((x*2654435761+uint64(seeds))%200) * time.Microsecond
				go func() {
					time.Sleep(delay)
					for _, d := range []uint16{1, 2} {
						nw.Inject(3, simnet.Outgoing{Dst: d, Type: typ, Topic: tp, Data: msg, Tag: "out-of-phase"})
						atomic.AddInt32(&injected, 1)
					}
				}()
			}
			return o
		})
		c2, cn2 := context.WithTimeout(context.Background(), 1500*time.Millisecond)
		keygen(c2)
		cn2()
	} else {
		cx, cn := context.WithTimeout(context.Background(), 8*time.Second)
		keygen(cx)
		cn()
	}
	time.Sleep(time.Millisecond)
	return c.Net.LinkCount(), int(atomic.LoadInt32(&injected))
}

var _ = common.Nolog{}
