package main

// C09 — an adaptive requester outside the package. The perturbation catalogue alters finished objects; a statement component
// that the verifier's challenge does not depend on cannot be found that way, because altering it afterwards also breaks the
// response equations. A malicious requester, however, builds the request itself: it plants an offset in a proof commitment
// BEFORE the challenge is computed and moves the statement component AFTER it, or simulates the proof backwards. Each forgery
// below is accepted exactly if the challenge does not bind the component it targets, and the requests differ from an honest
// one in that component, so on code whose challenge binds everything they must all be rejected.
//
// The prover is re-implemented here from the public parameters (ps.Setup(...).Bytes()) and the exported wire types. Its
// format self-check: with no offset planted the externally built request must be ACCEPTED by the real signer.

import (
	"crypto/sha256"
	"encoding/asn1"
	"math/big"
	mrand "math/rand"

	math "github.com/IBM/mathlib"

	"github.com/IBM/TSS/mpc/ps"
)

type psParams struct {
	g0, g *math.G1
	gs    []*math.G1
}

func psPublicParams(L int) (*psParams, bool) {
	pp := ps.Setup(curve, L)
	var raw ps.RawPP
	if _, err := asn1.Unmarshal(pp.Bytes(), &raw); err != nil || len(raw.Data) < 4 {
		return nil, false
	}
	out := &psParams{}
	var err error
	if out.g0, err = curve.NewG1FromBytes(raw.Data[1]); err != nil {
		return nil, false
	}
	if out.g, err = curve.NewG1FromBytes(raw.Data[2]); err != nil {
		return nil, false
	}
	var gs ps.XYs
	if _, err := asn1.Unmarshal(raw.Data[3], &gs); err != nil || len(gs.Ys) != L+1 {
		return nil, false
	}
	for _, b := range gs.Ys {
		g, err := curve.NewG1FromBytes(b)
		if err != nil {
			return nil, false
		}
		out.gs = append(out.gs, g)
	}
	return out, true
}

func zrInv(z *math.Zr) *math.Zr {
	q := new(big.Int).SetBytes(curve.GroupOrder.Bytes())
	v := new(big.Int).SetBytes(z.Bytes())
	v.ModInverse(v, q)
	return curve.NewZrFromBytes(v.Bytes())
}

func zadd(a, b *math.Zr) *math.Zr { return curve.ModAdd(a, b, curve.GroupOrder) }
func zsub(a, b *math.Zr) *math.Zr { return curve.ModSub(a, b, curve.GroupOrder) }
func zmul(a, b *math.Zr) *math.Zr { return curve.ModMul(a, b, curve.GroupOrder) }

func g1sum(ps ...*math.G1) *math.G1 {
	out := ps[0].Copy()
	for _, p := range ps[1:] {
		out.Add(p)
	}
	return out
}

// externalRequest builds a signing request for L attributes outside the package.
// forgery: "" (honest);
// "plant-b" / "plant-a": offset planted in d_j / f_j, then b_j / a_j moved after the challenge (accepted iff b_j / a_j is not bound);
// "solve-d" / "solve-f" / "solve-s": the statement is false from the start (B[j] or A[j] hides another value than committed), the
// challenge is computed over a decoy for the one proof commitment named, which is solved for afterwards (accepted iff it is not bound);
// "shift-pair": B[j] and B[j+1] hide m_j+delta and m_{j+1}-delta, everything else honest (accepted iff the per-component ciphertext
// equations are only checked in aggregate).
//
// skip names a component class that this prover leaves out of its challenge ("" = none). The self-check tries "" first; if only
// a prover that skips a class is accepted by the real signer, the real challenge does not bind that class, and the forgeries
// (computed with the same challenge function) demonstrate it with an accepted request whose statement is false.
// "x>y" = the per-index class x is replaced by the value of class y (y absorbed twice).
var c09oracleVariants = []string{"", "b", "a", "d", "f", "s", "cm", "u", "h", "b>a", "b>d", "b>f", "a>b", "a>d", "a>f", "d>a", "d>b", "d>f", "f>a", "f>b", "f>d"}

func externalRequest(L int, rng *mrand.Rand, forgery string, j int, skip string) ([]byte, bool) {
	pp, ok := psPublicParams(L)
	if !ok {
		return nil, false
	}
	rz := func() *math.Zr {
		b := make([]byte, 32)
		rng.Read(b)
		return curve.HashToZr(b)
	}
	n := L + 1
	rcm, zk := rz(), rz()
	u := pp.g.Mul(zk)
	m := make([]*math.Zr, n)
	cm0 := pp.g0.Mul(rcm)
	for i := 0; i < L; i++ {
		m[i] = rz()
		cm0.Add(pp.gs[i].Mul(m[i]))
	}
	hs := sha256.Sum256(cm0.Bytes())
	mPrime := curve.HashToZr(hs[:])
	m[L] = mPrime
	cm := g1sum(cm0, pp.gs[L].Mul(mPrime))
	h := curve.HashToG1(cm.Bytes())
	r := make([]*math.Zr, n)
	a, b := make([]*math.G1, n), make([]*math.G1, n)
	delta := rz()
	enc := append([]*math.Zr{}, m...) // what the ciphertexts hide
	if forgery == "solve-d" || forgery == "solve-s" {
		enc[j] = zadd(m[j], delta)
	}
	if forgery == "shift-pair" {
		// the ciphertexts hide a vector in which a shift moves from component j to the next one: the SUM of the hidden values is the
		// sum of the committed ones. The proof is computed with the responses for the committed values; a verifier that checks the
		// ciphertext equations only in aggregate (one product instead of one equation per component) accepts it.
		enc[j] = zadd(m[j], delta)
		enc[(j+1)%n] = zsub(m[(j+1)%n], delta)
	}
	for i := 0; i < n; i++ {
		r[i] = rz()
		ri := r[i]
		if forgery == "solve-f" && i == j {
			ri = zadd(r[i], delta)
		}
		a[i] = pp.g.Mul(ri)
		b[i] = g1sum(h.Mul(enc[i]), u.Mul(r[i]))
	}
	al, be := make([]*math.Zr, n), make([]*math.Zr, n)
	ga := rz()
	d, f := make([]*math.G1, n), make([]*math.G1, n)
	s := pp.g0.Mul(ga)
	for i := 0; i < n; i++ {
		al[i], be[i] = rz(), rz()
		s.Add(pp.gs[i].Mul(be[i]))
		bi, ai := be[i], al[i]
		if forgery == "plant-b" && i == j {
			bi = zsub(be[i], delta) // d_j = h^{beta_j - delta} u^{alpha_j}
		}
		d[i] = g1sum(h.Mul(bi), u.Mul(al[i]))
		if forgery == "plant-a" && i == j {
			ai = zsub(al[i], delta) // f_j = g^{alpha_j - delta}
		}
		f[i] = pp.g.Mul(ai)
	}
	// the challenge as the verifier computes it (over whatever is on the table at this moment)
	hh := sha256.New()
	w := func(class string, p *math.G1) {
		if class != skip {
			hh.Write(p.Bytes())
		}
	}
	for i := 0; i < n; i++ {
		per := map[string]*math.G1{"d": d[i], "f": f[i], "a": a[i], "b": b[i]}
		for _, class := range []string{"d", "f", "a", "b"} {
			if len(skip) == 3 && skip[1] == '>' && skip[:1] == class {
				hh.Write(per[skip[2:]].Bytes())
				continue
			}
			w(class, per[class])
		}
	}
	w("s", s)
	w("cm", cm)
	w("g", pp.g)
	w("g0", pp.g0)
	w("h", h)
	w("u", u)
	e := curve.HashToZr(hh.Sum(nil))
	z := zadd(ga, zmul(e, rcm))
	x, y := make([]*math.Zr, n), make([]*math.Zr, n)
	for i := 0; i < n; i++ {
		x[i] = zadd(al[i], zmul(e, r[i]))
		y[i] = zadd(be[i], zmul(e, m[i]))
	}
	switch forgery {
	case "plant-b":
		// b_j = h^{m_j + delta/e} u^{r_j}: the ciphertext now hides another value than the one committed to
		b[j] = g1sum(h.Mul(zadd(m[j], zmul(delta, zrInv(e)))), u.Mul(r[j]))
	case "plant-a":
		a[j] = pp.g.Mul(zadd(r[j], zmul(delta, zrInv(e))))
	case "solve-d":
		// responses for the committed value; d_j = u^{x_j} h^{y_j} b_j^{-e}
		d[j] = g1sum(u.Mul(x[j]), h.Mul(y[j]), b[j].Mul(curve.ModNeg(e, curve.GroupOrder)))
	case "solve-f":
		f[j] = g1sum(pp.g.Mul(x[j]), a[j].Mul(curve.ModNeg(e, curve.GroupOrder)))
	case "solve-s":
		// responses for the encrypted value (the ciphertext equations hold); s = g0^z prod gs_i^{y_i} cm^{-e}
		y[j] = zadd(be[j], zmul(e, enc[j]))
		s = g1sum(pp.g0.Mul(z), cm.Mul(curve.ModNeg(e, curve.GroupOrder)))
		for i := 0; i < n; i++ {
			s.Add(pp.gs[i].Mul(y[i]))
		}
	}
	pr := ps.RawBlindCorrectProof{S: s.Bytes(), Z: z.Bytes()}
	req := ps.RawBlindSignature{CM: cm0.Bytes(), MPrime: mPrime.Bytes(), U: u.Bytes()}
	for i := 0; i < n; i++ {
		pr.X = append(pr.X, x[i].Bytes())
		pr.Y = append(pr.Y, y[i].Bytes())
		pr.D = append(pr.D, d[i].Bytes())
		pr.F = append(pr.F, f[i].Bytes())
		req.A = append(req.A, a[i].Bytes())
		req.B = append(req.B, b[i].Bytes())
	}
	var err error
	if req.CorrectFormProof, err = asn1.Marshal(pr); err != nil {
		return nil, false
	}
	out, err := asn1.Marshal(req)
	return out, err == nil
}
