package main

// C10 — nothing received can crash or wedge a node (built-in schemes): DKG message handlers during a live key
// generation, the signing-request entry point, verifiers, prover, stored data.

import (
	"context"
	"encoding/asn1"
	"fmt"
	mrand "math/rand"
	"runtime"
	"strings"
	"time"

	"github.com/IBM/TSS/mpc/bls"
	"github.com/IBM/TSS/mpc/ps"
	tss "github.com/IBM/TSS/types"

	"verifharness/common"
	"verifharness/fuzz"
)

// guarded calls f and reports a panic as (site, message).
func guarded(f func()) (site, msg string) {
	defer func() {
		if x := recover(); x != nil {
			msg = fmt.Sprint(x)
			pcs := make([]uintptr, 32)
			n := runtime.Callers(3, pcs)
			fr := runtime.CallersFrames(pcs[:n])
			for {
				f, more := fr.Next()
				if !strings.HasPrefix(f.Function, "runtime.") && !strings.Contains(f.Function, "verifharness") && !strings.HasPrefix(f.Function, "main.") {
					site = f.Function
					break
				}
				if !more {
					break
				}
			}
			if site == "" {
				site = "unknown"
			}
		}
	}()
	f()
	return "", ""
}

type c10target struct {
	name string
	run  func(e common.Env, p *common.Part, rng *mrand.Rand) int
}

func report(p *common.Part, target, site, msg string, input []byte) {
	if site == "" {
		return
	}
	m := msg
	if len(m) > 120 {
		m = m[:120]
	}
	p.Violate("panic/"+site, fmt.Sprintf("%s: hostile input made %s panic: %s", target, site, m), map[string]interface{}{"target": target, "input_hex": fmt.Sprintf("%x", input[:min(len(input), 400)]), "input_len": len(input)})
}

func allMutations(valid []byte, skip int, rng *mrand.Rand, budget int) [][]byte {
	out := fuzz.Basic(valid, 48, rng, budget)
	out = append(out, fuzz.Nested(valid, skip, rng, budget)...)
	return out
}

// dkgCorpus runs an honest directly wired key generation and returns one message of every (round, class) per scheme.
func dkgCorpus(sch scheme, rng *mrand.Rand) ([][]byte, map[uint16][]byte) {
	ids := []uint16{1, 2, 3}
	d := newDrun(sch, ids, 2, rng)
	seen := map[string]bool{}
	var corpus [][]byte
	d.filter = func(m dmsg, seq, g int) []dmsg {
		r, bc, _ := d.kgs[m.to].ClassifyMsg(m.data)
		k := fmt.Sprintf("%d/%v", r, bc)
		if !seen[k] {
			seen[k] = true
			corpus = append(corpus, append([]byte{}, m.data...))
		}
		return []dmsg{m}
	}
	ctx, cancel := context.WithTimeout(context.Background(), 60*time.Second)
	d.run(ctx, cancel, ids, 60*time.Second)
	return corpus, d.outs
}

func c10targets() []c10target {
	var ts []c10target
	for _, sch := range []scheme{{Name: "bls"}, {Name: "ps", MsgLen: 2}} {
		sch := sch
		ts = append(ts, c10target{sch.Name + " ClassifyMsg+OnMsg during a live KeyGen", func(e common.Env, p *common.Part, rng *mrand.Rand) int {
			corpus, _ := dkgCorpus(sch, rng)
			calls := 0
			for _, valid := range corpus {
				muts := allMutations(valid, 1, rng, e.Pick(500, 0))
				for off := 0; off < len(muts); off += 150 {
					// a fresh party that runs KeyGen and waits; hostile messages arrive from the two other session members
					kg := sch.newKG(1)
					kg.Init([]uint16{1, 2, 3}, 2, func([]byte, bool, uint16) {})
					ctx, cancel := context.WithCancel(context.Background())
					ret := make(chan struct{})
					go func() {
						defer close(ret)
						site, msg := guarded(func() { kg.KeyGen(ctx) })
						report(p, sch.Name+" KeyGen with hostile peers", site, msg, nil)
					}()
					time.Sleep(200 * time.Microsecond)
					for _, m := range muts[off:min(off+150, len(muts))] {
						for _, from := range []uint16{2, 3} {
							m := m
							site, msg := guarded(func() {
								if _, bc, err := kg.ClassifyMsg(m); err == nil {
									kg.OnMsg(append([]byte{}, m...), from, bc)
								}
							})
							report(p, sch.Name+" ClassifyMsg/OnMsg", site, msg, m)
							calls++
						}
					}
					cancel()
					select {
					case <-ret:
					case <-time.After(20 * time.Second):
						p.Violate("hang/"+sch.Name+".KeyGen-after-hostile-input", sch.Name+": KeyGen did not return 20 s after its context ended (hostile messages from session members before)", nil)
					}
				}
			}
			return calls
		}})
		ts = append(ts, c10target{sch.Name + " SetShareData + ThresholdPK + Sign with mutated stored data", func(e common.Env, p *common.Part, rng *mrand.Rand) int {
			var stored map[uint16][]byte
			var parties []uint16
			if sch.Name == "bls" {
				stored, parties = dealBLS(3, 2)
			} else {
				stored, parties, _ = dealPS(3, 2, sch.MsgLen)
			}
			calls := 0
			muts := allMutations(stored[1], 0, rng, e.Pick(700, 0))
			// asn.1 edits inside the embedded key blobs as well
			var sd storedData
			if _, err := asn1.Unmarshal(stored[1], &sd); err == nil {
				for _, inner := range fuzz.DER(sd.Sk, rng, 150) {
					x := sd
					x.Sk = inner
					b, _ := asn1.Marshal(x)
					muts = append(muts, b)
				}
				for _, inner := range fuzz.DER(sd.PublicKeys[0], rng, 150) {
					x := sd
					x.PublicKeys = append([][]byte{inner}, sd.PublicKeys[1:]...)
					b, _ := asn1.Marshal(x)
					muts = append(muts, b)
				}
				x := sd
				x.PublicKeys = sd.PublicKeys[:1]
				b, _ := asn1.Marshal(x)
				muts = append(muts, b)
			}
			var req []byte
			if sch.Name == "ps" {
				tpk, _ := psThresholdPK(parties, 2, sch.MsgLen, stored[1], 1)
				if sess, err := newPSSession(parties, sch.MsgLen, tpk, [][]byte{[]byte("a"), []byte("b")}); err == nil {
					req = sess.request
				}
			} else {
				req = []byte("digest-0123456789abcdef0123456789")
			}
			for _, m := range muts {
				m := m
				site, msg := guarded(func() {
					sg := sch.newSigner(1)
					sg.Init(append([]uint16{}, parties...), 2, nil)
					if err := sg.SetShareData(m); err != nil {
						return
					}
					sg.ThresholdPK()
					sg.Sign(context.Background(), req)
				})
				report(p, sch.Name+" SetShareData/ThresholdPK/Sign", site, msg, m)
				calls++
			}
			return calls
		}})
	}
	ts = append(ts, c10target{"ps TPS.Sign with mutated signing requests", func(e common.Env, p *common.Part, rng *mrand.Rand) int {
		L := 2
		stored, parties, err := dealPS(3, 2, L)
		if err != nil {
			return 0
		}
		tpk, _ := psThresholdPK(parties, 2, L, stored[1], 1)
		sess, err := newPSSession(parties, L, tpk, [][]byte{[]byte("a"), []byte("b")})
		if err != nil {
			return 0
		}
		sg, _ := (scheme{Name: "ps", MsgLen: L}).signerFrom(1, parties, 2, stored[1])
		muts := allMutations(sess.request, 0, rng, e.Pick(900, 0))
		// edits inside the embedded proof
		var r ps.RawBlindSignature
		if _, err := asn1.Unmarshal(sess.request, &r); err == nil {
			for _, inner := range fuzz.DER(r.CorrectFormProof, rng, e.Pick(400, 0)) {
				x := r
				x.CorrectFormProof = inner
				b, _ := asn1.Marshal(x)
				muts = append(muts, b)
			}
			// coordinated edits: every non-empty subset of the six vectors {A, B, proof X, Y, D, F} shortened by 1, by 2, to nothing,
			// or lengthened by one (a guard that compares the vectors with each other instead of with the expected length is
			// satisfied by such a request)
			var pr ps.RawBlindCorrectProof
			if _, err := asn1.Unmarshal(r.CorrectFormProof, &pr); err == nil {
				resize := func(v [][]byte, d int) [][]byte {
					switch {
					case d == 99:
						return nil
					case d > 0:
						return append(append([][]byte{}, v...), v[0])
					default:
						return append([][]byte{}, v[:max(0, len(v)+d)]...)
					}
				}
				for mask := 1; mask < 64; mask++ {
					for _, d := range []int{-1, -2, 99, 1} {
						x, y := r, pr
						vs := []*[][]byte{&x.A, &x.B, &y.X, &y.Y, &y.D, &y.F}
						for bit, v := range vs {
							if mask&(1<<bit) != 0 {
								*v = resize(*v, d)
							}
						}
						x.CorrectFormProof, _ = asn1.Marshal(y)
						b, _ := asn1.Marshal(x)
						muts = append(muts, b)
					}
				}
			}
			// fewer / more ciphertext components, invalid points
			x := r
			x.A = r.A[:1]
			b, _ := asn1.Marshal(x)
			muts = append(muts, b)
			x = r
			x.B = append(append([][]byte{}, r.B...), r.B[0])
			b, _ = asn1.Marshal(x)
			muts = append(muts, b)
			x = r
			x.A = append([][]byte{[]byte("not a point")}, r.A[1:]...)
			b, _ = asn1.Marshal(x)
			muts = append(muts, b)
		}
		calls := 0
		for _, m := range muts {
			m := m
			site, msg := guarded(func() { sg.Sign(context.Background(), m) })
			report(p, "TPS.Sign", site, msg, m)
			calls++
		}
		return calls
	}})
	ts = append(ts, c10target{"bls.Verifier Init / AggregateSignatures / Verify with mutated inputs", func(e common.Env, p *common.Part, rng *mrand.Rand) int {
		stored, parties := dealBLS(3, 2)
		sg, _ := (scheme{Name: "bls"}).signerFrom(1, parties, 2, stored[1])
		pp, _ := sg.ThresholdPK()
		digest := []byte("digest-0123456789abcdef0123456789")
		sig1 := blsPartial(parties, 2, stored, 1, digest)
		sig2 := blsPartial(parties, 2, stored, 2, digest)
		calls := 0
		for _, m := range allMutations(pp, 0, rng, e.Pick(700, 0)) {
			m := m
			site, msg := guarded(func() {
				var v bls.Verifier
				if v.Init(m) != nil {
					return
				}
				// aggregation with signers that the (mutated) parameters do not name is documented local misuse: only Verify
				v.Verify(digest, sig1)
			})
			report(p, "bls.Verifier.Init", site, msg, m)
			calls++
		}
		var v bls.Verifier
		v.Init(pp)
		for _, m := range fuzz.Basic(sig1, 48, rng, e.Pick(300, 0)) {
			m := m
			site, msg := guarded(func() {
				v.Verify(digest, m)
				if agg, err := v.AggregateSignatures([][]byte{m, sig2}, []uint16{1, 2}); err == nil {
					v.Verify(digest, agg)
				}
			})
			report(p, "bls.Verifier.Verify/AggregateSignatures", site, msg, m)
			calls++
		}
		return calls
	}})
	ts = append(ts, c10target{"ps Verifier / Prover with mutated public parameters, signatures and proofs", func(e common.Env, p *common.Part, rng *mrand.Rand) int {
		L := 2
		o, err := makePSObjects(3, 2, L, rng, "fz")
		if err != nil {
			return 0
		}
		proof := o.proof(o.signers, o.signers)
		calls := 0
		for _, m := range allMutations(o.tpk, 0, rng, e.Pick(500, 0)) {
			m := m
			site, msg := guarded(func() {
				var v ps.Verifier
				if v.Init(curve, L, m) == nil {
					v.Verify(proof)
				}
				pr := &ps.Prover{Logger: common.Nolog{}}
				if pr.Init(curve, L, m, append([]uint16{}, o.parties...)) == nil {
					pr.UnBlind(o.parties[0], o.sigs[o.parties[0]], &o.sess.secret)
				}
			})
			report(p, "ps.Verifier.Init/Prover.Init", site, msg, m)
			calls++
		}
		muts := allMutations(proof, 0, rng, e.Pick(700, 0))
		var rp ps.RawSigPok
		if _, err := asn1.Unmarshal(proof, &rp); err == nil && len(rp.Data) == 5 {
			for _, inner := range fuzz.DER(rp.Data[0], rng, e.Pick(300, 0)) {
				x := ps.RawSigPok{Data: append([][]byte{inner}, rp.Data[1:]...)}
				b, _ := asn1.Marshal(x)
				muts = append(muts, b)
			}
			for k := 0; k <= 6; k++ {
				var x ps.RawSigPok
				for i := 0; i < k; i++ {
					x.Data = append(x.Data, rp.Data[i%5])
				}
				b, _ := asn1.Marshal(x)
				muts = append(muts, b)
			}
		}
		var v ps.Verifier
		v.Init(curve, L, o.tpk)
		for _, m := range muts {
			m := m
			site, msg := guarded(func() { v.Verify(m) })
			report(p, "ps.Verifier.Verify", site, msg, m)
			calls++
		}
		for _, m := range allMutations(o.sigs[o.parties[0]], 0, rng, e.Pick(300, 0)) {
			m := m
			site, msg := guarded(func() { o.sess.prover.UnBlind(o.parties[0], m, &o.sess.secret) })
			report(p, "ps.Prover.UnBlind", site, msg, m)
			calls++
		}
		return calls
	}})
	return ts
}

func unitC10crypto(e common.Env, p *common.Part) {
	p.Rule = "genuine objects of this build (DKG messages of every round and class captured from an honest run, stored data, signing requests, partial signatures, public parameters, proofs), mutated: prefixes, extensions, header bytes, bit flips, asn.1-aware edits (element length +-1, dropped, duplicated, emptied, shortened, garbage; also inside embedded blobs; every subset of a signing request's six vectors resized together) and fed to: BLS/PS ClassifyMsg+OnMsg of a party that runs KeyGen (sources = the other session members), SetShareData+ThresholdPK+Sign, TPS.Sign, bls.Verifier.Init/AggregateSignatures/Verify, ps.Verifier.Init/Verify, ps.Prover.Init/UnBlind; oracle: no panic (caught per call, so one run lists every crash site), KeyGen returns after its context ends; distinct key = (entry point, input hash); non-trivial always"
	p.Assumptions = append(p.Assumptions, "documented API-contract panics on local misuse (AggregateSignatures with an unknown signer or mismatching counts, Prover.Blind with the wrong length, ThresholdPK before Init/SetShareData) are not input from the network or an untrusted client and are not exercised")
	for i, t := range c10targets() {
		if !e.Mine(i) {
			continue
		}
		p.Begin(t.name)
		calls := t.run(e, p, e.Rng("c10crypto", i))
		p.Count("calls", int64(calls))
		for k := 0; k < calls; k++ {
			p.Case(fmt.Sprintf("%s#%d", t.name, k), true)
		}
		p.Sample(map[string]interface{}{"entry_point": t.name, "hostile_inputs": calls})
	}
	_ = tss.MsgTypeMPC
}
