package main

// Thin wrappers over the public API of the two built-in schemes (mpc/bls, mpc/ps): create a key
// generator, read the public material out of the stored data, sign jointly with a subset and verify.

import (
	"bytes"
	"context"
	"crypto/sha256"
	"encoding/asn1"
	"fmt"

	"github.com/IBM/TSS/mpc/bls"
	"github.com/IBM/TSS/mpc/ps"
	tss "github.com/IBM/TSS/types"
	math "github.com/IBM/mathlib"

	"verifharness/common"
)

var curve = math.Curves[1]

type scheme struct {
	Name   string // bls | ps
	MsgLen int    // ps only
}

func (s scheme) newKG(party uint16) tss.KeyGenerator {
	if s.Name == "bls" {
		return &bls.TBLS{Party: party, Logger: common.Nolog{}}
	}
	return &ps.TPS{Party: party, Logger: common.Nolog{}, Curve: curve, MessageLength: s.MsgLen}
}

func (s scheme) newSigner(party uint16) tss.Signer {
	if s.Name == "bls" {
		return &bls.TBLS{Party: party, Logger: common.Nolog{}}
	}
	return &ps.TPS{Party: party, Logger: common.Nolog{}, Curve: curve, MessageLength: s.MsgLen}
}

// storedData has the same shape in both schemes.
type storedData struct {
	Sk          []byte
	PublicKeys  [][]byte
	ThresholdPK []byte
}

// publicMaterial extracts what all parties must agree on from a party's stored data.
func publicMaterial(stored []byte) ([]byte, error) {
	var sd storedData
	if _, err := asn1.Unmarshal(stored, &sd); err != nil {
		return nil, err
	}
	h := sha256.New()
	h.Write(sd.ThresholdPK)
	for _, pk := range sd.PublicKeys {
		h.Write([]byte{0})
		h.Write(pk)
	}
	return h.Sum(nil), nil
}

// signer re-creates a signer only from the serialised stored data.
func (s scheme) signerFrom(party uint16, parties []uint16, t int, stored []byte) (tss.Signer, error) {
	sg := s.newSigner(party)
	sg.Init(append([]uint16{}, parties...), t, nil)
	if err := sg.SetShareData(stored); err != nil {
		return nil, err
	}
	return sg, nil
}

// jointBLS: the given signers sign digest with their stored shares; aggregate in the given order; verify under the
// threshold public key reported by `reporter`.
func jointBLS(parties []uint16, t int, stored map[uint16][]byte, signers []uint16, digest []byte, reporter uint16) error {
	s := scheme{Name: "bls"}
	var sigs [][]byte
	for _, p := range signers {
		sg, err := s.signerFrom(p, parties, t, stored[p])
		if err != nil {
			return fmt.Errorf("SetShareData(%d): %v", p, err)
		}
		sig, err := sg.Sign(context.Background(), digest)
		if err != nil {
			return fmt.Errorf("Sign(%d): %v", p, err)
		}
		sigs = append(sigs, sig)
	}
	rep, err := s.signerFrom(reporter, parties, t, stored[reporter])
	if err != nil {
		return err
	}
	pp, err := rep.ThresholdPK()
	if err != nil {
		return fmt.Errorf("ThresholdPK: %v", err)
	}
	var v bls.Verifier
	if err := v.Init(pp); err != nil {
		return fmt.Errorf("Verifier.Init: %v", err)
	}
	agg, err := v.AggregateSignatures(sigs, signers)
	if err != nil {
		return fmt.Errorf("AggregateSignatures: %v", err)
	}
	return v.Verify(digest, agg)
}

// psSession holds a blinded request and everything needed to finish it.
type psSession struct {
	prover  *ps.Prover
	secret  ps.UnblindingSecret
	request []byte
	tpk     []byte
	msgLen  int
}

func psThresholdPK(parties []uint16, t int, msgLen int, stored []byte, reporter uint16) ([]byte, error) {
	s := scheme{Name: "ps", MsgLen: msgLen}
	rep, err := s.signerFrom(reporter, parties, t, stored)
	if err != nil {
		return nil, err
	}
	return rep.ThresholdPK()
}

func newPSSession(parties []uint16, msgLen int, tpk []byte, msg [][]byte) (*psSession, error) {
	pr := &ps.Prover{Logger: common.Nolog{}}
	if err := pr.Init(curve, msgLen, tpk, append([]uint16{}, parties...)); err != nil {
		return nil, fmt.Errorf("Prover.Init: %v", err)
	}
	req, secret := pr.Blind(msg)
	return &psSession{prover: pr, secret: secret, request: req.Bytes(), tpk: tpk, msgLen: msgLen}, nil
}

// jointPS: blind request signed by each signer from its stored share, unblinded, proof built in the given order, verified.
// psSignerCache: when non-nil, jointPS keeps ONE signer object per party and lets it serve every request (long-lived signers, as a
// service would hold them) instead of re-creating it for every request.
var psSignerCache map[uint16]tss.Signer

func jointPS(parties []uint16, t int, msgLen int, stored map[uint16][]byte, signers []uint16, msg [][]byte, reporter uint16) error {
	s := scheme{Name: "ps", MsgLen: msgLen}
	tpk, err := psThresholdPK(parties, t, msgLen, stored[reporter], reporter)
	if err != nil {
		return fmt.Errorf("ThresholdPK: %v", err)
	}
	sess, err := newPSSession(parties, msgLen, tpk, msg)
	if err != nil {
		return err
	}
	var wits []ps.SignatureWitness
	for _, p := range signers {
		var sg tss.Signer
		if psSignerCache != nil && psSignerCache[p] != nil {
			sg = psSignerCache[p]
		} else {
			sg, err = s.signerFrom(p, parties, t, stored[p])
			if err != nil {
				return fmt.Errorf("SetShareData(%d): %v", p, err)
			}
			if psSignerCache != nil {
				psSignerCache[p] = sg
			}
		}
		sig, err := sg.Sign(context.Background(), sess.request)
		if err != nil {
			return fmt.Errorf("TPS.Sign(%d): %v", p, err)
		}
		w, err := sess.prover.UnBlind(p, sig, &sess.secret)
		if err != nil {
			return fmt.Errorf("UnBlind(%d): %v", p, err)
		}
		wits = append(wits, w)
	}
	proof := sess.prover.ProveKnowledgeOfSignature(&sess.secret, signers, wits)
	var v ps.Verifier
	if err := v.Init(curve, msgLen, tpk); err != nil {
		return fmt.Errorf("Verifier.Init: %v", err)
	}
	return v.Verify(proof.Bytes())
}

// subsets enumerates all subsets of `set` with at least min elements.
func subsets(set []uint16, min int) [][]uint16 {
	var out [][]uint16
	n := len(set)
	for mask := 1; mask < 1<<n; mask++ {
		var s []uint16
		for i := 0; i < n; i++ {
			if mask&(1<<i) != 0 {
				s = append(s, set[i])
			}
		}
		if len(s) >= min {
			out = append(out, s)
		}
	}
	return out
}

func sameBytes(a, b []byte) bool { return bytes.Equal(a, b) }
