package main

// C05 — a misbehaving DKG participant cannot split or poison the generated key.
// The Byzantine participant is a real backend behind a wrapper (the drun filter) that perturbs what goes in and out.

import (
	"context"
	"fmt"
	mrand "math/rand"
	"time"

	"verifharness/common"
)

type c05case struct {
	Sch      scheme
	N, T     int
	Byz      uint16
	Strategy string
	Victims  []uint16
	Which    int
}

func (c c05case) String() string {
	return fmt.Sprintf("%s n=%d t=%d byz=%d %s victims=%v scalar=%d", c.Sch.Name, c.N, c.T, c.Byz, c.Strategy, c.Victims, c.Which)
}

var c05strategies = []string{"off-polynomial-share-in", "flip-share-out", "alter-commitment", "alter-reveal", "copy-honest-key", "malformed-share-truncated", "malformed-share-fewer-elements",
	"malformed-share-garbage", "duplicate-share-changed", "duplicate-commitment-changed", "duplicate-reveal-changed", "withhold-share", "withhold-commitment", "withhold-reveal", "reveal-before-commitment", "none"}

type c05result struct {
	d        *drun
	ok       bool
	effected bool
	selfOK   bool
}

func runC05(cs c05case, rng *mrand.Rand) c05result {
	var ids []uint16
	for i := 1; i <= cs.N; i++ {
		ids = append(ids, uint16(i))
	}
	d := newDrun(cs.Sch, ids, cs.T, rng)
	res := c05result{d: d, selfOK: true}
	isVictim := map[uint16]bool{}
	for _, v := range cs.Victims {
		isVictim[v] = true
	}
	var H uint16 // an honest party whose key is copied
	for _, id := range ids {
		if id != cs.Byz {
			H = id
			break
		}
	}
	captured := map[uint8][]byte{} // H's round-2 / round-3 message
	var heldCommit []dmsg
	revealSent := false
	tweakedIn := false
	d.filter = func(m dmsg, seq, g int) []dmsg {
		r, bc, err := d.kgs[m.to].ClassifyMsg(m.data)
		if err != nil {
			return []dmsg{m}
		}
		isShare, isCommit, isReveal := r == 1 && !bc, r == 2, r == 3
		if cs.Strategy == "copy-honest-key" && m.from == H && (isCommit || isReveal) {
			if captured[r] == nil {
				captured[r] = append([]byte{}, m.data...)
				// the Byzantine party now sends the same message as its own to everybody
				for _, to := range ids {
					if to != cs.Byz {
						q := dmsg{from: cs.Byz, to: to, data: captured[r], bcast: true}
						k := [2]uint16{q.from, q.to}
						d.q[k] = append(d.q[k], q)
						res.effected = true
					}
				}
			}
			return []dmsg{m}
		}
		// incoming share of the Byzantine party
		if cs.Strategy == "off-polynomial-share-in" && m.to == cs.Byz && isShare && !tweakedIn {
			if !cs.Sch.selfCheckShare(m.data) {
				res.selfOK = false
				return []dmsg{m}
			}
			if out, ok := cs.Sch.tweakShare(m.data, cs.Which, 3); ok {
				tweakedIn, res.effected = true, true
				m.data = out
			}
			return []dmsg{m}
		}
		if m.from != cs.Byz {
			return []dmsg{m}
		}
		hit := isVictim[m.to]
		switch cs.Strategy {
		case "flip-share-out":
			if isShare && hit {
				if !cs.Sch.selfCheckShare(m.data) {
					res.selfOK = false
					return []dmsg{m}
				}
				if out, ok := cs.Sch.tweakShare(m.data, cs.Which, 7); ok {
					m.data, res.effected = out, true
				}
			}
		case "alter-commitment":
			if isCommit && hit {
				m.data, res.effected = flipByte(m.data, -1), true
			}
		case "alter-reveal":
			if isReveal && hit {
				m.data, res.effected = flipByte(m.data, -3), true
			}
		case "copy-honest-key":
			if isCommit || isReveal {
				return nil // replaced by the copies injected above
			}
		case "malformed-share-truncated":
			if isShare && hit {
				m.data, res.effected = m.data[:1+len(m.data)/3], true
			}
		case "malformed-share-fewer-elements":
			if isShare && hit {
				if out, ok := dropLastY(m.data); ok {
					m.data, res.effected = out, true
				} else {
					m.data, res.effected = m.data[:len(m.data)-1], true
				}
			}
		case "malformed-share-garbage":
			if isShare && hit {
				g := append([]byte{m.data[0]}, []byte("this is not a share at all........")...)
				m.data, res.effected = g, true
			}
		case "duplicate-share-changed":
			if isShare && hit {
				if out, ok := cs.Sch.tweakShare(m.data, cs.Which, 11); ok {
					res.effected = true
					return []dmsg{m, {from: m.from, to: m.to, data: out, bcast: m.bcast}}
				}
			}
		case "duplicate-commitment-changed":
			if isCommit && hit {
				res.effected = true
				return []dmsg{m, {from: m.from, to: m.to, data: flipByte(m.data, -1), bcast: m.bcast}}
			}
		case "duplicate-reveal-changed":
			if isReveal && hit {
				res.effected = true
				return []dmsg{m, {from: m.from, to: m.to, data: flipByte(m.data, -2), bcast: m.bcast}}
			}
		case "withhold-share":
			if isShare && hit {
				res.effected = true
				return nil
			}
		case "withhold-commitment":
			if isCommit && hit {
				res.effected = true
				return nil
			}
		case "withhold-reveal":
			if isReveal && hit {
				res.effected = true
				return nil
			}
		case "reveal-before-commitment":
			if isCommit && hit && !revealSent {
				heldCommit = append(heldCommit, m)
				return nil
			}
			if isReveal && hit {
				res.effected = true
				out := []dmsg{m}
				for _, h := range heldCommit {
					if h.to == m.to {
						out = append(out, h)
					}
				}
				return out
			}
		}
		return []dmsg{m}
	}
	ctx, cancel := context.WithTimeout(context.Background(), 60*time.Second)
	res.ok = d.run(ctx, cancel, ids, 20*time.Second)
	if cs.Strategy == "reveal-before-commitment" {
		// a held commitment must not stay held for parties that never got a reveal
		_ = heldCommit
	}
	return res
}

func c05oracle(cs c05case, r c05result, rng *mrand.Rand) (string, string) {
	d := r.d
	if len(d.panics) > 0 {
		return "panic", d.panics[0]
	}
	if !r.ok {
		return "hang", "a KeyGen call had not returned 20 s after its context ended"
	}
	honest := map[uint16]bool{}
	var completers []uint16
	for _, id := range d.parties {
		if id == cs.Byz {
			continue
		}
		honest[id] = true
		if d.errs[id] == nil {
			completers = append(completers, id)
		}
	}
	if who, bad := d.revealBeforeCommitments(honest); bad {
		return "reveal-before-commitments", fmt.Sprintf("honest party %d disclosed its public key before it held the commitments of all other participants", who)
	}
	if len(completers) >= 2 {
		if v := consistentPublicMaterial(completers, d.outs); v != "" {
			return "split-key", "honest parties completed with differing public material: " + v
		}
	}
	if len(completers) >= cs.T {
		// honest shares must jointly sign under the reported key (a few subsets of size t and the full set)
		subs := subsets(completers, cs.T)
		rng.Shuffle(len(subs), func(i, j int) { subs[i], subs[j] = subs[j], subs[i] })
		if len(subs) > 4 {
			subs = subs[:4]
		}
		for _, sub := range subs {
			var err error
			if cs.Sch.Name == "bls" {
				err = jointBLS(d.parties, cs.T, d.outs, sub, []byte("digest-for-c05-0123456789abcdef.."), completers[0])
			} else {
				msg := make([][]byte, cs.Sch.MsgLen)
				for i := range msg {
					msg[i] = []byte{byte(i), 5}
				}
				err = jointPS(d.parties, cs.T, cs.Sch.MsgLen, d.outs, sub, msg, completers[0])
			}
			if err != nil {
				return "poisoned-key", fmt.Sprintf("honest parties %v completed but the shares of %v cannot jointly sign under the reported key: %v", completers, sub, err)
			}
		}
	}
	if cs.Strategy == "none" && len(completers) != cs.N-1 {
		return "honest-run-failed", fmt.Sprintf("without any deviation only %d of %d parties completed: %v", len(completers), cs.N-1, d.errs)
	}
	return "", ""
}

func unitC05(e common.Env, p *common.Part) {
	p.Rule = "directly wired BLS and PS key generations in which one participant is a real backend behind a wrapper that perturbs what goes in and out: off-polynomial share it receives (consistent commit/reveal), flipped outgoing share (PS: x and each y_j), altered commitment / reveal, copy of an honest party's commitment and key, malformed share (truncated, fewer elements, garbage), duplicates with a changed second copy (share, commitment, reveal), withheld share / commitment / reveal, reveal delivered before the commitment; x every single victim and all honest parties as victims x (n,t) incl. t=n x PRNG delivery order; context cancelled at quiescence (all remaining KeyGens parked on their condition variable, nothing queued); oracle: honest completers report identical public material, >= t honest completers sign jointly under the reported key, no honest reveal before all commitments were received, no panic, no hang; distinct key = (scheme, n, t, Byzantine party, strategy, victims, scalar); non-trivial when the deviation actually reached a victim"
	type nt struct{ n, t int }
	nts := []nt{{3, 2}, {3, 3}, {4, 2}, {4, 3}, {4, 4}}
	if e.Thorough() {
		nts = append(nts, nt{5, 2}, nt{5, 3}, nt{5, 4}, nt{5, 5}, nt{2, 2})
	}
	var cases []c05case
	for _, sch := range []scheme{{Name: "bls"}, {Name: "ps", MsgLen: 1}, {Name: "ps", MsgLen: 2}} {
		for ni, x := range nts {
			if sch.MsgLen == 2 && !e.Thorough() && ni%2 == 0 {
				continue
			}
			byz := uint16(1 + ni%x.n)
			var honest []uint16
			for i := 1; i <= x.n; i++ {
				if uint16(i) != byz {
					honest = append(honest, uint16(i))
				}
			}
			for _, st := range c05strategies {
				whichs := []int{-1}
				if sch.Name == "ps" && (st == "flip-share-out" || st == "off-polynomial-share-in" || st == "duplicate-share-changed") {
					whichs = []int{-1, 0, sch.MsgLen} // x, first y, last y (the m' slot)
				}
				if st == "malformed-share-fewer-elements" && sch.Name == "bls" {
					continue
				}
				for _, w := range whichs {
					vsets := [][]uint16{honest, {honest[0]}, {honest[len(honest)-1]}}
					if st == "none" || st == "off-polynomial-share-in" || st == "copy-honest-key" {
						vsets = vsets[:1]
					}
					for _, vs := range vsets {
						cases = append(cases, c05case{Sch: sch, N: x.n, T: x.t, Byz: byz, Strategy: st, Victims: vs, Which: w})
					}
				}
			}
		}
	}
	p.Note("cases", len(cases))
	for i, cs := range cases {
		if !e.Mine(i) || p.ViolationCount() >= 3 {
			continue
		}
		p.Begin(cs.String())
		rng := e.Rng("c05", i)
		r := runC05(cs, rng)
		p.Case(cs.String(), r.effected)
		p.Count("runs", 1)
		if r.effected {
			p.Count("deviations_effective", 1)
		}
		if !r.selfOK {
			p.Inconcl(cs.String() + ": share layout self-check failed, share edits skipped")
			continue
		}
		honestDone := 0
		for id, err := range r.d.errs {
			if id != cs.Byz && err == nil {
				honestDone++
			}
		}
		if honestDone > 0 {
			p.Count("honest_completions_under_attack", int64(honestDone))
		}
		if sig, what := c05oracle(cs, r, rng); sig != "" {
			p.Violate(sig+"/"+cs.Sch.Name+"/"+cs.Strategy, cs.String()+": "+what, map[string]interface{}{"case": cs})
		}
		if i%41 == 0 {
			p.Sample(map[string]interface{}{"case": cs.String(), "honest_completions": honestDone, "errors": fmt.Sprint(r.d.errs)})
		}
	}
}
