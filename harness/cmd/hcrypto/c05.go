package main

// C05 — a misbehaving DKG participant cannot split or poison the generated key.
// The Byzantine participant is a real backend behind a wrapper (the drun filter) that perturbs what goes in and out.

import (
	"bytes"
	"context"
	"crypto/sha256"
	"fmt"
	mrand "math/rand"
	"strings"
	"sync"
	"sync/atomic"
	"time"

	tss "github.com/IBM/TSS/types"

	"verifharness/cluster"
	"verifharness/common"
	"verifharness/simnet"
)

type c05case struct {
	Sch      scheme
	N, T     int
	Byz      uint16
	Strategy string
	Victims  []uint16
	Which    int
}

// c05garbageKinds: byte strings that are not keys - of arbitrary sizes, and of exactly the size of a group element (all ones, all
// zeros, a pattern, a genuine element with one byte changed: full-sized but not on the curve)
func c05garbageKinds() [][]byte {
	offCurve := curve.GenG2.Bytes()
	offCurve[len(offCurve)/2] ^= 0x01
	offCurve1 := curve.GenG1.Bytes()
	offCurve1[len(offCurve1)/2] ^= 0x01
	return [][]byte{[]byte("this is certainly not the encoding of a point of the group"), {}, {0x04}, bytes.Repeat([]byte{0xff}, 192), bytes.Repeat([]byte{0xa5}, 97), bytes.Repeat([]byte{0x00}, 192),
		bytes.Repeat([]byte{0xff}, curve.G2ByteSize), bytes.Repeat([]byte{0x00}, curve.G2ByteSize), bytes.Repeat([]byte{0xa5}, curve.G2ByteSize), offCurve,
		bytes.Repeat([]byte{0xff}, curve.G1ByteSize), offCurve1}
}

func (c c05case) String() string {
	return fmt.Sprintf("%s n=%d t=%d byz=%d %s victims=%v scalar=%d", c.Sch.Name, c.N, c.T, c.Byz, c.Strategy, c.Victims, c.Which)
}

var c05strategies = []string{"off-polynomial-share-in", "flip-share-out", "alter-commitment", "alter-reveal", "copy-honest-key", "malformed-share-truncated", "malformed-share-fewer-elements",
	"malformed-share-garbage", "duplicate-share-changed", "duplicate-commitment-changed", "duplicate-reveal-changed", "withhold-share", "withhold-commitment", "withhold-reveal", "reveal-before-commitment", "reveal-mismatching-valid-key", "truncated-commitment-then-mismatching-valid-key", "second-commitment-for-another-key", "commit-to-garbage-and-reveal-it", "off-polynomial-key-committed-and-revealed-then-the-genuine-key", "shares-of-a-polynomial-of-too-high-a-degree", "none"}

type c05result struct {
	d         *drun
	ok        bool
	effected  bool
	selfOK    bool
	mustAbort map[uint16]bool // honest parties that were shown a public key that does not match the commitment they hold
	// mustDetect: honest parties that hold a commitment to, and the matching reveal of, a key that is off the common polynomial
	// (t < n): their cross-check must refuse the key generation
	mustDetect map[uint16]bool
}

func runC05(cs c05case, rng *mrand.Rand) c05result {
	var ids []uint16
	for i := 1; i <= cs.N; i++ {
		ids = append(ids, uint16(i))
	}
	d := newDrun(cs.Sch, ids, cs.T, rng)
	res := c05result{d: d, selfOK: true, mustAbort: map[uint16]bool{}, mustDetect: map[uint16]bool{}}
	isVictim := map[uint16]bool{}
	for _, v := range cs.Victims {
		isVictim[v] = true
	}
	var H uint16 // an honest party whose key is copied
	for _, id := range ids {
		if id != cs.Byz {
			H = id
			break
		}
	}
	captured := map[uint8][]byte{} // H's round-2 / round-3 message
	var genuineCommit []byte
	garbageKinds := c05garbageKinds()
	garbage := garbageKinds[(cs.Which+len(garbageKinds)+1)%len(garbageKinds)]
	var heldCommit []dmsg
	revealSent := false
	tweakedIn := false
	d.filter = func(m dmsg, seq, g int) []dmsg {
		r, bc, err := d.kgs[m.to].ClassifyMsg(m.data)
		if err != nil {
			return []dmsg{m}
		}
		isShare, isCommit, isReveal := r == 1 && !bc, r == 2, r == 3
		if cs.Strategy == "second-commitment-for-another-key" {
			// the Byzantine party's first commitment goes out unchanged; once an honest party has revealed its key, the Byzantine party
			// sends a SECOND commitment (to that honest party's key: a valid point) and then reveals that key. A commitment binds:
			// whoever holds the first one must refuse the reveal. Layout (tag byte + SHA-256 of the reveal body) self-checked on the
			// Byzantine party's own genuine pair.
			if m.from == cs.Byz && isCommit && genuineCommit == nil {
				genuineCommit = append([]byte{}, m.data...)
			}
			if m.from == cs.Byz && isReveal {
				if genuineCommit == nil || len(genuineCommit) != 33 {
					res.selfOK = false
				} else if sum := sha256.Sum256(m.data[1:]); !sameBytes(sum[:], genuineCommit[1:]) {
					res.selfOK = false
				}
				if isVictim[m.to] && res.selfOK {
					return nil // its genuine reveal is withheld from the victims
				}
				return []dmsg{m}
			}
			if m.from == H && isReveal && captured[3] == nil && genuineCommit != nil && len(genuineCommit) == 33 {
				captured[3] = append([]byte{}, m.data...)
				sum := sha256.Sum256(captured[3][1:])
				second := append([]byte{genuineCommit[0]}, sum[:]...)
				for _, to := range ids {
					if to != cs.Byz && isVictim[to] {
						for _, data := range [][]byte{second, captured[3]} {
							q := dmsg{from: cs.Byz, to: to, data: data, bcast: true}
							k := [2]uint16{q.from, q.to}
							d.q[k] = append(d.q[k], q)
						}
						res.effected = true
						res.mustAbort[to] = true
					}
				}
			}
			return []dmsg{m}
		}
		if (cs.Strategy == "reveal-mismatching-valid-key" || cs.Strategy == "truncated-commitment-then-mismatching-valid-key") && m.from == H && isReveal && captured[3] == nil {
			captured[3] = append([]byte{}, m.data...)
			// the Byzantine party (whose own commitment went out unchanged) now reveals the honest party's key as its own
			for _, to := range ids {
				if to != cs.Byz && isVictim[to] {
					q := dmsg{from: cs.Byz, to: to, data: captured[3], bcast: true}
					k := [2]uint16{q.from, q.to}
					d.q[k] = append(d.q[k], q)
					res.effected = true
					res.mustAbort[to] = true
				}
			}
			return []dmsg{m}
		}
		if cs.Strategy == "copy-honest-key" && m.from == H && (isCommit || isReveal) {
			if captured[r] == nil {
				captured[r] = append([]byte{}, m.data...)
				// the Byzantine party now sends the same message as its own to everybody
				for _, to := range ids {
					if to != cs.Byz {
						q := dmsg{from: cs.Byz, to: to, data: captured[r], bcast: true}
						k := [2]uint16{q.from, q.to}
						d.q[k] = append(d.q[k], q)
						res.effected = true
					}
				}
			}
			return []dmsg{m}
		}
		// incoming share of the Byzantine party
		if cs.Strategy == "off-polynomial-share-in" && m.to == cs.Byz && isShare && !tweakedIn {
			if !cs.Sch.selfCheckShare(m.data) {
				res.selfOK = false
				return []dmsg{m}
			}
			if out, ok := cs.Sch.tweakShare(m.data, cs.Which, 3); ok {
				tweakedIn, res.effected = true, true
				m.data = out
			}
			return []dmsg{m}
		}
		if m.from != cs.Byz {
			return []dmsg{m}
		}
		hit := isVictim[m.to]
		switch cs.Strategy {
		case "flip-share-out":
			if isShare && hit {
				if !cs.Sch.selfCheckShare(m.data) {
					res.selfOK = false
					return []dmsg{m}
				}
				if out, ok := cs.Sch.tweakShare(m.data, cs.Which, 7); ok {
					m.data, res.effected = out, true
				}
			}
		case "alter-commitment":
			if isCommit && hit {
				m.data, res.effected = flipByte(m.data, -1), true
			}
		case "alter-reveal":
			if isReveal && hit {
				m.data, res.effected = flipByte(m.data, -3), true
			}
		case "copy-honest-key":
			if isCommit || isReveal {
				return nil // replaced by the copies injected above
			}
		case "reveal-mismatching-valid-key":
			if isReveal && hit {
				return nil // replaced by the honest party's key injected above
			}
		case "truncated-commitment-then-mismatching-valid-key":
			// the commitment keeps its tag byte and 0, 1, 16 or 31 bytes of its digest; the key revealed later is another valid one
			if isCommit && hit {
				keep := []int{0, 1, 16, 31}[(cs.Which+4)%4]
				if len(m.data) > 1+keep {
					m.data, res.effected = append([]byte{}, m.data[:1+keep]...), true
				}
			}
			if isReveal && hit {
				return nil
			}
		case "commit-to-garbage-and-reveal-it":
			// layout assumed: tag byte + body, commitment body = SHA-256 of the reveal body; checked against the genuine pair below
			if isCommit {
				if genuineCommit == nil {
					genuineCommit = append([]byte{}, m.data...)
				}
				if hit {
					sum := sha256.Sum256(garbage)
					m.data = append([]byte{m.data[0]}, sum[:]...)
				}
			}
			if isReveal {
				if genuineCommit != nil && len(genuineCommit) == 33 {
					sum := sha256.Sum256(m.data[1:])
					if !sameBytes(sum[:], genuineCommit[1:]) {
						res.selfOK = false
					}
				} else {
					res.selfOK = false
				}
				if hit && res.selfOK {
					m.data, res.effected = append([]byte{m.data[0]}, garbage...), true
				}
			}
		case "malformed-share-truncated":
			if isShare && hit {
				m.data, res.effected = m.data[:1+len(m.data)/3], true
			}
		case "malformed-share-fewer-elements":
			if isShare && hit {
				if out, ok := dropLastY(m.data); ok {
					m.data, res.effected = out, true
				} else {
					m.data, res.effected = m.data[:len(m.data)-1], true
				}
			}
		case "malformed-share-garbage":
			if isShare && hit {
				g := append([]byte{m.data[0]}, []byte("this is not a share at all........")...)
				m.data, res.effected = g, true
			}
		case "duplicate-share-changed":
			if isShare && hit {
				if out, ok := cs.Sch.tweakShare(m.data, cs.Which, 11); ok {
					res.effected = true
					return []dmsg{m, {from: m.from, to: m.to, data: out, bcast: m.bcast}}
				}
			}
		case "duplicate-commitment-changed":
			if isCommit && hit {
				res.effected = true
				return []dmsg{m, {from: m.from, to: m.to, data: flipByte(m.data, -1), bcast: m.bcast}}
			}
		case "duplicate-reveal-changed":
			if isReveal && hit {
				res.effected = true
				return []dmsg{m, {from: m.from, to: m.to, data: flipByte(m.data, -2), bcast: m.bcast}}
			}
		case "withhold-share":
			if isShare && hit {
				res.effected = true
				return nil
			}
		case "withhold-commitment":
			if isCommit && hit {
				res.effected = true
				return nil
			}
		case "withhold-reveal":
			if isReveal && hit {
				res.effected = true
				return nil
			}
		case "off-polynomial-key-committed-and-revealed-then-the-genuine-key":
			// the participant holds back its commitment; once its genuine key G is known it commits to B = G + generator (a valid key
			// off the polynomial) and sends: reveal(B), reveal(G), and only then the commitment to B. The first reveal matches the
			// commitment, so B is the key of this participant; the second reveal is a duplicate and means nothing.
			if isCommit && hit {
				if genuineCommit == nil {
					genuineCommit = append([]byte{}, m.data...)
				}
				return nil
			}
			if isReveal && hit && genuineCommit != nil {
				if sum := sha256.Sum256(m.data[1:]); len(genuineCommit) != 33 || !sameBytes(sum[:], genuineCommit[1:]) {
					res.selfOK = false
					return []dmsg{m}
				}
				b, ok := cs.Sch.tweakKey(m.data)
				if !ok {
					res.selfOK = false
					return []dmsg{m}
				}
				sum := sha256.Sum256(b[1:])
				res.effected = true
				if cs.T < cs.N {
					res.mustDetect[m.to] = true
				}
				return []dmsg{{from: m.from, to: m.to, data: b, bcast: m.bcast}, m, {from: m.from, to: m.to, data: append([]byte{genuineCommit[0]}, sum[:]...), bcast: true}}
			}
		case "shares-of-a-polynomial-of-too-high-a-degree":
			// the dealer adds a*(i-b)*i^(t-1) to the share it sends to party i (b: itself): the shares it deals lie on a polynomial of
			// degree t instead of t-1 (its own share is untouched, it commits and reveals honestly). With t < n the public keys then
			// do not lie on one polynomial of degree t-1, which the cross-check over all t-subsets must notice.
			if isShare && hit {
				delta := int64(3) * (int64(m.to) - int64(cs.Byz))
				for k := 0; k < cs.T-1; k++ {
					delta *= int64(m.to)
				}
				if out, ok := cs.Sch.tweakShare(m.data, -1, delta); ok {
					m.data, res.effected = out, true
					if cs.T < cs.N {
						for _, id := range ids {
							if id != cs.Byz {
								res.mustDetect[id] = true
							}
						}
					}
				} else {
					res.selfOK = false
				}
			}
		case "reveal-before-commitment":
			if isCommit && hit && !revealSent {
				heldCommit = append(heldCommit, m)
				return nil
			}
			if isReveal && hit {
				res.effected = true
				out := []dmsg{m}
				for _, h := range heldCommit {
					if h.to == m.to {
						out = append(out, h)
					}
				}
				return out
			}
		}
		return []dmsg{m}
	}
	ctx, cancel := context.WithTimeout(context.Background(), 60*time.Second)
	res.ok = d.run(ctx, cancel, ids, 20*time.Second)
	if cs.Strategy == "reveal-before-commitment" {
		// a held commitment must not stay held for parties that never got a reveal
		_ = heldCommit
	}
	return res
}

func c05oracle(cs c05case, r c05result, rng *mrand.Rand) (string, string) {
	d := r.d
	if len(d.panics) > 0 {
		return "panic", d.panics[0]
	}
	if !r.ok {
		return "hang", "a KeyGen call had not returned 20 s after its context ended"
	}
	honest := map[uint16]bool{}
	var completers []uint16
	for _, id := range d.parties {
		if id == cs.Byz {
			continue
		}
		honest[id] = true
		if d.errs[id] == nil {
			completers = append(completers, id)
		}
	}
	for id := range r.mustAbort {
		if d.errs[id] == nil {
			return "accepted-key-that-mismatches-its-commitment", fmt.Sprintf("honest party %d completed although the public key party %d revealed to it does not match the commitment party %d had sent", id, cs.Byz, cs.Byz)
		}
	}
	for id := range r.mustDetect {
		if d.errs[id] == nil {
			if cs.Strategy == "shares-of-a-polynomial-of-too-high-a-degree" {
				return "keys-off-one-polynomial-accepted", fmt.Sprintf("honest party %d completed although party %d dealt shares of a polynomial of degree t (the parties' keys do not lie on one polynomial of degree t-1); t < n", id, cs.Byz)
			}
			return "off-polynomial-key-accepted", fmt.Sprintf("honest party %d completed although party %d committed to and revealed a key that is off the common polynomial (followed by a second, meaningless reveal of its genuine key); t < n", id, cs.Byz)
		}
	}
	if who, round, off, bad := d.keyInEarlierMessage(honest); bad {
		return "key-inside-earlier-message", fmt.Sprintf("honest party %d: bytes %d..%d of the public key it later revealed are contained in a round-%d message it transmitted before it held the commitments of all other participants", who, off, off+32, round)
	}
	if who, bad := d.revealBeforeCommitments(honest); bad {
		return "reveal-before-commitments", fmt.Sprintf("honest party %d disclosed its public key before it held the commitments of all other participants", who)
	}
	if len(completers) >= 2 {
		if v := consistentPublicMaterial(completers, d.outs); v != "" {
			return "split-key", "honest parties completed with differing public material: " + v
		}
	}
	if len(completers) >= cs.T {
		// honest shares must jointly sign under the reported key (a few subsets of size t and the full set)
		subs := subsets(completers, cs.T)
		rng.Shuffle(len(subs), func(i, j int) { subs[i], subs[j] = subs[j], subs[i] })
		if len(subs) > 4 {
			subs = subs[:4]
		}
		for _, sub := range subs {
			var err error
			if cs.Sch.Name == "bls" {
				err = jointBLS(d.parties, cs.T, d.outs, sub, []byte("digest-for-c05-0123456789abcdef.."), completers[0])
			} else {
				msg := make([][]byte, cs.Sch.MsgLen)
				for i := range msg {
					msg[i] = []byte{byte(i), 5}
				}
				err = jointPS(d.parties, cs.T, cs.Sch.MsgLen, d.outs, sub, msg, completers[0])
			}
			if err != nil {
				return "poisoned-key", fmt.Sprintf("honest parties %v completed but the shares of %v cannot jointly sign under the reported key: %v", completers, sub, err)
			}
		}
	}
	if cs.Strategy == "none" && len(completers) != cs.N-1 {
		return "honest-run-failed", fmt.Sprintf("without any deviation only %d of %d parties completed: %v", len(completers), cs.N-1, d.errs)
	}
	return "", ""
}

func unitC05(e common.Env, p *common.Part) {
	p.Rule = "directly wired BLS and PS key generations in which one participant is a real backend behind a wrapper that perturbs what goes in and out: off-polynomial share it receives (consistent commit/reveal), flipped outgoing share (PS: x and each y_j), altered commitment / reveal, copy of an honest party's commitment and key, malformed share (truncated, fewer elements, garbage), a commitment cut to its tag byte plus 0 / 1 / 16 / 31 digest bytes followed by the reveal of another valid key, shares of a polynomial of degree t dealt by one participant, a held-back commitment to a valid key off the polynomial sent after the reveal of that key and a second reveal of the genuine key, a commitment to garbage that is then revealed (garbage of arbitrary sizes and of exactly a group element's size: all ones, all zeros, a pattern, a genuine element with one byte changed), duplicates with a changed second copy (share, commitment, reveal), withheld share / commitment / reveal, reveal delivered before the commitment; x every single victim and all honest parties as victims x (n,t) incl. t=n x PRNG delivery order; context cancelled at quiescence (all remaining KeyGens parked on their condition variable, nothing queued); oracle: honest completers report identical public material, >= t honest completers sign jointly under the reported key, no honest reveal before all commitments were received (by message kind, and by content: no 32-byte window of the key a party finally reveals occurs in anything it transmitted earlier), no panic, no hang; distinct key = (scheme, n, t, Byzantine party, strategy, victims, scalar); non-trivial when the deviation actually reached a victim"
	type nt struct{ n, t int }
	nts := []nt{{3, 2}, {3, 3}, {4, 2}, {4, 3}, {4, 4}}
	if e.Thorough() {
		nts = append(nts, nt{5, 2}, nt{5, 3}, nt{5, 4}, nt{5, 5}, nt{2, 2})
	}
	var cases []c05case
	for _, sch := range []scheme{{Name: "bls"}, {Name: "ps", MsgLen: 1}, {Name: "ps", MsgLen: 2}} {
		for ni, x := range nts {
			if sch.MsgLen == 2 && !e.Thorough() && ni%2 == 0 {
				continue
			}
			for bz := 1; bz <= x.n; bz++ {
				if !e.Thorough() && x.t != x.n && bz != 1+ni%x.n && bz != x.n {
					continue // quick: every position for t=n, first/rotating and last position otherwise
				}
				byz := uint16(bz)
				var honest []uint16
				for i := 1; i <= x.n; i++ {
					if uint16(i) != byz {
						honest = append(honest, uint16(i))
					}
				}
				for _, st := range c05strategies {
					whichs := []int{-1}
					if sch.Name == "ps" && (st == "flip-share-out" || st == "off-polynomial-share-in" || st == "duplicate-share-changed") {
						whichs = []int{-1, 0, sch.MsgLen} // x, first y, last y (the m' slot)
					}
					if st == "malformed-share-fewer-elements" && sch.Name == "bls" {
						continue
					}
					if st == "truncated-commitment-then-mismatching-valid-key" {
						whichs = []int{0, 1, 2, 3}
						if !e.Thorough() {
							whichs = []int{0, 1 + len(cases)%3}
						}
					}
					if st == "commit-to-garbage-and-reveal-it" {
						// one case per kind of garbage (quick: the first, and the full-sized ones for every second configuration)
						whichs = nil
						for k := range c05garbageKinds() {
							if e.Thorough() || k == 0 || (k >= 6 && (k+len(cases))%2 == 0) {
								whichs = append(whichs, k-1)
							}
						}
					}
					for _, w := range whichs {
						vsets := [][]uint16{honest, {honest[0]}, {honest[len(honest)-1]}}
						if st == "none" || st == "off-polynomial-share-in" || st == "copy-honest-key" || st == "commit-to-garbage-and-reveal-it" || st == "off-polynomial-key-committed-and-revealed-then-the-genuine-key" || st == "shares-of-a-polynomial-of-too-high-a-degree" {
							vsets = vsets[:1]
						}
						for _, vs := range vsets {
							cases = append(cases, c05case{Sch: sch, N: x.n, T: x.t, Byz: byz, Strategy: st, Victims: vs, Which: w})
						}
					}
				}
			}
		}
	}
	p.Note("cases", len(cases))
	for i, cs := range cases {
		if !e.Mine(i) || p.ViolationCount() >= 3 {
			continue
		}
		p.Begin(cs.String())
		rng := e.Rng("c05", i)
		r := runC05(cs, rng)
		for extra := 0; extra < e.Pick(0, 4) && len(r.d.panics) == 0 && r.ok; extra++ {
			// thorough: further delivery orders of the same case; the last run is judged below, earlier ones here
			if sig, what := c05oracle(cs, r, rng); sig != "" {
				break
			} else {
				_ = what
			}
			p.Count("runs", 1)
			r = runC05(cs, e.Rng("c05", i, extra))
		}
		p.Case(cs.String(), r.effected)
		p.Count("runs", 1)
		if r.effected {
			p.Count("deviations_effective", 1)
		}
		if !r.selfOK {
			p.Inconcl(cs.String() + ": share layout self-check failed, share edits skipped")
			continue
		}
		honestDone := 0
		for id, err := range r.d.errs {
			if id != cs.Byz && err == nil {
				honestDone++
			}
		}
		if honestDone > 0 {
			p.Count("honest_completions_under_attack", int64(honestDone))
		}
		sig, what := c05oracle(cs, r, rng)
		if e.Property == "C10" && sig != "panic" && sig != "hang" {
			sig = "" // under C10 only crashes and hangs of honest parties are judged
		}
		if sig != "" {
			p.Violate(sig+"/"+cs.Sch.Name+"/"+cs.Strategy, cs.String()+": "+what, map[string]interface{}{"case": cs})
		}
		if i%41 == 0 {
			p.Sample(map[string]interface{}{"case": cs.String(), "honest_completions": honestDone, "errors": fmt.Sprint(r.d.errs)})
		}
	}
}

// ---- C05 through the orchestrator: different values shown to different parties ----

// unitC05orch: BLS / PS key generation through real Loud/Silent schemes; the Byzantine participant's transmissions are
// altered PER DESTINATION on the wire (equivocation of commitments, public keys and shares), so the reliable broadcast is
// what has to keep the honest parties consistent.
func unitC05orch(e common.Env, p *common.Part) {
	p.Rule = "BLS and PS key generation through real LoudScheme / SilentScheme objects on the simulated network (random mode); one participant's protocol transmissions are altered per destination on the wire: one victim gets the commitment / public key / share with a flipped byte (or a message of an earlier key generation on the same cluster) while the others get the genuine one; or the misbehaving party's second node, which is not a participant, shows the victim another (valid) commitment and key as its party's while the two nodes vouch for each other; or the participant sends two commitments and two matching valid keys to every honest party, back to back, in opposite orders to two groups; (n,t) in {(3,2),(3,3),(4,3)}; oracle as in c05: honest completers agree and sign jointly under the reported key, or return errors; no panic (a crash in a background goroutine kills the child and is reported by the parent); distinct key = (scheme, mode, n, t, strategy, victim, seed); non-trivial when an altered transmission was delivered"
	type cs struct {
		sch    scheme
		n, t   int
		silent bool
		strat  string
		victim uint16
	}
	var cases []cs
	for _, sch := range []scheme{{Name: "bls"}, {Name: "ps", MsgLen: 1}} {
		for _, x := range []struct{ n, t int }{{3, 2}, {3, 3}, {4, 3}} {
			for _, silent := range []bool{false, true} {
				for _, st := range []string{"equivocate-broadcasts-flip", "equivocate-broadcasts-old-session", "equivocate-everything-flip", "duplicate-with-changed-copy", "replica-outside-the-session", "both-versions-to-everybody-in-opposite-orders"} {
					for v := 2; v <= x.n; v++ {
						if !e.Thorough() && v > 2 && st != "equivocate-broadcasts-flip" {
							continue
						}
						cases = append(cases, cs{sch, x.n, x.t, silent, st, uint16(v)})
					}
				}
			}
		}
	}
	for i, c := range cases {
		if !e.Mine(i) || p.ViolationCount() >= 3 {
			continue
		}
		mode := "loud"
		if c.silent {
			mode = "silent"
		}
		key := fmt.Sprintf("%s %s n=%d t=%d byz=1 %s victim=%d", c.sch.Name, mode, c.n, c.t, c.strat, c.victim)
		p.Begin(key)
		rng := e.Rng("c05orch", i)
		var ids []uint16
		m := map[uint16]uint16{}
		for k := 1; k <= c.n; k++ {
			ids = append(ids, uint16(k))
			m[uint16(k)] = uint16(k)
		}
		if c.strat == "replica-outside-the-session" {
			m[40] = 1 // a second node of the misbehaving party; it is not a participant of the key generation
		}
		sch := c.sch
		cl := cluster.New(cluster.Config{Map: m, Silent: c.silent, Threshold: c.t - 1, Nodes: ids,
			KGF: func(node uint16) tss.KeyGenerator { return sch.newKG(node) },
			SF:  func(node uint16) tss.Signer { return sch.newSigner(node) }})
		go cl.Net.RunRandom(rng, []simnet.Policy{simnet.Uniform, simnet.PreferNewest, simnet.ByReceiver}[i%3])
		keygen := func(timeout time.Duration) (map[uint16][]byte, map[uint16]error) {
			if c.silent {
				cl.SetPick(tss.DkgTopicName, ids)
			}
			ctx, cancel := context.WithTimeout(context.Background(), timeout)
			defer cancel()
			outs, errs := map[uint16][]byte{}, map[uint16]error{}
			var mu sync.Mutex
			var wg sync.WaitGroup
			for _, u := range ids {
				u := u
				wg.Add(1)
				go func() {
					defer wg.Done()
					o, err := cl.Schemes[u].KeyGen(ctx, c.n, c.t)
					mu.Lock()
					outs[u], errs[u] = o, err
					mu.Unlock()
				}()
			}
			wg.Wait()
			return outs, errs
		}
		var old [][]byte
		var omu sync.Mutex
		altered := int32(0)
		if c.strat == "equivocate-broadcasts-old-session" && !c.silent {
			// capture node 1's broadcast-class transmissions of an honest first key generation
			cl.Net.SetInterceptor(1, func(nw *simnet.Net, src uint16, typ uint8, topic, data []byte, dsts []uint16) []simnet.Outgoing {
				if typ == uint8(tss.MsgTypeMPC) && len(dsts) == c.n-1 && len(data) > 30 {
					omu.Lock()
					old = append(old, append([]byte{}, data...))
					omu.Unlock()
				}
				var o []simnet.Outgoing
				for _, d := range dsts {
					o = append(o, simnet.Outgoing{Dst: d, Type: typ, Topic: topic, Data: data})
				}
				return o
			})
			keygen(20 * time.Second)
			time.Sleep(3 * time.Millisecond)
		}
		cnt := 0
		cl.Net.SetInterceptor(1, func(nw *simnet.Net, src uint16, typ uint8, topic, data []byte, dsts []uint16) []simnet.Outgoing {
			var o []simnet.Outgoing
			isBcast := len(dsts) == c.n-1
			for _, d := range dsts {
				out := data
				if typ == uint8(tss.MsgTypeMPC) && d == c.victim && len(data) > 30 {
					switch c.strat {
					case "equivocate-broadcasts-flip":
						if isBcast {
							out = flipByte(data, -2)
						}
					case "equivocate-everything-flip":
						out = flipByte(data, -1-cnt%5)
					case "equivocate-broadcasts-old-session":
						omu.Lock()
						if isBcast && len(old) > 0 {
							out = old[cnt%len(old)]
						}
						omu.Unlock()
					case "duplicate-with-changed-copy":
						o = append(o, simnet.Outgoing{Dst: d, Type: typ, Topic: topic, Data: data})
						out = flipByte(data, -2)
					}
					if !sameBytes(out, data) {
						atomic.AddInt32(&altered, 1)
					}
					cnt++
				}
				o = append(o, simnet.Outgoing{Dst: d, Type: typ, Topic: topic, Data: out})
			}
			return o
		})
		if c.strat == "both-versions-to-everybody-in-opposite-orders" {
			// the participant holds back its commitment until its key is known, makes a second valid key (its own plus the generator)
			// and a commitment to it, and then sends BOTH commitments and BOTH keys to every honest party, back to back, in opposite
			// orders to two groups (first group: genuine first). Whatever the honest parties do with the second version of a round,
			// they must not end up with different keys for this participant.
			var hmu sync.Mutex
			var heldCommit []byte
			kg := sch.newKG(1)
			cl.Net.SetInterceptor(1, func(nw *simnet.Net, src uint16, typ uint8, topic, data []byte, dsts []uint16) []simnet.Outgoing {
				pass := func() []simnet.Outgoing {
					var o []simnet.Outgoing
					for _, d := range dsts {
						o = append(o, simnet.Outgoing{Dst: d, Type: typ, Topic: topic, Data: data})
					}
					return o
				}
				if typ != uint8(tss.MsgTypeMPC) || len(dsts) != c.n-1 || len(data) < 30 || data[0]>>7 != 1 {
					return pass()
				}
				round, bc, err := kg.ClassifyMsg(data[1:])
				if err != nil || !bc {
					return pass()
				}
				hmu.Lock()
				defer hmu.Unlock()
				switch round {
				case 2:
					heldCommit = append([]byte{}, data...)
					return nil
				case 3:
					if heldCommit == nil {
						return pass()
					}
					r2, ok := sch.tweakKey(data[1:])
					if !ok {
						return append(pass(), simnet.Outgoing{})[:len(dsts)]
					}
					sum := sha256.Sum256(r2[1:])
					c1 := heldCommit
					c2 := append([]byte{c1[0], c1[1]}, sum[:]...)
					w1, w2 := data, append([]byte{data[0]}, r2...)
					var o []simnet.Outgoing
					for i, d := range dsts {
						seq := [][]byte{c1, c2, w1, w2}
						if i%2 == 1 {
							seq = [][]byte{c2, c1, w2, w1}
						}
						for _, m := range seq {
							o = append(o, simnet.Outgoing{Dst: d, Type: typ, Topic: topic, Data: m})
						}
					}
					atomic.AddInt32(&altered, 1)
					return o
				}
				return pass()
			})
		}
		if c.strat == "replica-outside-the-session" {
			// The misbehaving party has a second node (40) that is not a participant. Node 1 shows its own commitment and key to
			// node 2 only; node 40 shows ANOTHER commitment and key (copies of honest node 2's, so a consistent valid pair) to the
			// victim as its party's, and each of the two nodes vouches for the other's broadcast: node 1 by acknowledging what it
			// receives from node 40 (its real code does that if it admits node 40), node 40 by re-sending to node 2 the very
			// acknowledgement node 2 itself transmitted about node 1's broadcast (an acknowledgement does not name its author).
			// Frames are told apart by the first bit only (acknowledgements start with the 7-bit round), nothing is hand-encoded.
			victim := c.victim
			if victim == 2 {
				victim = 3
			}
			pass := func(typ uint8, topic, data []byte, dsts []uint16, skip uint16) []simnet.Outgoing {
				var o []simnet.Outgoing
				for _, d := range dsts {
					if d != skip {
						o = append(o, simnet.Outgoing{Dst: d, Type: typ, Topic: topic, Data: data})
					}
				}
				return o
			}
			cl.Net.SetInterceptor(1, func(nw *simnet.Net, src uint16, typ uint8, topic, data []byte, dsts []uint16) []simnet.Outgoing {
				if typ == uint8(tss.MsgTypeMPC) && len(dsts) == c.n-1 && len(data) > 30 && data[0]>>7 == 1 {
					atomic.AddInt32(&altered, 1)
					return pass(typ, topic, data, dsts, victim) // withheld from the victim
				}
				return pass(typ, topic, data, dsts, 0xffff)
			})
			cl.Net.SetInterceptor(2, func(nw *simnet.Net, src uint16, typ uint8, topic, data []byte, dsts []uint16) []simnet.Outgoing {
				if typ == uint8(tss.MsgTypeMPC) && len(dsts) >= c.n-1 && len(data) > 30 {
					if data[0]>>7 == 1 {
						for _, d := range []uint16{1, victim} {
							nw.Inject(40, simnet.Outgoing{Dst: d, Type: typ, Topic: topic, Data: data, Tag: "replica-payload"})
						}
					} else if data[1] == 0 && data[2] == 1 {
						nw.Inject(40, simnet.Outgoing{Dst: 2, Type: typ, Topic: topic, Data: data, Tag: "replica-voucher"})
					}
				}
				return pass(typ, topic, data, dsts, 0xffff)
			})
		}
		outs, errs := keygen(1500 * time.Millisecond)
		cl.Net.Stop()
		var completers []uint16
		for _, u := range ids[1:] {
			if errs[u] == nil {
				completers = append(completers, u)
			}
		}
		p.Case(key, atomic.LoadInt32(&altered) > 0)
		p.Count("sessions", 1)
		p.Count("altered_transmissions", int64(atomic.LoadInt32(&altered)))
		p.Count("honest_completions_under_attack", int64(len(completers)))
		viol := ""
		if len(completers) >= 2 {
			if v := consistentPublicMaterial(completers, outs); v != "" {
				viol = "split-key: honest parties completed with differing public material: " + v
			}
		}
		if viol == "" && len(completers) >= c.t {
			sub := completers[:c.t]
			var err error
			if c.sch.Name == "bls" {
				err = jointBLS(ids, c.t, outs, sub, []byte("digest-for-c05-0123456789abcdef.."), completers[0])
			} else {
				err = jointPS(ids, c.t, c.sch.MsgLen, outs, sub, [][]byte{[]byte("x")}, completers[0])
			}
			if err != nil {
				viol = fmt.Sprintf("poisoned-key: honest parties %v completed but %v cannot jointly sign under the reported key: %v", completers, sub, err)
			}
		}
		if viol != "" {
			p.Violate(strings.SplitN(viol, ":", 2)[0]+"/"+c.sch.Name+"/"+c.strat+"/orchestrator", key+": "+viol, map[string]interface{}{"case": key})
		}
		if i%9 == 0 {
			p.Sample(map[string]interface{}{"case": key, "altered_transmissions": atomic.LoadInt32(&altered), "honest_completions": len(completers)})
		}
	}
}
