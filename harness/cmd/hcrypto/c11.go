package main

// C11 — KeyGen fails cleanly on timeout, cancellation or a vanished peer (built-in BLS and PS backends).

import (
	"context"
	"fmt"
	mrand "math/rand"
	"sort"
	"strings"
	"sync"
	"sync/atomic"
	"time"

	"github.com/IBM/TSS/mpc/ps"
	tss "github.com/IBM/TSS/types"
	math "github.com/IBM/mathlib"

	"verifharness/cluster"
	"verifharness/common"
	"verifharness/simnet"
)

type c11c struct {
	Sch       scheme
	N, T      int
	Mute      uint16 // party whose transmissions vanish ...
	After     int    // ... from its (After+1)-th send call on (-1: nobody muted)
	WFrom     uint16 // single withheld transmission: sender, its send-call index, destination (0 = none)
	WSeq      int
	WTo       uint16
	CancelAt  uint16 // the context is cancelled inside this party's ...
	CancelSeq int    // ... send call with this index (-1: cancel at quiescence only)
	Seed      int
}

func (c c11c) String() string {
	return fmt.Sprintf("%s n=%d t=%d mute=%d after=%d withhold=%d/%d->%d cancel-in-send=%d/%d seed=%d", c.Sch.Name, c.N, c.T, c.Mute, c.After, c.WFrom, c.WSeq, c.WTo, c.CancelAt, c.CancelSeq, c.Seed)
}

func runC11c(cs c11c, rng *mrand.Rand, scale int) (*drun, bool, bool) {
	var ids []uint16
	for i := 1; i <= cs.N; i++ {
		ids = append(ids, uint16(i))
	}
	d := newDrun(cs.Sch, ids, cs.T, rng)
	hit := false
	d.filter = func(m dmsg, seq, g int) []dmsg {
		if cs.After >= 0 && m.from == cs.Mute && seq >= cs.After {
			hit = true
			return nil
		}
		if cs.WFrom != 0 && m.from == cs.WFrom && seq == cs.WSeq && m.to == cs.WTo {
			hit = true
			return nil
		}
		return []dmsg{m}
	}
	ctx, cancel := context.WithCancel(context.Background())
	if cs.CancelSeq >= 0 {
		d.onSend = func(from uint16, seq int) {
			if from == cs.CancelAt && seq == cs.CancelSeq {
				hit = true
				cancel()
				time.Sleep(300 * time.Microsecond) // the backend's context monitor fires while the party is still inside its send
			}
		}
	}
	ok := d.run(ctx, cancel, ids, time.Duration(scale)*4*time.Second)
	return d, ok, hit
}

func unitC11crypto(e common.Env, p *common.Part) {
	p.Rule = "crash-point enumeration on directly wired BLS and PS key generations: a reference run counts the send calls M_P of every party; then for every party P and every k=0..M_P a run in which P's transmissions vanish from its (k+1)-th send call on; every single (sender, send call, destination) transmission withheld; and for every party V and every k a run in which the context is cancelled INSIDE V's k-th send call (between two of its protocol steps); otherwise the context is cancelled at quiescence (every remaining KeyGen parked on its condition variable, nothing queued); PRNG delivery order, several seeds; oracle: every KeyGen returns within 4 s after the context ended (hang replayed with 5x before it is reported), never panics, and returns nil only with consistent stored data; distinct key = (scheme, n, t, fault, seed); non-trivial when the fault took effect"
	var cases []c11c
	type nt struct{ n, t int }
	for _, sch := range []scheme{{Name: "bls"}, {Name: "ps", MsgLen: 1}} {
		nts := []nt{{3, 2}, {4, 3}}
		if e.Thorough() {
			nts = append(nts, nt{3, 3}, nt{4, 2}, nt{5, 3})
		}
		for _, x := range nts {
			calls := x.n - 1 + 2 // shares to n-1 peers, one commitment broadcast, one reveal broadcast
			seeds := e.Pick(2, 25)
			for s := 0; s < seeds; s++ {
				for pa := 1; pa <= x.n; pa++ {
					for k := 0; k <= calls; k++ {
						cases = append(cases, c11c{Sch: sch, N: x.n, T: x.t, Mute: uint16(pa), After: k, CancelSeq: -1, Seed: s})
						if k < calls {
							cases = append(cases, c11c{Sch: sch, N: x.n, T: x.t, After: -1, CancelAt: uint16(pa), CancelSeq: k, Seed: s})
							// cancel inside a send while another party is mute from the start (a peer that never delivers)
							other := uint16(pa%x.n + 1)
							cases = append(cases, c11c{Sch: sch, N: x.n, T: x.t, Mute: other, After: x.n - 1, CancelAt: uint16(pa), CancelSeq: k, Seed: s})
						}
					}
				}
				if s == 0 {
					for from := 1; from <= x.n; from++ {
						for k := 0; k < calls; k++ {
							for to := 1; to <= x.n; to++ {
								if to == from || (k < x.n-1 && !e.Thorough() && to != (from%x.n)+1 && k != to-1-boolInt(to > from)) {
									continue
								}
								cases = append(cases, c11c{Sch: sch, N: x.n, T: x.t, After: -1, WFrom: uint16(from), WSeq: k, WTo: uint16(to), CancelSeq: -1, Seed: s})
							}
						}
					}
				}
			}
		}
	}
	p.Note("crash_points", len(cases))
	for i, cs := range cases {
		if !e.Mine(i) || p.ViolationCount() >= 3 {
			continue
		}
		p.Begin(cs.String())
		rng := e.Rng("c11c", i)
		d, ok, hit := runC11c(cs, rng, 1)
		if !ok {
			p.Count("watchdog_replays", 1)
			d, ok, hit = runC11c(cs, e.Rng("c11c", i), 5)
		}
		p.Case(cs.String(), hit)
		p.Count("runs", 1)
		if hit {
			p.Count("faults_effective", 1)
		}
		wit := map[string]interface{}{"case": cs}
		switch {
		case len(d.panics) > 0:
			p.Violate("panic/"+cs.Sch.Name, cs.String()+": "+d.panics[0], wit)
		case !ok:
			stuck := []uint16{}
			for _, id := range d.parties {
				d.mu.Lock()
				_, returned := d.errs[id]
				d.mu.Unlock()
				if !returned {
					stuck = append(stuck, id)
				}
			}
			p.Violate("hang/"+cs.Sch.Name, fmt.Sprintf("%s: KeyGen of parties %v had not returned 20 s after the context ended", cs.String(), stuck), wit)
		default:
			var done []uint16
			for _, id := range d.parties {
				if d.errs[id] == nil {
					done = append(done, id)
					p.Count("success_returns", 1)
				} else {
					p.Count("error_returns", 1)
				}
			}
			if len(done) >= 2 {
				if v := consistentPublicMaterial(done, d.outs); v != "" {
					p.Violate("nil-error-with-inconsistent-data/"+cs.Sch.Name, cs.String()+": "+v, wit)
				}
			}
		}
		if i%53 == 0 {
			p.Sample(map[string]interface{}{"case": cs.String(), "errors": fmt.Sprint(d.errs)})
		}
	}
}

func boolInt(b bool) int {
	if b {
		return 1
	}
	return 0
}

// unitC11orch: BLS / PS key generation through real Loud/Silent schemes; one node's transmissions vanish after its k-th
// (all kinds: synchronisation, protocol, acknowledgements); the calls run under a deadline. A panic in one of the
// orchestrator's background goroutines after KeyGen returned kills the child and is reported by the parent.
func unitC11orch(e common.Env, p *common.Part) {
	p.Rule = "BLS and PS key generation through real LoudScheme (real disc.Member) and SilentScheme objects on the simulated network, n=3, t=2; node 3 goes silent after its k-th transmission of any kind, k = 0..K (K = 45 loud, 14 silent; quick: every second k); deadline 120..250 ms with PRNG phase; oracle: every KeyGen returns an error or a success with consistent public material within 5 s after the deadline, and the process survives a settle window of 30 ms (background goroutines); distinct key = (scheme, mode, k); non-trivial when the muted node had transmitted at least k+1 times in an earlier reference run (the fault took effect)"
	type cs struct {
		sch    scheme
		silent bool
		k      int
	}
	var cases []cs
	step := e.Pick(2, 1)
	for _, sch := range []scheme{{Name: "bls"}, {Name: "ps", MsgLen: 1}} {
		for _, silent := range []bool{false, true} {
			K := 45
			if silent {
				K = 14
			}
			for k := 0; k <= K; k += step {
				cases = append(cases, cs{sch, silent, k})
			}
		}
	}
	for i, c := range cases {
		if !e.Mine(i) || p.ViolationCount() >= 3 {
			continue
		}
		mode := "loud"
		if c.silent {
			mode = "silent"
		}
		key := fmt.Sprintf("%s %s node 3 silent after %d transmissions", c.sch.Name, mode, c.k)
		p.Begin(key)
		rng := e.Rng("c11orch", i)
		ids := []uint16{1, 2, 3}
		sch := c.sch
		cl := cluster.New(cluster.Config{Map: map[uint16]uint16{1: 1, 2: 2, 3: 3}, Silent: c.silent, Threshold: 1,
			KGF: func(node uint16) tss.KeyGenerator { return sch.newKG(node) },
			SF:  func(node uint16) tss.Signer { return sch.newSigner(node) }})
		go cl.Net.RunRandom(rng, simnet.Uniform)
		var sent int32
		cl.Net.SetInterceptor(3, func(nw *simnet.Net, src uint16, typ uint8, topic, data []byte, dsts []uint16) []simnet.Outgoing {
			if int(atomic.AddInt32(&sent, 1)) > c.k {
				return nil
			}
			var o []simnet.Outgoing
			for _, d := range dsts {
				o = append(o, simnet.Outgoing{Dst: d, Type: typ, Topic: topic, Data: data})
			}
			return o
		})
		if c.silent {
			cl.SetPick(tss.DkgTopicName, ids)
		}
		ctx, cancel := context.WithTimeout(context.Background(), time.Duration(120+rng.Intn(130))*time.Millisecond)
		outs, errs := map[uint16][]byte{}, map[uint16]error{}
		var mu sync.Mutex
		var wg sync.WaitGroup
		for _, u := range ids {
			u := u
			wg.Add(1)
			go func() {
				defer wg.Done()
				o, err := cl.Schemes[u].KeyGen(ctx, 3, 2)
				mu.Lock()
				outs[u], errs[u] = o, err
				mu.Unlock()
			}()
		}
		done := make(chan struct{})
		go func() { wg.Wait(); close(done) }()
		hang := false
		select {
		case <-done:
		case <-time.After(6 * time.Second):
			hang = true
		}
		cancel()
		time.Sleep(30 * time.Millisecond) // settle window: the continuation goroutines of the session run out
		cl.Net.Stop()
		effective := int(atomic.LoadInt32(&sent)) > c.k
		p.Case(key, effective)
		p.Count("runs", 1)
		if effective {
			p.Count("faults_effective", 1)
		}
		if hang {
			p.Violate("hang/orchestrated-"+c.sch.Name, key+": a KeyGen call had not returned 5 s after its deadline", nil)
			continue
		}
		var completers []uint16
		mu.Lock()
		for _, u := range ids {
			if errs[u] == nil {
				completers = append(completers, u)
				p.Count("success_returns", 1)
			} else {
				p.Count("error_returns", 1)
			}
		}
		mu.Unlock()
		if len(completers) >= 2 {
			if v := consistentPublicMaterial(completers, outs); v != "" {
				p.Violate("nil-error-with-inconsistent-data/orchestrated-"+c.sch.Name, key+": "+v, nil)
			}
		}
		if i%13 == 0 {
			p.Sample(map[string]interface{}{"case": key, "transmissions_of_node_3": atomic.LoadInt32(&sent), "errors": fmt.Sprint(errs)})
		}
	}
}

// ---- Sign through the orchestrator with stored share data of every kind (the "local precondition" clause) ----

func unitC11sign(e common.Env, p *common.Part) {
	p.Rule = "Sign through real LoudScheme / SilentScheme objects with the real BLS and PS signers, 3 signers, under a deadline of 150..250 ms, with stored share data of every kind: none, garbage, a truncated valid encoding, well-formed data of a key generation among fewer parties than there are signers, data of the other scheme, data of another key generation, valid data, PS data of a key generation for one attribute fewer / more than the signers are configured for (with a well-formed request); oracle: every Sign returns (an error or a signature) within 5 s after its deadline, and so does a second Sign and a KeyGen issued on the same scheme objects afterwards (a call that leaves a lock held shows there); distinct key = (scheme, mode, data kind); non-trivial when the data is not the valid one"
	kinds := []string{"none", "garbage", "truncated", "fewer-parties", "other-scheme", "another-keygen", "valid", "fewer-parties-at-one-node", "one-attribute-fewer", "one-attribute-more"}
	idx := 0
	for _, sch := range []scheme{{Name: "bls"}, {Name: "ps", MsgLen: 1}} {
		for _, silent := range []bool{false, true} {
			for _, kind := range kinds {
				idx++
				if !e.Mine(idx) || p.ViolationCount() >= 3 {
					continue
				}
				if strings.HasPrefix(kind, "one-attribute") && sch.Name != "ps" {
					continue
				}
				mode := map[bool]string{false: "loud", true: "silent"}[silent]
				key := fmt.Sprintf("%s %s stored data: %s", sch.Name, mode, kind)
				p.Begin(key)
				rng := e.Rng("c11sign", idx)
				ids := []uint16{1, 2, 3}
				deal := func(s scheme, n, t int) map[uint16][]byte {
					if s.Name == "bls" {
						st, _ := dealBLS(n, t)
						return st
					}
					st, _, err := dealPS(n, t, 1)
					if err != nil {
						return map[uint16][]byte{}
					}
					return st
				}
				valid := deal(sch, 3, 3)
				data := map[uint16][]byte{}
				for _, u := range ids {
					switch kind {
					case "none":
					case "garbage":
						data[u] = []byte("this is not share data at all")
					case "truncated":
						data[u] = valid[u][:len(valid[u])/2]
					case "fewer-parties":
						data[u] = deal(sch, 2, 2)[uint16(1+int(u)%2)]
					case "fewer-parties-at-one-node":
						data[u] = valid[u]
						if u == 2 {
							data[u] = deal(sch, 2, 2)[2]
						}
					case "one-attribute-fewer", "one-attribute-more":
						// well-formed data of a PS key generation for one attribute fewer / more than the signers are configured for
						// (2 attributes); the request to sign is a well-formed one for 2 attributes
						L := map[string]int{"one-attribute-fewer": 1, "one-attribute-more": 3}[kind]
						if st, _, err := dealPS(3, 3, L); err == nil {
							data[u] = st[u]
						}
					case "other-scheme":
						other := scheme{Name: "ps", MsgLen: 1}
						if sch.Name == "ps" {
							other = scheme{Name: "bls"}
						}
						data[u] = deal(other, 3, 3)[u]
					case "another-keygen":
						data[u] = valid[u]
						if u == 3 {
							data[u] = deal(sch, 3, 3)[3]
						}
					default:
						data[u] = valid[u]
					}
				}
				s := sch
				digest := []byte("digest-0123456789abcdef0123456789")
				if strings.HasPrefix(kind, "one-attribute") {
					s = scheme{Name: "ps", MsgLen: 2}
					pp := ps.Setup(curve, 2)
					req, _ := ps.Blind(&pp, curve, []*math.Zr{curve.HashToZr([]byte("a")), curve.HashToZr([]byte("b"))})
					digest = req.Bytes()
				}
				cl := cluster.New(cluster.Config{Map: map[uint16]uint16{1: 1, 2: 2, 3: 3}, Silent: silent, Threshold: 2,
					KGF: func(node uint16) tss.KeyGenerator { return s.newKG(node) },
					SF:  func(node uint16) tss.Signer { return s.newSigner(node) }})
				go cl.Net.RunRandom(rng, simnet.Uniform)
				for _, u := range ids {
					if data[u] != nil {
						cl.Schemes[u].SetStoredData(data[u])
					}
				}
				call := func(what string, f func(ctx context.Context, u uint16) error) (hung bool, errs map[uint16]error) {
					ctx, cancel := context.WithTimeout(context.Background(), time.Duration(150+rng.Intn(100))*time.Millisecond)
					defer cancel()
					errs = map[uint16]error{}
					var mu sync.Mutex
					var wg sync.WaitGroup
					for _, u := range ids {
						u := u
						wg.Add(1)
						go func() {
							defer wg.Done()
							err := f(ctx, u)
							mu.Lock()
							errs[u] = err
							mu.Unlock()
						}()
					}
					done := make(chan struct{})
					go func() { wg.Wait(); close(done) }()
					select {
					case <-done:
					case <-time.After(6 * time.Second):
						return true, nil
					}
					return false, errs
				}
				steps := []struct {
					what string
					f    func(ctx context.Context, u uint16) error
				}{
					{"Sign", func(ctx context.Context, u uint16) error {
						_, err := cl.Schemes[u].Sign(ctx, digest, "topic-a")
						return err
					}},
					{"a second Sign (other topic)", func(ctx context.Context, u uint16) error {
						_, err := cl.Schemes[u].Sign(ctx, digest, "topic-b")
						return err
					}},
					{"a KeyGen afterwards", func(ctx context.Context, u uint16) error { _, err := cl.Schemes[u].KeyGen(ctx, 3, 2); return err }},
				}
				if silent {
					cl.SetPick("topic-a", ids)
					cl.SetPick("topic-b", ids)
					cl.SetPick(tss.DkgTopicName, ids)
				}
				for _, st := range steps {
					hung, errs := call(st.what, st.f)
					p.Count("calls", 3)
					if hung {
						p.Violate("hang/orchestrated-sign-"+sch.Name+"/"+kind, key+": "+st.what+" had not returned 5 s after its deadline", nil)
						break
					}
					for _, err := range errs {
						if err != nil {
							p.Count("error_returns", 1)
						} else {
							p.Count("success_returns", 1)
						}
					}
				}
				time.Sleep(20 * time.Millisecond)
				cl.Net.Stop()
				p.Case(key, kind != "valid")
				if kind != "valid" {
					p.Count("faults_effective", 1)
				}
				p.Sample(map[string]interface{}{"case": key})
			}
		}
	}
}

// unitC11cctx: directly wired BLS / PS key generations in which one party's KeyGen runs under a context that ends at its k-th
// consultation, for every k (and, in a second series, while another party is mute from the start, so that the waits are real).
func unitC11cctx(e common.Env, p *common.Part) {
	p.Rule = "directly wired BLS and PS key generations, (n,t) in {(3,2),(3,3),(4,2)}; party 1's KeyGen runs under a context that ends at its k-th consultation (Err / Done call), k = 1..M+1 with M counted in a reference run; second series: the same while party n never transmits; oracle: every KeyGen returns after all contexts ended (watchdog 8 s), none panics, party 1 returns an error whenever its context ended inside the call and nil only with public material identical to that of the other completers; distinct key = (scheme, n, t, mute?, k); non-trivial when the context ended inside the call"
	type job struct {
		sch  scheme
		n, t int
		mute bool
	}
	var jobs []job
	for _, sch := range []scheme{{Name: "bls"}, {Name: "ps", MsgLen: 1}} {
		for _, nt := range [][2]int{{3, 2}, {3, 3}, {4, 2}} {
			jobs = append(jobs, job{sch, nt[0], nt[1], false}, job{sch, nt[0], nt[1], true})
		}
	}
	idx := 0
	for ji, j := range jobs {
		run := func(k int64, seed int) (*drun, bool, *countCtx) {
			var ids []uint16
			for i := 1; i <= j.n; i++ {
				ids = append(ids, uint16(i))
			}
			d := newDrun(j.sch, ids, j.t, e.Rng("c11cctx", ji, seed))
			if j.mute {
				d.filter = func(m dmsg, seq, g int) []dmsg {
					if m.from == uint16(j.n) {
						return nil
					}
					return []dmsg{m}
				}
			}
			ctx, cancel := context.WithCancel(context.Background())
			cc := newCountCtx(ctx, k)
			d.ctxFor = map[uint16]context.Context{1: cc}
			ok := d.run(ctx, cancel, ids, 8*time.Second)
			return d, ok, cc
		}
		_, ok, rcc := run(0, 0)
		M := rcc.Consultations()
		if !ok {
			p.Inconcl(fmt.Sprintf("%s n=%d t=%d mute=%v: reference run did not finish", j.sch.Name, j.n, j.t, j.mute))
			continue
		}
		maxK := M + 1
		if c := int64(e.Pick(25, 300)); maxK > c {
			maxK = c
		}
		for k := int64(1); k <= maxK; k++ {
			idx++
			if !e.Mine(idx) || p.ViolationCount() >= 3 {
				continue
			}
			key := fmt.Sprintf("%s n=%d t=%d party %d mute=%v: party 1's context ends at its consultation %d", j.sch.Name, j.n, j.t, j.n, j.mute, k)
			p.Begin(key)
			d, ok, cc := run(k, int(k))
			inside := cc.Ended() && cc.Consultations() >= k
			p.Case(key, inside)
			p.Count("ctx_runs", 1)
			if inside {
				p.Count("faults_effective", 1)
			}
			wit := map[string]interface{}{"scheme": j.sch.Name, "n": j.n, "t": j.t, "mute": j.mute, "k": k}
			d.mu.Lock()
			panics := append([]string{}, d.panics...)
			errs := map[uint16]error{}
			outs := map[uint16][]byte{}
			for id, err := range d.errs {
				errs[id] = err
			}
			for id, o := range d.outs {
				outs[id] = o
			}
			d.mu.Unlock()
			switch {
			case len(panics) > 0:
				p.Violate("panic/"+j.sch.Name+"/context-ends-at-consultation", key+": "+panics[0], wit)
			case !ok:
				p.Violate("hang/"+j.sch.Name+"/context-ends-at-consultation", key+": a KeyGen had not returned 8 s after every context had ended", wit)
			default:
				var completers []uint16
				for id, err := range errs {
					if err == nil {
						completers = append(completers, id)
						p.Count("success_returns", 1)
					} else {
						p.Count("error_returns", 1)
					}
				}
				sort.Slice(completers, func(a, b int) bool { return completers[a] < completers[b] })
				if len(completers) >= 2 {
					if v := consistentPublicMaterial(completers, outs); v != "" {
						p.Violate("nil-error-with-inconsistent-data/"+j.sch.Name+"/context-ends-at-consultation", key+": "+v, wit)
					}
				}
				if j.mute && errs[1] == nil {
					p.Violate("nil-error-without-all-contributions/"+j.sch.Name, key+": party 1 returned key material although party "+fmt.Sprint(j.n)+" never transmitted", wit)
				}
			}
			if idx%13 == 0 {
				p.Sample(map[string]interface{}{"case": key, "consultations": cc.Consultations()})
			}
		}
	}
}
