package main

// C11 — KeyGen fails cleanly on timeout, cancellation or a vanished peer (built-in BLS and PS backends).

import (
	"context"
	"fmt"
	mrand "math/rand"
	"time"

	"verifharness/common"
)

type c11c struct {
	Sch       scheme
	N, T      int
	Mute      uint16 // party whose transmissions vanish ...
	After     int    // ... from its (After+1)-th send call on (-1: nobody muted)
	WFrom     uint16 // single withheld transmission: sender, its send-call index, destination (0 = none)
	WSeq      int
	WTo       uint16
	CancelAt  uint16 // the context is cancelled inside this party's ...
	CancelSeq int    // ... send call with this index (-1: cancel at quiescence only)
	Seed      int
}

func (c c11c) String() string {
	return fmt.Sprintf("%s n=%d t=%d mute=%d after=%d withhold=%d/%d->%d cancel-in-send=%d/%d seed=%d", c.Sch.Name, c.N, c.T, c.Mute, c.After, c.WFrom, c.WSeq, c.WTo, c.CancelAt, c.CancelSeq, c.Seed)
}

func runC11c(cs c11c, rng *mrand.Rand, scale int) (*drun, bool, bool) {
	var ids []uint16
	for i := 1; i <= cs.N; i++ {
		ids = append(ids, uint16(i))
	}
	d := newDrun(cs.Sch, ids, cs.T, rng)
	hit := false
	d.filter = func(m dmsg, seq, g int) []dmsg {
		if cs.After >= 0 && m.from == cs.Mute && seq >= cs.After {
			hit = true
			return nil
		}
		if cs.WFrom != 0 && m.from == cs.WFrom && seq == cs.WSeq && m.to == cs.WTo {
			hit = true
			return nil
		}
		return []dmsg{m}
	}
	ctx, cancel := context.WithCancel(context.Background())
	if cs.CancelSeq >= 0 {
		d.onSend = func(from uint16, seq int) {
			if from == cs.CancelAt && seq == cs.CancelSeq {
				hit = true
				cancel()
				time.Sleep(300 * time.Microsecond) // the backend's context monitor fires while the party is still inside its send
			}
		}
	}
	ok := d.run(ctx, cancel, ids, time.Duration(scale)*4*time.Second)
	return d, ok, hit
}

func unitC11crypto(e common.Env, p *common.Part) {
	p.Rule = "crash-point enumeration on directly wired BLS and PS key generations: a reference run counts the send calls M_P of every party; then for every party P and every k=0..M_P a run in which P's transmissions vanish from its (k+1)-th send call on; every single (sender, send call, destination) transmission withheld; and for every party V and every k a run in which the context is cancelled INSIDE V's k-th send call (between two of its protocol steps); otherwise the context is cancelled at quiescence (every remaining KeyGen parked on its condition variable, nothing queued); PRNG delivery order, several seeds; oracle: every KeyGen returns within 4 s after the context ended (hang replayed with 5x before it is reported), never panics, and returns nil only with consistent stored data; distinct key = (scheme, n, t, fault, seed); non-trivial when the fault took effect"
	var cases []c11c
	type nt struct{ n, t int }
	for _, sch := range []scheme{{Name: "bls"}, {Name: "ps", MsgLen: 1}} {
		nts := []nt{{3, 2}, {4, 3}}
		if e.Thorough() {
			nts = append(nts, nt{3, 3}, nt{4, 2}, nt{5, 3})
		}
		for _, x := range nts {
			calls := x.n - 1 + 2 // shares to n-1 peers, one commitment broadcast, one reveal broadcast
			seeds := e.Pick(2, 25)
			for s := 0; s < seeds; s++ {
				for pa := 1; pa <= x.n; pa++ {
					for k := 0; k <= calls; k++ {
						cases = append(cases, c11c{Sch: sch, N: x.n, T: x.t, Mute: uint16(pa), After: k, CancelSeq: -1, Seed: s})
						if k < calls {
							cases = append(cases, c11c{Sch: sch, N: x.n, T: x.t, After: -1, CancelAt: uint16(pa), CancelSeq: k, Seed: s})
							// cancel inside a send while another party is mute from the start (a peer that never delivers)
							other := uint16(pa%x.n + 1)
							cases = append(cases, c11c{Sch: sch, N: x.n, T: x.t, Mute: other, After: x.n - 1, CancelAt: uint16(pa), CancelSeq: k, Seed: s})
						}
					}
				}
				if s == 0 {
					for from := 1; from <= x.n; from++ {
						for k := 0; k < calls; k++ {
							for to := 1; to <= x.n; to++ {
								if to == from || (k < x.n-1 && !e.Thorough() && to != (from%x.n)+1 && k != to-1-boolInt(to > from)) {
									continue
								}
								cases = append(cases, c11c{Sch: sch, N: x.n, T: x.t, After: -1, WFrom: uint16(from), WSeq: k, WTo: uint16(to), CancelSeq: -1, Seed: s})
							}
						}
					}
				}
			}
		}
	}
	p.Note("crash_points", len(cases))
	for i, cs := range cases {
		if !e.Mine(i) || p.ViolationCount() >= 3 {
			continue
		}
		p.Begin(cs.String())
		rng := e.Rng("c11c", i)
		d, ok, hit := runC11c(cs, rng, 1)
		if !ok {
			p.Count("watchdog_replays", 1)
			d, ok, hit = runC11c(cs, e.Rng("c11c", i), 5)
		}
		p.Case(cs.String(), hit)
		p.Count("runs", 1)
		if hit {
			p.Count("faults_effective", 1)
		}
		wit := map[string]interface{}{"case": cs}
		switch {
		case len(d.panics) > 0:
			p.Violate("panic/"+cs.Sch.Name, cs.String()+": "+d.panics[0], wit)
		case !ok:
			stuck := []uint16{}
			for _, id := range d.parties {
				d.mu.Lock()
				_, returned := d.errs[id]
				d.mu.Unlock()
				if !returned {
					stuck = append(stuck, id)
				}
			}
			p.Violate("hang/"+cs.Sch.Name, fmt.Sprintf("%s: KeyGen of parties %v had not returned 20 s after the context ended", cs.String(), stuck), wit)
		default:
			var done []uint16
			for _, id := range d.parties {
				if d.errs[id] == nil {
					done = append(done, id)
					p.Count("success_returns", 1)
				} else {
					p.Count("error_returns", 1)
				}
			}
			if len(done) >= 2 {
				if v := consistentPublicMaterial(done, d.outs); v != "" {
					p.Violate("nil-error-with-inconsistent-data/"+cs.Sch.Name, cs.String()+": "+v, wit)
				}
			}
		}
		if i%53 == 0 {
			p.Sample(map[string]interface{}{"case": cs.String(), "errors": fmt.Sprint(d.errs)})
		}
	}
}

func boolInt(b bool) int {
	if b {
		return 1
	}
	return 0
}
