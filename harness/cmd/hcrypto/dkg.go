package main

// Direct wiring of key generators (no orchestrator): a mini network with per-link FIFO queues and PRNG
// delivery order, a filter through which every message passes (Byzantine wrappers, fault injection) and a
// log of SEND/ONMSG events for the ordering oracles.

import (
	"bytes"
	"context"
	"fmt"
	"math/rand"
	"runtime"
	"sort"
	"strconv"
	"strings"
	"sync"
	"sync/atomic"
	"time"

	tss "github.com/IBM/TSS/types"

	"verifharness/common"
)

type dmsg struct {
	from, to uint16
	data     []byte
	bcast    bool
}

type devent struct {
	Kind  string // SEND | ONMSG
	Node  uint16
	Peer  uint16
	Round uint8
	Bcast bool
	Data  []byte // SEND only
}

type countCtx = common.CountCtx

func newCountCtx(parent context.Context, k int64) *countCtx { return common.NewCountCtx(parent, k) }

type drun struct {
	ctxFor  map[uint16]context.Context // per-party context (default: the run's)
	sch     scheme
	parties []uint16
	t       int
	kgs     map[uint16]tss.KeyGenerator
	rng     *rand.Rand
	mu      sync.Mutex
	cond    *sync.Cond
	q       map[[2]uint16][]dmsg
	stopped bool
	log     []devent
	// filter: what `to` really receives for a message `from` emitted (nil result = dropped). seq = per-sender transmission index (0-based), gseq = global.
	filter func(m dmsg, seq, gseq int) []dmsg
	// onSend is called inside the sender's sendMsg, before the message is queued
	onSend    func(from uint16, seq int)
	perSend   map[uint16]int
	gseq      int
	busy      int32
	outs      map[uint16][]byte
	errs      map[uint16]error
	panics    []string
	delivered int64
	gids      map[uint16]uint64
	// noFIFO: any queued message of a link may be delivered next (the backends' OnMsg has no ordering contract)
	noFIFO bool
}

func newDrun(sch scheme, parties []uint16, t int, rng *rand.Rand) *drun {
	d := &drun{sch: sch, parties: append([]uint16{}, parties...), t: t, kgs: map[uint16]tss.KeyGenerator{}, rng: rng, q: map[[2]uint16][]dmsg{},
		gids: map[uint16]uint64{}, perSend: map[uint16]int{}, outs: map[uint16][]byte{}, errs: map[uint16]error{}}
	sort.Slice(d.parties, func(i, j int) bool { return d.parties[i] < d.parties[j] })
	d.cond = sync.NewCond(&d.mu)
	for _, p := range d.parties {
		p := p
		kg := sch.newKG(p)
		d.kgs[p] = kg
		kg.Init(append([]uint16{}, d.parties...), t, func(msg []byte, bcast bool, to uint16) { d.send(p, msg, bcast, to) })
	}
	return d
}

func (d *drun) round(p uint16, msg []byte) uint8 {
	r, _, err := d.kgs[p].ClassifyMsg(msg)
	if err != nil {
		return 0
	}
	return r
}

func (d *drun) send(from uint16, msg []byte, bcast bool, to uint16) {
	d.mu.Lock()
	seq := d.perSend[from]
	d.perSend[from]++
	hook := d.onSend
	d.mu.Unlock()
	if hook != nil {
		hook(from, seq)
	}
	var dsts []uint16
	if bcast {
		for _, p := range d.parties {
			if p != from {
				dsts = append(dsts, p)
			}
		}
	} else {
		dsts = []uint16{to}
	}
	d.mu.Lock()
	defer d.mu.Unlock()
	d.log = append(d.log, devent{Kind: "SEND", Node: from, Round: d.round(from, msg), Bcast: bcast, Data: append([]byte{}, msg...)})
	for _, dst := range dsts {
		m := dmsg{from: from, to: dst, data: append([]byte{}, msg...), bcast: bcast}
		g := d.gseq
		d.gseq++
		outs := []dmsg{m}
		if d.filter != nil {
			outs = d.filter(m, seq, g)
		}
		for _, o := range outs {
			k := [2]uint16{o.from, o.to}
			d.q[k] = append(d.q[k], o)
		}
	}
	d.cond.Broadcast()
}

// inject queues a message outside any sendMsg call (replays, out-of-phase traffic).
func (d *drun) inject(m dmsg) {
	d.mu.Lock()
	k := [2]uint16{m.from, m.to}
	d.q[k] = append(d.q[k], m)
	d.cond.Broadcast()
	d.mu.Unlock()
}

func (d *drun) deliverLoop() {
	for {
		d.mu.Lock()
		var keys [][2]uint16
		for {
			keys = keys[:0]
			for k, v := range d.q {
				if len(v) > 0 {
					keys = append(keys, k)
				}
			}
			if d.stopped || len(keys) > 0 {
				break
			}
			d.cond.Wait()
		}
		if d.stopped {
			d.mu.Unlock()
			return
		}
		sort.Slice(keys, func(i, j int) bool {
			if keys[i][0] != keys[j][0] {
				return keys[i][0] < keys[j][0]
			}
			return keys[i][1] < keys[j][1]
		})
		k := keys[d.rng.Intn(len(keys))]
		pos := 0
		if d.noFIFO {
			pos = d.rng.Intn(len(d.q[k]))
		}
		m := d.q[k][pos]
		d.q[k] = append(d.q[k][:pos:pos], d.q[k][pos+1:]...)
		kg := d.kgs[m.to]
		if kg != nil {
			d.log = append(d.log, devent{Kind: "ONMSG", Node: m.to, Peer: m.from, Round: d.round(m.to, m.data), Bcast: m.bcast})
		}
		atomic.StoreInt32(&d.busy, 1)
		d.mu.Unlock()
		if kg != nil {
			func() {
				defer func() {
					if x := recover(); x != nil {
						d.mu.Lock()
						d.panics = append(d.panics, fmt.Sprintf("OnMsg at party %d of a message from %d panicked: %v", m.to, m.from, x))
						d.mu.Unlock()
					}
				}()
				// the orchestrator classifies before it hands over: a message the classifier rejects never reaches OnMsg
				if _, _, err := kg.ClassifyMsg(m.data); err == nil {
					kg.OnMsg(m.data, m.from, m.bcast)
				}
			}()
		}
		atomic.AddInt64(&d.delivered, 1)
		atomic.StoreInt32(&d.busy, 0)
	}
}

func (d *drun) pending() int {
	d.mu.Lock()
	defer d.mu.Unlock()
	n := 0
	for _, v := range d.q {
		n += len(v)
	}
	return n
}

func (d *drun) stop() {
	d.mu.Lock()
	d.stopped = true
	d.cond.Broadcast()
	d.mu.Unlock()
}

// run starts KeyGen at every party in `runners` and the delivery loop. The context is cancelled when the
// network is drained and nothing moves (logical time) unless every runner returned before; maxWait is the watchdog.
// Returns false when some KeyGen had not returned maxWait after the cancellation (hang).
func (d *drun) run(ctx context.Context, cancel context.CancelFunc, runners []uint16, maxWait time.Duration) bool {
	go d.deliverLoop()
	defer d.stop()
	var wg sync.WaitGroup
	var returned int32
	for _, p := range runners {
		p := p
		wg.Add(1)
		go func() {
			defer wg.Done()
			defer atomic.AddInt32(&returned, 1)
			d.mu.Lock()
			d.gids[p] = curGID()
			d.mu.Unlock()
			defer func() {
				d.mu.Lock()
				delete(d.gids, p)
				d.mu.Unlock()
			}()
			defer func() {
				if x := recover(); x != nil {
					d.mu.Lock()
					d.panics = append(d.panics, fmt.Sprintf("KeyGen of party %d panicked: %v", p, x))
					d.mu.Unlock()
				}
			}()
			pctx := ctx
			if c, ok := d.ctxFor[p]; ok {
				pctx = c
			}
			out, err := d.kgs[p].KeyGen(pctx)
			d.mu.Lock()
			d.outs[p] = out
			d.errs[p] = err
			d.mu.Unlock()
		}()
	}
	// logical time: the session is over when nothing is queued, no delivery is in progress and every KeyGen that has not
	// returned is parked in sync.Cond.Wait (goroutine wait state), i.e. waits for a message that will never come
	deadline := time.Now().Add(maxWait)
	quiet := 0
	for time.Now().Before(deadline) && int(atomic.LoadInt32(&returned)) < len(runners) {
		// every runner must have entered the picture first: on a loaded machine the goroutines above may not have started yet,
		// and "nobody is running, nothing is queued" would then be mistaken for the end of the session
		d.mu.Lock()
		registered := len(d.gids)
		d.mu.Unlock()
		if registered+int(atomic.LoadInt32(&returned)) < len(runners) {
			quiet = 0
			time.Sleep(300 * time.Microsecond)
			continue
		}
		if d.pending() == 0 && atomic.LoadInt32(&d.busy) == 0 && d.allParked() {
			quiet++
			if quiet >= 3 {
				break
			}
		} else {
			quiet = 0
		}
		time.Sleep(300 * time.Microsecond)
	}
	cancel()
	done := make(chan struct{})
	go func() { wg.Wait(); close(done) }()
	select {
	case <-done:
		return true
	case <-time.After(maxWait):
		return false
	}
}

// revealBeforeCommitments: an honest party sent its highest-round (reveal) message before it had received a
// round-2 (commitment) message from every other participant.
func (d *drun) revealBeforeCommitments(honest map[uint16]bool) (uint16, bool) {
	d.mu.Lock()
	defer d.mu.Unlock()
	got := map[uint16]map[uint16]bool{}
	for _, e := range d.log {
		switch {
		case e.Kind == "ONMSG" && e.Round == 2:
			if got[e.Node] == nil {
				got[e.Node] = map[uint16]bool{}
			}
			got[e.Node][e.Peer] = true
		case e.Kind == "SEND" && e.Round == 3 && honest[e.Node]:
			if len(got[e.Node]) < len(d.parties)-1 {
				return e.Node, true
			}
		}
	}
	return 0, false
}

// keyInEarlierMessage: content monitor for the same clause. The bytes an honest party finally reveals (its round-3 body, cut into
// 32-byte windows) must not occur inside anything it transmitted before it held the commitments of all other participants.
func (d *drun) keyInEarlierMessage(honest map[uint16]bool) (uint16, uint8, int, bool) {
	d.mu.Lock()
	defer d.mu.Unlock()
	reveal := map[uint16][]byte{}
	for _, e := range d.log {
		if e.Kind == "SEND" && e.Round == 3 && honest[e.Node] && reveal[e.Node] == nil && len(e.Data) > 33 {
			reveal[e.Node] = e.Data[1:]
		}
	}
	got := map[uint16]map[uint16]bool{}
	for _, e := range d.log {
		switch {
		case e.Kind == "ONMSG" && e.Round == 2:
			if got[e.Node] == nil {
				got[e.Node] = map[uint16]bool{}
			}
			got[e.Node][e.Peer] = true
		case e.Kind == "SEND" && honest[e.Node] && e.Round != 3 && len(got[e.Node]) < len(d.parties)-1:
			body := reveal[e.Node]
			for off := 0; off+32 <= len(body); off += 32 {
				if bytes.Contains(e.Data, body[off:off+32]) {
					return e.Node, e.Round, off, true
				}
			}
		}
	}
	return 0, 0, 0, false
}

func curGID() uint64 {
	var buf [64]byte
	n := runtime.Stack(buf[:], false)
	f := strings.Fields(strings.TrimPrefix(string(buf[:n]), "goroutine "))
	id, _ := strconv.ParseUint(f[0], 10, 64)
	return id
}

// allParked: every KeyGen goroutine that has not returned waits on a condition variable.
func (d *drun) allParked() bool {
	d.mu.Lock()
	var ids []uint64
	for _, g := range d.gids {
		ids = append(ids, g)
	}
	d.mu.Unlock()
	if len(ids) == 0 {
		return true
	}
	buf := make([]byte, 1<<17)
	n := runtime.Stack(buf, true)
	for n == len(buf) {
		buf = make([]byte, 2*len(buf))
		n = runtime.Stack(buf, true)
	}
	for _, g := range ids {
		key := []byte(fmt.Sprintf("goroutine %d [", g))
		i := bytes.Index(buf[:n], key)
		if i < 0 {
			continue
		}
		line := buf[i:n]
		if j := bytes.IndexByte(line, '\n'); j > 0 {
			line = line[:j]
		}
		if !bytes.Contains(line, []byte("sync.Cond.Wait")) {
			return false
		}
	}
	return true
}
