package main

// C08 — threshold blind PS signatures: complete for every message vector and subset.

import (
	"context"
	"fmt"
	math "github.com/IBM/mathlib"
	mrand "math/rand"
	"sort"
	"sync"
	"time"

	"github.com/IBM/TSS/mpc/ps"
	tss "github.com/IBM/TSS/types"

	"verifharness/cluster"
	"verifharness/common"
	"verifharness/simnet"
)

func psIDSets(n int, rng *mrand.Rand) [][]uint16 {
	contiguous := make([]uint16, n)
	for i := range contiguous {
		contiguous[i] = uint16(i + 1)
	}
	gap := append([]uint16{}, []uint16{1, 2, 4, 7, 8, 13}[:n]...)
	tens := make([]uint16, n)
	for i := range tens {
		tens[i] = uint16((i + 1) * 10)
	}
	used := map[uint16]bool{}
	var large []uint16
	for len(large) < n {
		v := uint16(rng.Intn(65536))
		if !used[v] {
			used[v] = true
			large = append(large, v)
		}
	}
	sort.Slice(large, func(i, j int) bool { return large[i] < large[j] })
	return [][]uint16{contiguous, gap, tens, large}
}

func msgVectors(L int, rng *mrand.Rand) [][][]byte {
	mk := func(f func(i int) []byte) [][]byte {
		v := make([][]byte, L)
		for i := range v {
			v[i] = f(i)
		}
		return v
	}
	big := make([]byte, 64*1024)
	rng.Read(big)
	return [][][]byte{
		mk(func(i int) []byte { return []byte{} }),                                          // all empty
		mk(func(i int) []byte { return []byte("same") }),                                    // equal entries
		mk(func(i int) []byte { b := make([]byte, 1+rng.Intn(40)); rng.Read(b); return b }), // random
		mk(func(i int) []byte {
			if i == 0 {
				return big
			}
			return []byte{byte(i)}
		}),
	}
}

// psDKG runs a PS key generation: directly wired, or through real schemes on the simulated network.
func psDKG(ids []uint16, t, L int, rng *mrand.Rand, orch string, polIdx int) (map[uint16][]byte, string) {
	sch := scheme{Name: "ps", MsgLen: L}
	if orch == "" || orch == "direct-no-fifo" {
		d := newDrun(sch, ids, t, rng)
		d.noFIFO = orch == "direct-no-fifo"
		ctx, cancel := context.WithTimeout(context.Background(), 120*time.Second)
		ok := d.run(ctx, cancel, ids, 120*time.Second)
		if len(d.panics) > 0 {
			return nil, d.panics[0]
		}
		if !ok {
			return nil, "KeyGen did not return"
		}
		for _, id := range ids {
			if d.errs[id] != nil {
				return nil, fmt.Sprintf("all-honest key generation failed at party %d: %v", id, d.errs[id])
			}
		}
		return d.outs, ""
	}
	m := map[uint16]uint16{}
	for _, i := range ids {
		m[i] = i
	}
	pols := []simnet.Policy{simnet.Uniform, simnet.PreferNewest, simnet.Burst(), simnet.ByReceiver, simnet.StarveSender(ids[0])}
	c := cluster.New(cluster.Config{Map: m, Silent: orch == "silent", Threshold: t - 1, PermutePicks: polIdx%2 == 0,
		KGF: func(node uint16) tss.KeyGenerator { return sch.newKG(node) },
		SF:  func(node uint16) tss.Signer { return sch.newSigner(node) }})
	go c.Net.RunRandom(rng, pols[polIdx%len(pols)])
	defer c.Net.Stop()
	if orch == "silent" {
		c.SetPick(tss.DkgTopicName, ids)
	}
	ctx, cancel := context.WithTimeout(context.Background(), 120*time.Second)
	defer cancel()
	stored := map[uint16][]byte{}
	errs := map[uint16]error{}
	var mu sync.Mutex
	var wg sync.WaitGroup
	for _, u := range ids {
		u := u
		wg.Add(1)
		go func() {
			defer wg.Done()
			out, err := c.Schemes[u].KeyGen(ctx, len(ids), t)
			mu.Lock()
			stored[u], errs[u] = out, err
			mu.Unlock()
		}()
	}
	wg.Wait()
	for _, u := range ids {
		if errs[u] != nil {
			return nil, fmt.Sprintf("all-honest key generation (%s) failed at node %d: %v", orch, u, errs[u])
		}
	}
	return stored, ""
}

func unitC08(e common.Env, p *common.Part) {
	p.Rule = "PS key generation (directly wired with PRNG delivery order, per-link FIFO or - every sixth configuration - any queued message next; every third configuration through real Loud/Silent schemes) for 2<=t<=n<=5 (thorough 6), party identifier sets 1..n, {1,2,4,..}, {10,20,..} and PRNG 16-bit, message length L=1..4, vectors {all entries empty, all equal, random, one 64 KiB entry}; for EVERY signer subset of size >= t, in PRNG order (every second configuration with one long-lived signer object per party serving all requests, else a fresh one per request): TPS.Sign of the blinded request from the stored share, Prover.UnBlind, ProveKnowledgeOfSignature, Verifier.Verify must all succeed, and all parties report identical public material; plus committees of (21,2), (24,3), (30,2) parties (dealt shares) whose proofs are built by everybody, everybody but the first / last, halves, a middle window and PRNG sets; plus three requests through ONE Prover and ONE Verifier object on which Init is called again before each request; plus one in-memory request value (ps.Blind) handed to three signers (ps.SignBlindSignature) twice over: all accept, the request's serialisation is unchanged; distinct key = (n, t, L, id set, vector, subset); non-trivial when the proof was built and verified"
	type cfg struct {
		n, t, L int
		ids     []uint16
		orch    string
	}
	var cfgs []cfg
	k := 0
	for n := 2; n <= e.Pick(5, 6); n++ {
		for t := 2; t <= n; t++ {
			rng := e.Rng("c08cfg", n, t)
			for si, ids := range psIDSets(n, rng) {
				if !e.Thorough() && n == 5 && si%2 == 0 {
					continue
				}
				orch := ""
				if k%3 == 0 && k%2 == 1 {
					orch = "direct-no-fifo"
				}
				if k%3 == 1 {
					orch = "loud"
				} else if k%6 == 5 {
					orch = "silent"
				}
				cfgs = append(cfgs, cfg{n, t, 1 + (k % 4), ids, orch})
				k++
			}
		}
	}
	for i, c := range cfgs {
		if !e.Mine(i) || p.ViolationCount() >= 3 {
			continue
		}
		rng := e.Rng("c08", i)
		key := fmt.Sprintf("ps n=%d t=%d L=%d ids=%v wiring=%q", c.n, c.t, c.L, c.ids, c.orch)
		p.Begin(key)
		stored, viol := psDKG(c.ids, c.t, c.L, rng, c.orch, i)
		if viol == "" {
			viol = consistentPublicMaterial(c.ids, stored)
		}
		p.Count("keygens", 1)
		if viol != "" {
			p.Case(key, false)
			p.Violate("ps-keygen/"+classify(viol), key+": "+viol, map[string]interface{}{"n": c.n, "t": c.t, "L": c.L, "ids": c.ids})
			continue
		}
		vecs := msgVectors(c.L, rng)
		if !e.Thorough() && c.n >= 5 {
			vecs = append(vecs[:1], vecs[1+i%3])
		}
		proofs := 0
		// every second configuration: one long-lived signer object per party serves all requests of the configuration
		if i%2 == 0 {
			psSignerCache = map[uint16]tss.Signer{}
		}
		for vi, vec := range vecs {
			for _, sub := range subsets(c.ids, c.t) {
				order := append([]uint16{}, sub...)
				rng.Shuffle(len(order), func(a, b int) { order[a], order[b] = order[b], order[a] })
				err := jointPS(c.ids, c.t, c.L, stored, order, vec, c.ids[rng.Intn(len(c.ids))])
				p.Case(fmt.Sprintf("%s vec=%d subset=%v", key, vi, sub), err == nil)
				if err != nil {
					p.Violate("ps-completeness", fmt.Sprintf("%s: message vector #%d, signers %v (in this order): %v", key, vi, order, err), map[string]interface{}{"n": c.n, "t": c.t, "L": c.L, "ids": c.ids, "signers": order, "vector": vi})
					break
				}
				proofs++
			}
			if p.ViolationCount() >= 3 {
				break
			}
		}
		psSignerCache = nil
		// LONG-LIVED Prover and Verifier objects: Init is called on the same objects again before every request (the committee's
		// key reloaded, as a client does after a key-rotation notice), three requests in a row
		if p.ViolationCount() == 0 {
			if err := psReinitFlow(c.ids, c.t, c.L, stored, rng); err != nil {
				p.Violate("ps-completeness/re-initialised-prover-or-verifier", fmt.Sprintf("%s: %v", key, err), map[string]interface{}{"n": c.n, "t": c.t, "L": c.L, "ids": c.ids})
			} else {
				p.Count("requests_through_reinitialised_objects", 3)
			}
		}
		p.Count("proofs_verified", int64(proofs))
		if i%5 == 0 {
			p.Sample(map[string]interface{}{"n": c.n, "t": c.t, "L": c.L, "ids": c.ids, "wiring": c.orch, "proofs_verified": proofs})
		}
	}
	// large committees (shares dealt with the exported SSS.Gen, as in C18) and LARGE signer sets: everybody, everybody but the first
	// / the last, the upper and the lower half, a middle window, PRNG sets - products over many evaluation points
	for ci, nt := range [][2]int{{21, 2}, {24, 3}, {30, 2}} {
		if !e.Mine(5000+ci) || p.ViolationCount() >= 3 {
			continue
		}
		n, t, L := nt[0], nt[1], 1+ci%2
		key := fmt.Sprintf("ps large committee n=%d t=%d L=%d", n, t, L)
		p.Begin(key)
		stored, parties, err := dealPS(n, t, L)
		if err != nil {
			p.Inconcl(key + ": dealing failed: " + err.Error())
			continue
		}
		rng := e.Rng("c08large", n, t)
		sets := [][]uint16{parties, parties[1:], parties[:n-1], parties[n/2:], parties[:n/2], parties[n/4 : n/4+n/2], parties[n-t:], parties[:t]}
		for k := 0; k < e.Pick(3, 20); k++ {
			perm := rng.Perm(n)
			var sub []uint16
			for _, x := range perm[:t+rng.Intn(n-t+1)] {
				sub = append(sub, parties[x])
			}
			sets = append(sets, sub)
		}
		msg := make([][]byte, L)
		for i := range msg {
			msg[i] = []byte(fmt.Sprintf("large-%d", i))
		}
		ok := 0
		for _, sub := range sets {
			order := append([]uint16{}, sub...)
			rng.Shuffle(len(order), func(a, b int) { order[a], order[b] = order[b], order[a] })
			err := jointPS(parties, t, L, stored, order, msg, parties[rng.Intn(n)])
			p.Case(fmt.Sprintf("%s %d signers", key, len(sub)), err == nil)
			if err != nil {
				srt := append([]uint16{}, sub...)
				sort.Slice(srt, func(a, b int) bool { return srt[a] < srt[b] })
				p.Violate("ps-completeness/large-signer-set", fmt.Sprintf("%s: the proof built from the %d signers %v does not verify: %v", key, len(sub), srt, err), map[string]interface{}{"n": n, "t": t, "L": L, "signers": srt})
				break
			}
			ok++
		}
		p.Count("large_committee_proofs_verified", int64(ok))
	}
	// the exported in-memory API: ONE request value handed to several signers one after the other (every signer must accept it,
	// and again when the round is repeated), and its serialisation taken after the signatures must still be accepted by TPS.Sign
	if e.Mine(0) {
		for L := 1; L <= 4; L++ {
			key := fmt.Sprintf("in-memory request, L=%d, three signers", L)
			p.Begin(key)
			pp := ps.Setup(curve, L)
			m := make([]*math.Zr, L)
			for i := range m {
				m[i] = curve.HashToZr([]byte{byte(i), byte(L)})
			}
			req, _ := ps.Blind(&pp, curve, m)
			before := req.Bytes()
			ok := true
			for round := 0; round < 2 && ok; round++ {
				for sg := 0; sg < 3; sg++ {
					sk, _ := ps.LocalKeyGen(pp)
					if _, err := ps.SignBlindSignature(&pp, req, sk); err != nil {
						p.Violate("ps-completeness/in-memory-request", fmt.Sprintf("%s: signer #%d (round %d) refuses a request that Blind produced and that other signers signed before: %v", key, sg, round, err), nil)
						ok = false
						break
					}
					p.Count("in_memory_signatures", 1)
				}
			}
			if ok && !sameBytes(before, req.Bytes()) {
				p.Violate("ps-completeness/in-memory-request", key+": signing changed the request (its serialisation differs afterwards), so signers that receive it later see another request", nil)
			}
			p.Case(key, ok)
		}
	}
}

// psReinitFlow: one Prover and one Verifier object serve three requests, Init being called on them again before each.
func psReinitFlow(ids []uint16, t, L int, stored map[uint16][]byte, rng *mrand.Rand) (err error) {
	defer func() {
		if x := recover(); x != nil {
			err = fmt.Errorf("the flow through a Prover / Verifier object that was initialised again panicked: %v", x)
		}
	}()
	tpk, e0 := psThresholdPK(ids, t, L, stored[ids[0]], ids[0])
	if e0 != nil {
		return fmt.Errorf("ThresholdPK: %v", e0)
	}
	pr := &ps.Prover{Logger: common.Nolog{}}
	var v ps.Verifier
	for round := 0; round < 3; round++ {
		if err := pr.Init(curve, L, tpk, append([]uint16{}, ids...)); err != nil {
			return fmt.Errorf("Prover.Init #%d on the same object: %v", round+1, err)
		}
		if err := v.Init(curve, L, tpk); err != nil {
			return fmt.Errorf("Verifier.Init #%d on the same object: %v", round+1, err)
		}
		msg := make([][]byte, L)
		for i := range msg {
			msg[i] = []byte(fmt.Sprintf("reinit-%d-%d", round, i))
		}
		req, secret := pr.Blind(msg)
		perm := rng.Perm(len(ids))[:t]
		var signers []uint16
		var wits []ps.SignatureWitness
		for _, x := range perm {
			sgn := ids[x]
			sg, err := (scheme{Name: "ps", MsgLen: L}).signerFrom(sgn, ids, t, stored[sgn])
			if err != nil {
				return fmt.Errorf("SetShareData(%d): %v", sgn, err)
			}
			sig, err := sg.Sign(context.Background(), req.Bytes())
			if err != nil {
				return fmt.Errorf("request #%d through a Prover initialised %d times: TPS.Sign(%d): %v", round+1, round+1, sgn, err)
			}
			w, err := pr.UnBlind(sgn, sig, &secret)
			if err != nil {
				return fmt.Errorf("request #%d: UnBlind(%d): %v", round+1, sgn, err)
			}
			signers = append(signers, sgn)
			wits = append(wits, w)
		}
		proof := pr.ProveKnowledgeOfSignature(&secret, signers, wits)
		if err := v.Verify(proof.Bytes()); err != nil {
			return fmt.Errorf("request #%d (Prover and Verifier objects initialised %d times with the same key): the proof does not verify: %v", round+1, round+1, err)
		}
	}
	return nil
}
