package main

// Edits of protocol messages of the built-in key generations. A message is recognised through the
// backend's own ClassifyMsg (round 1 point-to-point = share, round 2 = commitment, round 3 = reveal);
// the only layout assumed is "one tag byte, then the body" (BLS share body = scalar; PS share / key body =
// asn.1 ps.XYs, an exported type). A format self-check compares a re-encoded unmodified message with the original.

import (
	"encoding/asn1"

	"github.com/IBM/TSS/mpc/ps"
	math "github.com/IBM/mathlib"
)

func addDelta(z *math.Zr, delta int64) *math.Zr {
	return curve.ModAdd(z, curve.NewZrFromInt(delta), curve.GroupOrder)
}

// tweakShare adds delta to one scalar of a share message. which = -1: x (the only scalar for BLS); j >= 0: y_j (PS).
func (s scheme) tweakShare(msg []byte, which int, delta int64) ([]byte, bool) {
	if len(msg) < 2 {
		return nil, false
	}
	if s.Name == "bls" {
		z := curve.NewZrFromBytes(msg[1:])
		out := append([]byte{msg[0]}, addDelta(z, delta).Bytes()...)
		return out, true
	}
	var xys ps.XYs
	if _, err := asn1.Unmarshal(msg[1:], &xys); err != nil {
		return nil, false
	}
	if which < 0 {
		xys.X = addDelta(curve.NewZrFromBytes(xys.X), delta).Bytes()
	} else {
		if which >= len(xys.Ys) {
			return nil, false
		}
		xys.Ys[which] = addDelta(curve.NewZrFromBytes(xys.Ys[which]), delta).Bytes()
	}
	b, err := asn1.Marshal(xys)
	if err != nil {
		return nil, false
	}
	return append([]byte{msg[0]}, b...), true
}

// selfCheckShare: tweaking by 0 must reproduce the message byte for byte, else the assumed layout is wrong.
func (s scheme) selfCheckShare(msg []byte) bool {
	out, ok := s.tweakShare(msg, -1, 0)
	return ok && sameBytes(out, msg)
}

// dropLastY removes the last y element of a PS share or key message (malformed: fewer elements).
func dropLastY(msg []byte) ([]byte, bool) {
	var xys ps.XYs
	if len(msg) < 2 {
		return nil, false
	}
	if _, err := asn1.Unmarshal(msg[1:], &xys); err != nil || len(xys.Ys) == 0 {
		return nil, false
	}
	xys.Ys = xys.Ys[:len(xys.Ys)-1]
	b, err := asn1.Marshal(xys)
	if err != nil {
		return nil, false
	}
	return append([]byte{msg[0]}, b...), true
}

func flipByte(msg []byte, at int) []byte {
	out := append([]byte{}, msg...)
	if len(out) == 0 {
		return out
	}
	if at < 0 {
		at = len(out) + at
	}
	if at < 0 || at >= len(out) {
		at = len(out) - 1
	}
	out[at] ^= 0x01
	return out
}

// tweakKey turns a reveal message into the reveal of ANOTHER valid key: the group generator is added to the key (BLS: the G2 element;
// PS: the X component). The result is a well-formed key that is off whatever polynomial the genuine one is on.
func (s scheme) tweakKey(msg []byte) ([]byte, bool) {
	if len(msg) < 2 {
		return nil, false
	}
	if s.Name == "bls" {
		g, err := curve.NewG2FromBytes(msg[1:])
		if err != nil {
			return nil, false
		}
		g.Add(curve.GenG2)
		return append([]byte{msg[0]}, g.Bytes()...), true
	}
	var xys ps.XYs
	if _, err := asn1.Unmarshal(msg[1:], &xys); err != nil {
		return nil, false
	}
	g, err := curve.NewG2FromBytes(xys.X)
	if err != nil {
		return nil, false
	}
	g.Add(curve.GenG2)
	xys.X = g.Bytes()
	b, err := asn1.Marshal(xys)
	if err != nil {
		return nil, false
	}
	return append([]byte{msg[0]}, b...), true
}
