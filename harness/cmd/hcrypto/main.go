// hcrypto drives the engines that need the built-in schemes (mpc/bls, mpc/ps).
package main

import "verifharness/common"

var units = map[string]common.UnitFunc{
	"c01direct": unitC01direct,
	"c01orch":   unitC01orch,
	"c10crypto": unitC10crypto,
	"c20crypto": unitC20crypto,
	"c13crypto": unitC13crypto,
	"c05":       unitC05,
	"c05orch":   unitC05orch,
	"c09":       unitC09,
	"c11crypto": unitC11crypto,
	"c11orch":   unitC11orch,
	"c11sign":   unitC11sign,
	"c11cctx":   unitC11cctx,
	"c08":       unitC08,
	"c18deal":   unitC18deal,
	"c18dkg":    unitC18dkg,
	"c18ctx":    unitC18ctx,
}

func main() { common.ChildMain(units) }
