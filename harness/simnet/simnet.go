// Package simnet is the simulated network all full-stack engines run on. It owns every in-flight
// message, keeps every sender->receiver link FIFO, stamps the true origin as Source, and is the only
// place where the delivery schedule is chosen (stepped / random / concurrent). Every transmission and
// delivery is logged with a global sequence number.
package simnet

import (
	"bytes"
	"crypto/sha256"
	"encoding/hex"
	"fmt"
	"math/rand"
	"sort"
	"sync"
	"sync/atomic"

	tss "github.com/IBM/TSS/types"
)

type Link struct{ Src, Dst uint16 }

func (l Link) String() string { return fmt.Sprintf("%d>%d", l.Src, l.Dst) }

type Handler interface {
	HandleMessage(*tss.IncMessage)
}

type HandlerFunc func(*tss.IncMessage)

func (f HandlerFunc) HandleMessage(m *tss.IncMessage) { f(m) }

// Packet is one message in flight on a link.
type Packet struct {
	ID    uint64 // global send sequence number
	Src   uint16
	Dst   uint16
	Type  uint8
	Topic []byte
	Data  []byte
	Tag   string // set by injectors ("dup", "replay", "forged", ...)
}

// Event kinds
const (
	EvSend    = "SEND"
	EvDeliver = "DELIVER"
	EvDrop    = "DROP"
	EvInit    = "INIT"
	EvOnMsg   = "ONMSG"
	EvCall    = "CALL"
	EvReturn  = "RETURN"
	EvNote    = "NOTE"
)

type Event struct {
	Seq     uint64   `json:"seq"`
	Kind    string   `json:"k"`
	Node    uint16   `json:"node"`           // where it happened (sender for SEND, receiver for DELIVER/ONMSG)
	Peer    uint16   `json:"peer,omitempty"` // other side (dst for a per-link SEND record, src for DELIVER, from for ONMSG)
	Dsts    []uint16 `json:"dsts,omitempty"`
	Type    uint8    `json:"type,omitempty"`
	Topic   string   `json:"topic,omitempty"` // hex prefix
	Data    []byte   `json:"data,omitempty"`
	Bcast   bool     `json:"bcast,omitempty"`
	Parties []uint16 `json:"parties,omitempty"`
	Pkt     uint64   `json:"pkt,omitempty"`
	Text    string   `json:"text,omitempty"`
	Err     string   `json:"err,omitempty"`
}

// Outgoing is what an interceptor returns for one destination of a transmission.
type Outgoing struct {
	Dst   uint16
	Type  uint8
	Topic []byte
	Data  []byte
	Tag   string
}

// Interceptor sees every transmission of a node (after it is logged) and decides what really enters
// the network. nil = pass through unchanged.
type Interceptor func(n *Net, src uint16, typ uint8, topic, data []byte, dsts []uint16) []Outgoing

type Net struct {
	mu    sync.Mutex
	cond  *sync.Cond
	q     map[Link][]*Packet
	nodes map[uint16]Handler
	log   []Event
	seq   uint64
	stop  bool

	intercept map[uint16]Interceptor
	// KeepData: keep payload bytes in the event log (default true); large runs may switch it off.
	KeepData bool
	// delivery-order fingerprint per receiver
	order              map[uint16][]byte
	inflightDeliveries int32
	// concurrent mode
	concurrent  bool
	links       map[Link]chan *Packet
	Jitter      func(l Link) // called by a link dispatcher before each delivery in concurrent mode
	wg          sync.WaitGroup
	delivered   int64
	sent        int64
	closedLinks int
	done        chan struct{}
}

func New() *Net {
	n := &Net{q: map[Link][]*Packet{}, nodes: map[uint16]Handler{}, intercept: map[uint16]Interceptor{}, KeepData: true,
		order: map[uint16][]byte{}, links: map[Link]chan *Packet{}, done: make(chan struct{})}
	n.cond = sync.NewCond(&n.mu)
	return n
}

func (n *Net) Attach(id uint16, h Handler) {
	n.mu.Lock()
	n.nodes[id] = h
	n.mu.Unlock()
}

func (n *Net) Detach(id uint16) {
	n.mu.Lock()
	delete(n.nodes, id)
	n.mu.Unlock()
}

func (n *Net) SetInterceptor(id uint16, f Interceptor) {
	n.mu.Lock()
	n.intercept[id] = f
	n.mu.Unlock()
}

// Record appends an event to the log (used by backends and drivers as well).
func (n *Net) Record(e Event) uint64 {
	n.mu.Lock()
	defer n.mu.Unlock()
	return n.recordLocked(e)
}

func (n *Net) recordLocked(e Event) uint64 {
	n.seq++
	e.Seq = n.seq
	if !n.KeepData {
		e.Data = nil
	}
	n.log = append(n.log, e)
	return e.Seq
}

func TopicHex(t []byte) string {
	if len(t) > 6 {
		t = t[:6]
	}
	return hex.EncodeToString(t)
}

// SendFunc is the `send` function handed to the scheme of node src.
func (n *Net) SendFunc(src uint16) func(msgType uint8, topic []byte, msg []byte, to ...uint16) {
	return func(msgType uint8, topic []byte, msg []byte, to ...uint16) {
		data := append([]byte{}, msg...)
		tp := append([]byte{}, topic...)
		dsts := append([]uint16{}, to...)
		n.mu.Lock()
		n.recordLocked(Event{Kind: EvSend, Node: src, Dsts: dsts, Type: msgType, Topic: TopicHex(tp), Data: data})
		ic := n.intercept[src]
		n.mu.Unlock()
		var outs []Outgoing
		if ic != nil {
			outs = ic(n, src, msgType, tp, data, dsts)
		} else {
			for _, d := range dsts {
				outs = append(outs, Outgoing{Dst: d, Type: msgType, Topic: tp, Data: data})
			}
		}
		for _, o := range outs {
			n.Inject(src, o)
		}
	}
}

// Inject puts a packet on the link src->o.Dst (bypassing interceptors).
func (n *Net) Inject(src uint16, o Outgoing) {
	n.mu.Lock()
	n.seq++
	p := &Packet{ID: n.seq, Src: src, Dst: o.Dst, Type: o.Type, Topic: append([]byte{}, o.Topic...), Data: append([]byte{}, o.Data...), Tag: o.Tag}
	atomic.AddInt64(&n.sent, 1)
	l := Link{src, o.Dst}
	if n.concurrent {
		if n.stop {
			n.mu.Unlock()
			return
		}
		ch := n.linkChanLocked(l)
		n.mu.Unlock()
		select {
		case ch <- p:
		case <-n.done:
		}
		return
	}
	n.q[l] = append(n.q[l], p)
	n.cond.Broadcast()
	n.mu.Unlock()
}

// Enabled lists the links with a deliverable head, in a deterministic order.
func (n *Net) Enabled() []Link {
	n.mu.Lock()
	defer n.mu.Unlock()
	return n.enabledLocked()
}

func (n *Net) enabledLocked() []Link {
	var en []Link
	for l, v := range n.q {
		if len(v) > 0 {
			en = append(en, l)
		}
	}
	sort.Slice(en, func(i, j int) bool {
		if en[i].Src != en[j].Src {
			return en[i].Src < en[j].Src
		}
		return en[i].Dst < en[j].Dst
	})
	return en
}

// Head returns the packet at the head of a link without removing it.
func (n *Net) Head(l Link) *Packet {
	n.mu.Lock()
	defer n.mu.Unlock()
	if len(n.q[l]) == 0 {
		return nil
	}
	return n.q[l][0]
}

// Pending returns the number of packets queued on all links.
func (n *Net) Pending() int {
	n.mu.Lock()
	defer n.mu.Unlock()
	c := 0
	for _, v := range n.q {
		c += len(v)
	}
	return c
}

// Step delivers the head of link l synchronously (the caller's goroutine runs HandleMessage).
func (n *Net) Step(l Link) bool {
	n.mu.Lock()
	if len(n.q[l]) == 0 {
		n.mu.Unlock()
		return false
	}
	p := n.q[l][0]
	n.q[l] = n.q[l][1:]
	h := n.nodes[l.Dst]
	n.mu.Unlock()
	n.deliver(p, h)
	return true
}

// DropHead removes the head of a link without delivering it.
func (n *Net) DropHead(l Link) {
	n.mu.Lock()
	if len(n.q[l]) > 0 {
		p := n.q[l][0]
		n.q[l] = n.q[l][1:]
		n.recordLocked(Event{Kind: EvDrop, Node: p.Dst, Peer: p.Src, Pkt: p.ID})
	}
	n.mu.Unlock()
}

func (n *Net) deliver(p *Packet, h Handler) {
	n.mu.Lock()
	if h == nil {
		n.recordLocked(Event{Kind: EvDrop, Node: p.Dst, Peer: p.Src, Pkt: p.ID, Text: "no such node"})
		n.mu.Unlock()
		return
	}
	n.recordLocked(Event{Kind: EvDeliver, Node: p.Dst, Peer: p.Src, Type: p.Type, Topic: TopicHex(p.Topic), Data: p.Data, Pkt: p.ID, Text: p.Tag})
	o := n.order[p.Dst]
	o = append(o, byte(p.Src>>8), byte(p.Src), byte(p.ID>>8), byte(p.ID))
	if len(o) > 4096 {
		s := sha256.Sum256(o)
		o = s[:]
	}
	n.order[p.Dst] = o
	n.mu.Unlock()
	atomic.AddInt32(&n.inflightDeliveries, 1)
	h.HandleMessage(&tss.IncMessage{Data: append([]byte{}, p.Data...), Source: p.Src, MsgType: p.Type, Topic: append([]byte{}, p.Topic...)})
	atomic.AddInt32(&n.inflightDeliveries, -1)
	atomic.AddInt64(&n.delivered, 1)
}

// Delivered returns the number of deliveries made so far.
func (n *Net) Delivered() int64 { return atomic.LoadInt64(&n.delivered) }
func (n *Net) Sent() int64      { return atomic.LoadInt64(&n.sent) }

// Busy tells whether a delivery is being processed right now.
func (n *Net) Busy() bool { return atomic.LoadInt32(&n.inflightDeliveries) > 0 }

// OrderHash fingerprints the per-receiver delivery orders of this run.
func (n *Net) OrderHash() string {
	n.mu.Lock()
	defer n.mu.Unlock()
	var ids []int
	for id := range n.order {
		ids = append(ids, int(id))
	}
	sort.Ints(ids)
	h := sha256.New()
	for _, id := range ids {
		fmt.Fprintf(h, "%d:", id)
		h.Write(n.order[uint16(id)])
	}
	return hex.EncodeToString(h.Sum(nil)[:8])
}

// Policy picks the next link to deliver from in random mode.
type Policy func(rng *rand.Rand, en []Link, n *Net) Link

func Uniform(rng *rand.Rand, en []Link, _ *Net) Link { return en[rng.Intn(len(en))] }

// StarveLink never delivers from the given link while anything else is deliverable: acknowledgements
// overtake the payload they vouch for.
func StarveLink(starved Link) Policy {
	return func(rng *rand.Rand, en []Link, _ *Net) Link {
		var others []Link
		for _, l := range en {
			if l != starved {
				others = append(others, l)
			}
		}
		if len(others) == 0 {
			return en[0]
		}
		return others[rng.Intn(len(others))]
	}
}

// StarveSender starves every link of one sender.
func StarveSender(src uint16) Policy {
	return func(rng *rand.Rand, en []Link, _ *Net) Link {
		var others []Link
		for _, l := range en {
			if l.Src != src {
				others = append(others, l)
			}
		}
		if len(others) == 0 {
			return en[rng.Intn(len(en))]
		}
		return others[rng.Intn(len(others))]
	}
}

// PreferNewest delivers from the link whose head was sent last (with probability 3/4).
func PreferNewest(rng *rand.Rand, en []Link, n *Net) Link {
	if rng.Intn(4) == 0 {
		return en[rng.Intn(len(en))]
	}
	best := en[0]
	var bestID uint64
	for _, l := range en {
		if p := n.headLocked(l); p != nil && p.ID >= bestID {
			best, bestID = l, p.ID
		}
	}
	return best
}

// Burst keeps delivering from the same link while it has packets (with probability 7/8).
func Burst() Policy {
	var last Link
	have := false
	return func(rng *rand.Rand, en []Link, _ *Net) Link {
		if have && rng.Intn(8) != 0 {
			for _, l := range en {
				if l == last {
					return l
				}
			}
		}
		last = en[rng.Intn(len(en))]
		have = true
		return last
	}
}

// ReceiverRoundRobin serves one receiver at a time.
func ByReceiver(rng *rand.Rand, en []Link, _ *Net) Link {
	sort.Slice(en, func(i, j int) bool { return en[i].Dst < en[j].Dst })
	if rng.Intn(3) == 0 {
		return en[rng.Intn(len(en))]
	}
	return en[0]
}

func (n *Net) headLocked(l Link) *Packet {
	if len(n.q[l]) == 0 {
		return nil
	}
	return n.q[l][0]
}

// RunRandom delivers one message at a time, link chosen by the policy, until Stop is called.
// It is meant to run in its own goroutine.
func (n *Net) RunRandom(rng *rand.Rand, pol Policy) {
	if pol == nil {
		pol = Uniform
	}
	for {
		n.mu.Lock()
		for !n.stop && len(n.enabledLocked()) == 0 {
			n.cond.Wait()
		}
		if n.stop {
			n.mu.Unlock()
			return
		}
		en := n.enabledLocked()
		l := pol(rng, en, n)
		p := n.q[l][0]
		n.q[l] = n.q[l][1:]
		h := n.nodes[l.Dst]
		n.mu.Unlock()
		n.deliver(p, h)
	}
}

func (n *Net) Stop() {
	n.mu.Lock()
	if !n.stop {
		n.stop = true
		close(n.done)
	}
	n.cond.Broadcast()
	n.mu.Unlock()
}

// StartConcurrent switches to concurrent mode: one dispatcher goroutine per link.
func (n *Net) StartConcurrent() {
	n.mu.Lock()
	n.concurrent = true
	n.mu.Unlock()
}

func (n *Net) linkChanLocked(l Link) chan *Packet {
	if ch, ok := n.links[l]; ok {
		return ch
	}
	ch := make(chan *Packet, 100000)
	n.links[l] = ch
	n.wg.Add(1)
	go func() {
		defer n.wg.Done()
		for {
			var p *Packet
			select {
			case p = <-ch:
			case <-n.done:
				return
			}
			if n.Jitter != nil {
				n.Jitter(l)
			}
			n.mu.Lock()
			h := n.nodes[l.Dst]
			n.mu.Unlock()
			n.deliver(p, h)
		}
	}()
	return ch
}

// Log returns a copy of the event log.
func (n *Net) Log() []Event {
	n.mu.Lock()
	defer n.mu.Unlock()
	return append([]Event{}, n.log...)
}

// LogTail renders the last k events compactly, for witnesses.
func LogTail(log []Event, k int) []string {
	if len(log) > k {
		log = log[len(log)-k:]
	}
	var out []string
	for _, e := range log {
		d := e.Data
		if len(d) > 24 {
			d = d[:24]
		}
		out = append(out, fmt.Sprintf("#%d %s node=%d peer=%d dsts=%v type=%d topic=%s bcast=%v parties=%v data=%x(%dB) %s %s", e.Seq, e.Kind, e.Node, e.Peer, e.Dsts, e.Type, e.Topic, e.Bcast, e.Parties, d, len(e.Data), e.Text, e.Err))
	}
	return out
}

func SameBytes(a, b []byte) bool { return bytes.Equal(a, b) }

// LinkCount returns the number of per-link dispatcher goroutines created in concurrent mode.
func (n *Net) LinkCount() int {
	n.mu.Lock()
	defer n.mu.Unlock()
	return len(n.links)
}
