// Package cluster wires real threshold.Scheme objects (public constructors LoudScheme / SilentScheme,
// default wiring: real disc.Member, rbc.Receiver, msg.Box) to the simulated network. The harness
// supplies only what the README says the consumer supplies: send function, membership, backend
// factories, pickMembers. Optionally the exported SyncFactory field is replaced by a barrier
// synchroniser so that runs have no timers (stepped mode).
package cluster

import (
	"context"
	"crypto/sha256"
	"reflect"
	"sort"
	"sync"
	"time"

	"github.com/IBM/TSS/msg"
	"github.com/IBM/TSS/threshold"
	tss "github.com/IBM/TSS/types"

	"verifharness/backend"
	"verifharness/common"
	"verifharness/simnet"
)

func init() {
	// as the repository's own tests do
	threshold.SyncInterval = 2 * time.Millisecond
}

type Config struct {
	Map       map[uint16]uint16 // node id -> party id
	Silent    bool
	Threshold int // Scheme.Threshold: Threshold+1 signers
	Barrier   bool
	// Factories; nil = scripted backend with Script
	KGF    func(node uint16) tss.KeyGenerator
	SF     func(node uint16) tss.Signer
	Script backend.Script
	// Nodes to instantiate (default: all nodes of Map)
	Nodes []uint16
	// FastBoxClock: in silent mode, set the sweep period of the scheme's msg.Box (an exported field of an exported type
	// embedded in the value SilentScheme returns) before its first use, so that the GC clock ticks during short runs
	FastBoxClock time.Duration
	// PermutePicks: the silent-mode pickMembers function returns the members in a non-ascending order (the same at every node,
	// determined by the topic name). The README's own sample picker is a topic-dependent permutation.
	PermutePicks bool
	// Logger handed to the schemes (default: discard everything)
	Logger tss.Logger
	// LiveTable: the Membership function returns one and the same map object on every call (see MutateLive)
	LiveTable bool
}

type Cluster struct {
	Cfg     Config
	Net     *simnet.Net
	Schemes map[uint16]tss.MpcParty
	Hub     *BarrierHub
	// FastClocks counts the message boxes whose clock could be sped up
	FastClocks int

	mu       sync.Mutex
	session  uint32
	Backends map[uint16][]*backend.Backend
	picks    map[string][]uint16
	live     map[tss.UniversalID]tss.PartyID // the table handed out when Config.LiveTable is set
}

func Hash(b []byte) []byte { h := sha256.Sum256(b); return h[:] }

func New(cfg Config) *Cluster {
	c := &Cluster{Cfg: cfg, Net: simnet.New(), Schemes: map[uint16]tss.MpcParty{}, Hub: NewBarrierHub(), Backends: map[uint16][]*backend.Backend{}, picks: map[string][]uint16{}}
	nodes := cfg.Nodes
	if nodes == nil {
		for u := range cfg.Map {
			nodes = append(nodes, u)
		}
	}
	sort.Slice(nodes, func(i, j int) bool { return nodes[i] < nodes[j] })
	// the membership function reads the CURRENT map (SetMap may replace the party assignment between sessions)
	c.live = map[tss.UniversalID]tss.PartyID{}
	for u, p := range cfg.Map {
		c.live[tss.UniversalID(u)] = tss.PartyID(p)
	}
	membership := func() map[tss.UniversalID]tss.PartyID {
		c.mu.Lock()
		defer c.mu.Unlock()
		if cfg.LiveTable {
			// an application that hands out its own table, not a copy (and may update it in place later: MutateLive)
			return c.live
		}
		m := map[tss.UniversalID]tss.PartyID{}
		for u, p := range c.Cfg.Map {
			m[tss.UniversalID(u)] = tss.PartyID(p)
		}
		return m
	}
	var logger tss.Logger = common.Nolog{}
	if cfg.Logger != nil {
		logger = cfg.Logger
	}
	for _, u := range nodes {
		u := u
		kgf := func(id uint16) tss.KeyGenerator {
			if cfg.KGF != nil {
				return cfg.KGF(u)
			}
			return c.newBackend(u)
		}
		sf := func(id uint16) tss.Signer {
			if cfg.SF != nil {
				return cfg.SF(u)
			}
			return c.newBackend(u)
		}
		var s tss.MpcParty
		if cfg.Silent {
			s = threshold.SilentScheme(u, logger, kgf, sf, cfg.Threshold, c.Net.SendFunc(u), membership, c.pick)
			if cfg.FastBoxClock > 0 {
				if v := reflect.ValueOf(s); v.Kind() == reflect.Ptr && v.Elem().Kind() == reflect.Struct {
					if f := v.Elem().FieldByName("Box"); f.IsValid() && f.CanInterface() {
						if b, ok := f.Interface().(*msg.Box); ok && b != nil {
							b.GCSweep = cfg.FastBoxClock
							b.GCExpire = 4000 * cfg.FastBoxClock
							c.FastClocks++
						}
					}
				}
			}
		} else {
			s = threshold.LoudScheme(u, logger, kgf, sf, cfg.Threshold, c.Net.SendFunc(u), membership)
			if cfg.Barrier {
				s.(*threshold.Scheme).SyncFactory = func(members []uint16, _ func([]byte), _ func([]byte, uint16)) tss.Synchronizer {
					return &barrierSync{hub: c.Hub, id: u}
				}
			}
		}
		c.Schemes[u] = s
		c.Net.Attach(u, s)
	}
	return c
}

func (c *Cluster) newBackend(node uint16) *backend.Backend {
	c.mu.Lock()
	defer c.mu.Unlock()
	b := backend.New(c.Net, node, c.Cfg.Map[node], c.session, c.Cfg.Script)
	c.Backends[node] = append(c.Backends[node], b)
	return b
}

// SetMap replaces the party assignment of the (unchanged) node set; the schemes see it at their next call.
func (c *Cluster) SetMap(m map[uint16]uint16) {
	c.mu.Lock()
	defer c.mu.Unlock()
	nm := map[uint16]uint16{}
	for u, p := range m {
		nm[u] = p
	}
	c.Cfg.Map = nm
	for k := range c.live {
		delete(c.live, k)
	}
	for u, p := range nm {
		c.live[tss.UniversalID(u)] = tss.PartyID(p)
	}
}

// MutateLive lets the "application" update, in place, the table its Membership function hands out (Config.LiveTable). The caller
// must pick a moment at which no KeyGen / Sign call is just starting (the library reads the table it was handed at call entry).
func (c *Cluster) MutateLive(f func(m map[tss.UniversalID]tss.PartyID)) {
	c.mu.Lock()
	defer c.mu.Unlock()
	f(c.live)
}

// NextSession gives the backends created from now on a new session id (and optionally a new script).
func (c *Cluster) NextSession(sc *backend.Script) uint32 {
	c.mu.Lock()
	defer c.mu.Unlock()
	c.session++
	if sc != nil {
		c.Cfg.Script = *sc
	}
	return c.session
}

func (c *Cluster) Session() uint32 {
	c.mu.Lock()
	defer c.mu.Unlock()
	return c.session
}

// LastBackend returns the most recently created backend of a node.
func (c *Cluster) LastBackend(node uint16) *backend.Backend {
	c.mu.Lock()
	defer c.mu.Unlock()
	l := c.Backends[node]
	if len(l) == 0 {
		return nil
	}
	return l[len(l)-1]
}

// SetPick tells the silent-mode pickMembers function who takes part in the session on a topic
// (the topic as KeyGen/Sign hash it, and the hash of that, which signing synchronises on next).
func (c *Cluster) SetPick(topicName string, members []uint16) {
	c.mu.Lock()
	defer c.mu.Unlock()
	th := Hash([]byte(topicName))
	if c.Cfg.PermutePicks && len(members) > 1 {
		// sorted descending, then rotated by a topic-dependent amount: never ascending for len > 2, reversed for len 2
		m := append([]uint16{}, members...)
		sort.Slice(m, func(i, j int) bool { return m[i] > m[j] })
		if len(m) > 2 {
			k := int(th[0]) % (len(m) - 1)
			m = append(m[k:], m[:k]...)
			if sort.SliceIsSorted(m, func(i, j int) bool { return m[i] < m[j] }) {
				m[0], m[1] = m[1], m[0]
			}
		}
		members = m
	}
	c.picks[string(th)] = append([]uint16{}, members...)
	c.picks[string(Hash(th))] = append([]uint16{}, members...)
	if topicName == tss.DkgTopicName {
		// KeyGen's second synchronisation is on the hash of the member list; key it by that too
		c.picks[string(memberTopic(members))] = append([]uint16{}, members...)
	}
}

// MemberTopic is the topic of a key generation's second synchronisation (on the agreed member list).
func MemberTopic(members []uint16) []byte { return memberTopic(members) }

func memberTopic(members []uint16) []byte {
	h := sha256.New()
	for _, m := range members {
		h.Write([]byte{uint8(m), uint8(m >> 8)})
	}
	return h.Sum(nil)
}

func (c *Cluster) pick(topic []byte, expected int) []uint16 {
	c.mu.Lock()
	defer c.mu.Unlock()
	if m, ok := c.picks[string(topic)]; ok {
		return append([]uint16{}, m...)
	}
	// unknown topic (e.g. the member-list topic of an unsorted pick): everybody, sorted, truncated
	var all []uint16
	for u := range c.Cfg.Map {
		all = append(all, u)
	}
	sort.Slice(all, func(i, j int) bool { return all[i] < all[j] })
	if expected < len(all) {
		all = all[:expected]
	}
	return all
}

// ---- barrier synchroniser ----

type BarrierHub struct {
	mu      sync.Mutex
	waiting map[string]map[uint16]chan []uint16
}

func NewBarrierHub() *BarrierHub { return &BarrierHub{waiting: map[string]map[uint16]chan []uint16{}} }

type barrierSync struct {
	hub *BarrierHub
	id  uint16
}

func (b *barrierSync) HandleMessage(uint16, []byte) {}

// Synchronize completes as soon as `expected` members called it on the topic; the agreed list is the
// sorted list of those callers. A caller whose context ends first withdraws.
func (b *barrierSync) Synchronize(ctx context.Context, f func([]uint16), topic []byte, expected int, _ time.Duration) error {
	h := b.hub
	h.mu.Lock()
	key := string(topic)
	if h.waiting[key] == nil {
		h.waiting[key] = map[uint16]chan []uint16{}
	}
	ch := make(chan []uint16, 1)
	h.waiting[key][b.id] = ch
	if len(h.waiting[key]) == expected {
		var ids []uint16
		for id := range h.waiting[key] {
			ids = append(ids, id)
		}
		sort.Slice(ids, func(i, j int) bool { return ids[i] < ids[j] })
		for _, c := range h.waiting[key] {
			c <- ids
		}
		delete(h.waiting, key)
	}
	h.mu.Unlock()
	select {
	case ids := <-ch:
		f(ids)
		return nil
	case <-ctx.Done():
		h.mu.Lock()
		if w := h.waiting[key]; w != nil && w[b.id] == ch {
			delete(w, b.id)
		}
		h.mu.Unlock()
		// the barrier may have completed concurrently
		select {
		case ids := <-ch:
			f(ids)
			return nil
		default:
		}
		return ctx.Err()
	}
}

// AllBackends returns the backends created so far (a copy, taken under the lock).
func (c *Cluster) AllBackends() []*backend.Backend {
	c.mu.Lock()
	defer c.mu.Unlock()
	var out []*backend.Backend
	for _, l := range c.Backends {
		out = append(out, l...)
	}
	return out
}
