// Package dfs enumerates delivery schedules of a deterministic "world" by stateless depth-first search
// (re-execution from scratch per path) with sleep sets. A transition is "deliver the head of link
// (src,dst)"; two transitions are independent iff they have different receivers (parties share no
// state; a delivery at X only changes X and appends to queues X->*).
package dfs

import (
	"crypto/sha256"
	"encoding/hex"
	"math/rand"

	"verifharness/simnet"
)

type World interface {
	Enabled() []simnet.Link
	Step(simnet.Link)
	// Close releases whatever the world holds (goroutines, contexts).
	Close()
}

type Result struct {
	Traces     int  // complete, pairwise inequivalent traces executed
	Executions int  // worlds built (traces + sleep-blocked prefixes)
	Steps      int  // deliveries executed in total
	Exhaustive bool // the space was enumerated completely
	Stopped    bool // the check callback asked to stop
}

func PathHash(path []simnet.Link) string {
	h := sha256.New()
	for _, l := range path {
		h.Write([]byte{byte(l.Src >> 8), byte(l.Src), byte(l.Dst >> 8), byte(l.Dst)})
	}
	return hex.EncodeToString(h.Sum(nil)[:8])
}

func PathString(path []simnet.Link) []string {
	var s []string
	for _, l := range path {
		s = append(s, l.String())
	}
	return s
}

// Explore enumerates all inequivalent complete traces (up to limit executions). check is called at
// the end of every complete trace with the world and the path; returning false stops the search.
func Explore(newWorld func() World, limit int, check func(w World, path []simnet.Link) bool) Result {
	type frame struct {
		path  []simnet.Link
		sleep map[simnet.Link]bool
	}
	var res Result
	stack := []frame{{nil, map[simnet.Link]bool{}}}
	for len(stack) > 0 {
		f := stack[len(stack)-1]
		stack = stack[:len(stack)-1]
		if res.Executions >= limit {
			return res
		}
		w := newWorld()
		res.Executions++
		for _, l := range f.path {
			w.Step(l)
			res.Steps++
		}
		sleep := f.sleep
		path := append([]simnet.Link{}, f.path...)
		for {
			en := w.Enabled()
			if len(en) == 0 {
				res.Traces++
				ok := check(w, path)
				w.Close()
				if !ok {
					res.Stopped = true
					return res
				}
				break
			}
			var cand []simnet.Link
			for _, l := range en {
				if !sleep[l] {
					cand = append(cand, l)
				}
			}
			if len(cand) == 0 {
				// every continuation is equivalent to a trace explored elsewhere
				w.Close()
				break
			}
			for i := len(cand) - 1; i >= 1; i-- {
				s := map[simnet.Link]bool{}
				for l := range sleep {
					if l.Dst != cand[i].Dst {
						s[l] = true
					}
				}
				for j := 0; j < i; j++ {
					if cand[j].Dst != cand[i].Dst {
						s[cand[j]] = true
					}
				}
				stack = append(stack, frame{append(append([]simnet.Link{}, path...), cand[i]), s})
			}
			t := cand[0]
			ns := map[simnet.Link]bool{}
			for l := range sleep {
				if l.Dst != t.Dst {
					ns[l] = true
				}
			}
			sleep = ns
			w.Step(t)
			res.Steps++
			path = append(path, t)
		}
	}
	res.Exhaustive = true
	return res
}

// Sample executes `runs` random walks; pol picks among the enabled links.
func Sample(newWorld func() World, runs int, rng *rand.Rand, pol func(rng *rand.Rand, en []simnet.Link, step int) simnet.Link, check func(w World, path []simnet.Link) bool) Result {
	var res Result
	for i := 0; i < runs; i++ {
		w := newWorld()
		res.Executions++
		var path []simnet.Link
		for step := 0; ; step++ {
			en := w.Enabled()
			if len(en) == 0 {
				break
			}
			var l simnet.Link
			if pol != nil {
				l = pol(rng, en, step)
			} else {
				l = en[rng.Intn(len(en))]
			}
			w.Step(l)
			res.Steps++
			path = append(path, l)
		}
		res.Traces++
		ok := check(w, path)
		w.Close()
		if !ok {
			res.Stopped = true
			return res
		}
	}
	return res
}
