// Package common holds what every driver of the verification harness shares: the silent logger,
// the per-shard report a child process writes, seeds and tiers.
package common

import (
	"encoding/json"
	"fmt"
	"hash/fnv"
	"math/rand"
	"os"
	"sort"
	"strconv"
	"strings"
	"sync"
	"sync/atomic"
	"time"
)

// Nolog satisfies every Logger interface of IBM/TSS and discards everything.
type Nolog struct{}

func (Nolog) DebugEnabled() bool            { return false }
func (Nolog) Debugf(string, ...interface{}) {}
func (Nolog) Infof(string, ...interface{})  {}
func (Nolog) Warnf(string, ...interface{})  {}
func (Nolog) Errorf(string, ...interface{}) {}

// Violation is one refuting observation. Signature identifies the failing thing (oracle + minimal
// scenario descriptor), not the property; it is what known_findings.json is matched against.
type Violation struct {
	Signature string      `json:"signature"`
	What      string      `json:"what"`
	Replay    interface{} `json:"replay,omitempty"`
}

// Part is what one child process (one shard of one unit of a check) reports to the parent.
type Part struct {
	Property     string                 `json:"property"`
	Unit         string                 `json:"unit"`
	Shard        int                    `json:"shard"`
	Shards       int                    `json:"shards"`
	Seed         int64                  `json:"seed"`
	Tier         string                 `json:"tier"`
	Evaluations  int                    `json:"evaluations"`
	Distinct     []uint64               `json:"distinct"` // hashes of the distinct non-trivial case keys
	Samples      []interface{}          `json:"samples"`
	Violations   []Violation            `json:"violations"`
	Inconclusive []string               `json:"inconclusive"`
	Counters     map[string]int64       `json:"counters"`
	Notes        map[string]interface{} `json:"notes"`
	Exhaustive   map[string]bool        `json:"exhaustive"` // sub-space name -> enumerated completely
	Rule         string                 `json:"rule"`
	Assumptions  []string               `json:"assumptions"`
	Done         bool                   `json:"done"`
	WallS        float64                `json:"wall_s"`

	mu        sync.Mutex
	distinct  map[uint64]struct{}
	start     time.Time
	path      string
	journal   *os.File
	maxSample int
}

// Env describes the invocation of a child.
type Env struct {
	Property string
	Unit     string
	Shard    int
	Shards   int
	Seed     int64
	Tier     string
	Out      string // path of the part file
	Journal  string // path of the journal file
	Replay   string
}

func (e Env) Thorough() bool { return e.Tier == "thorough" }

// Pick returns q in the quick tier and t in the thorough tier.
func (e Env) Pick(q, t int) int {
	if e.Thorough() {
		return t
	}
	return q
}

// Mine tells whether case number idx belongs to this shard.
func (e Env) Mine(idx int) bool { return e.Shards <= 1 || idx%e.Shards == e.Shard }

// Rng returns a PRNG that depends only on the seed and the given labels.
func (e Env) Rng(labels ...interface{}) *rand.Rand {
	h := fnv.New64a()
	fmt.Fprint(h, e.Seed)
	for _, l := range labels {
		fmt.Fprint(h, "|", l)
	}
	return rand.New(rand.NewSource(int64(h.Sum64())))
}

func NewPart(e Env) *Part {
	p := &Part{Property: e.Property, Unit: e.Unit, Shard: e.Shard, Shards: e.Shards, Seed: e.Seed, Tier: e.Tier,
		Counters: map[string]int64{}, Notes: map[string]interface{}{}, Exhaustive: map[string]bool{},
		distinct: map[uint64]struct{}{}, start: time.Now(), path: e.Out, maxSample: 6}
	if e.Journal != "" {
		f, err := os.Create(e.Journal)
		if err == nil {
			p.journal = f
		}
	}
	return p
}

func H(key string) uint64 {
	h := fnv.New64a()
	h.Write([]byte(key))
	return h.Sum64()
}

// Begin journals the case that is about to run, so that the parent can name it if the process dies.
func (p *Part) Begin(key string) {
	p.mu.Lock()
	defer p.mu.Unlock()
	if p.journal != nil {
		fmt.Fprintf(p.journal, "B %s\n", key)
	}
}

// Case records one executed case. key identifies it; nontrivial says whether it counts as a
// distinct non-trivial case by the unit's rule.
func (p *Part) Case(key string, nontrivial bool) {
	p.mu.Lock()
	defer p.mu.Unlock()
	p.Evaluations++
	if nontrivial {
		p.distinct[H(key)] = struct{}{}
	}
	if p.journal != nil {
		fmt.Fprintf(p.journal, "E %s\n", key)
	}
}

func (p *Part) Sample(s interface{}) {
	p.mu.Lock()
	defer p.mu.Unlock()
	if len(p.Samples) < p.maxSample {
		p.Samples = append(p.Samples, s)
	}
}

func (p *Part) Count(name string, d int64) {
	p.mu.Lock()
	p.Counters[name] += d
	p.mu.Unlock()
}

func (p *Part) Note(name string, v interface{}) {
	p.mu.Lock()
	p.Notes[name] = v
	p.mu.Unlock()
}

func (p *Part) Violate(signature, what string, replay interface{}) {
	p.mu.Lock()
	defer p.mu.Unlock()
	// keep the first witness per signature, count the rest
	for _, v := range p.Violations {
		if v.Signature == signature {
			p.Counters["dup-violation:"+signature]++
			return
		}
	}
	p.Violations = append(p.Violations, Violation{Signature: signature, What: what, Replay: replay})
	if p.journal != nil {
		fmt.Fprintf(p.journal, "V %s\n", signature)
	}
}

// ViolationCount is the number of distinct violation signatures so far (checks stop scheduling new
// work after three: violating trees are the slow ones).
func (p *Part) ViolationCount() int {
	p.mu.Lock()
	defer p.mu.Unlock()
	return len(p.Violations)
}

func (p *Part) Inconcl(what string) {
	p.mu.Lock()
	p.Inconclusive = append(p.Inconclusive, what)
	p.mu.Unlock()
}

func (p *Part) SetExhaustive(space string, v bool) {
	p.mu.Lock()
	p.Exhaustive[space] = v
	p.mu.Unlock()
}

// Write stores the part file; called with done=true at the end of a child.
func (p *Part) Write(done bool) {
	p.mu.Lock()
	defer p.mu.Unlock()
	p.Done = done
	p.WallS = time.Since(p.start).Seconds()
	p.Distinct = p.Distinct[:0]
	for h := range p.distinct {
		p.Distinct = append(p.Distinct, h)
	}
	sort.Slice(p.Distinct, func(i, j int) bool { return p.Distinct[i] < p.Distinct[j] })
	b, err := json.Marshal(p)
	if err != nil {
		fmt.Fprintln(os.Stderr, "cannot marshal part:", err)
		os.Exit(3)
	}
	tmp := p.path + ".tmp"
	if err := os.WriteFile(tmp, b, 0o644); err != nil {
		fmt.Fprintln(os.Stderr, "cannot write part:", err)
		os.Exit(3)
	}
	os.Rename(tmp, p.path)
}

// ParseEnv reads the child's command line: child -prop P -unit U -shard i -shards n -seed S -tier T -out F -journal J
func ParseEnv(args []string) Env {
	e := Env{Shards: 1, Tier: "quick", Seed: 1}
	for i := 0; i+1 < len(args); i += 2 {
		v := args[i+1]
		switch args[i] {
		case "-prop":
			e.Property = v
		case "-unit":
			e.Unit = v
		case "-shard":
			e.Shard, _ = strconv.Atoi(v)
		case "-shards":
			e.Shards, _ = strconv.Atoi(v)
		case "-seed":
			e.Seed, _ = strconv.ParseInt(v, 10, 64)
		case "-tier":
			e.Tier = v
		case "-out":
			e.Out = v
		case "-journal":
			e.Journal = v
		case "-replay":
			e.Replay = v
		}
	}
	return e
}

// UnitFunc is one unit of a check: it explores its share of the cases and records into the part.
type UnitFunc func(e Env, p *Part)

// ChildMain is the main function of every driver binary.
func ChildMain(units map[string]UnitFunc) {
	if len(os.Args) < 2 || os.Args[1] != "child" {
		fmt.Fprintln(os.Stderr, "usage: <driver> child -prop P -unit U ... (started by hrun)")
		os.Exit(3)
	}
	e := ParseEnv(os.Args[2:])
	f, ok := units[e.Unit]
	if !ok {
		fmt.Fprintln(os.Stderr, "unknown unit", e.Unit)
		os.Exit(3)
	}
	p := NewPart(e)
	p.Write(false)
	f(e, p)
	p.Write(true)
	os.Exit(0)
}

// SlowLog is a logger (a dependency the consumer supplies) whose sink is slow for the messages that match one of the given
// prefixes of the format string: it sleeps before returning. Log calls sit between a check and the update that depends on it in
// several places; a slow sink widens exactly those windows without touching the code.
type SlowLog struct {
	Prefixes []string
	Delay    time.Duration
	Hits     *int64
}

func (l SlowLog) slow(format string) {
	for _, p := range l.Prefixes {
		if strings.HasPrefix(format, p) {
			if l.Hits != nil {
				atomic.AddInt64(l.Hits, 1)
			}
			time.Sleep(l.Delay)
			return
		}
	}
}
func (l SlowLog) DebugEnabled() bool                { return true }
func (l SlowLog) Debugf(f string, a ...interface{}) { l.slow(f) }
func (l SlowLog) Infof(f string, a ...interface{})  { l.slow(f) }
func (l SlowLog) Warnf(f string, a ...interface{})  { l.slow(f) }
func (l SlowLog) Errorf(f string, a ...interface{}) { l.slow(f) }

// DebugNolog: a silent logger whose DebugEnabled() is true (the code paths that only run when debug logging is on)
type DebugNolog struct{ Nolog }

func (DebugNolog) DebugEnabled() bool { return true }
