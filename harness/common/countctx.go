package common

import (
	"context"
	"sync"
	"sync/atomic"
	"time"
)

// CountCtx is a context that ends at its k-th consultation (a call of Err or Done), whatever the wall clock says: running a call
// once for every k enumerates every window between two of its context checks. A parent context (the run's) ends it as well.
type CountCtx struct {
	parent context.Context
	k      int64
	n      int64
	done   chan struct{}
	once   sync.Once
}

// NewCountCtx: k = 0 never ends by itself (consultations are only counted).
func NewCountCtx(parent context.Context, k int64) *CountCtx {
	c := &CountCtx{parent: parent, k: k, done: make(chan struct{})}
	go func() {
		select {
		case <-parent.Done():
			c.once.Do(func() { close(c.done) })
		case <-c.done:
		}
	}()
	return c
}

func (c *CountCtx) tick() {
	if n := atomic.AddInt64(&c.n, 1); c.k > 0 && n >= c.k {
		c.once.Do(func() { close(c.done) })
	}
}

func (c *CountCtx) Consultations() int64              { return atomic.LoadInt64(&c.n) }
func (c *CountCtx) Deadline() (time.Time, bool)       { return time.Time{}, false }
func (c *CountCtx) Value(key interface{}) interface{} { return nil }
func (c *CountCtx) Done() <-chan struct{}             { c.tick(); return c.done }

// Ended reports whether the context has ended, without counting as a consultation.
func (c *CountCtx) Ended() bool {
	select {
	case <-c.done:
		return true
	default:
		return false
	}
}

func (c *CountCtx) Err() error {
	c.tick()
	select {
	case <-c.done:
		if c.parent.Err() != nil {
			return c.parent.Err()
		}
		return context.DeadlineExceeded
	default:
		return nil
	}
}
