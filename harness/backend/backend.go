// Package backend implements a scripted MPC backend (types.KeyGenerator and types.Signer) with unique,
// self-describing payloads. It is a correct citizen: whatever goes wrong in a run is attributable to the
// orchestration layers. Every Init/OnMsg call it receives is recorded in the simnet event log.
package backend

import (
	"context"
	"encoding/binary"
	"fmt"
	"sync"
	"sync/atomic"
	"time"

	"verifharness/simnet"
)

// Payload layout (this is the MPC backend's own format, not a wire format of IBM/TSS):
// kind 'B'|'P' | round | session(4) | sender pid(2) | dst pid(2) | version | seq(4) | filler...
const headerLen = 15

type Payload struct {
	Kind    byte
	Round   uint8
	Session uint32
	Sender  uint16
	Dst     uint16
	Version uint8
	Seq     uint32
}

var seqCounter uint32

func Encode(p Payload, filler int) []byte {
	b := make([]byte, headerLen+filler)
	b[0] = p.Kind
	b[1] = p.Round
	binary.BigEndian.PutUint32(b[2:], p.Session)
	binary.BigEndian.PutUint16(b[6:], p.Sender)
	binary.BigEndian.PutUint16(b[8:], p.Dst)
	b[10] = p.Version
	binary.BigEndian.PutUint32(b[11:], p.Seq)
	for i := headerLen; i < len(b); i++ {
		b[i] = byte(i*7) ^ byte(p.Seq)
	}
	return b
}

func Decode(b []byte) (Payload, error) {
	if len(b) < headerLen {
		return Payload{}, fmt.Errorf("payload of %d bytes is too short", len(b))
	}
	if b[0] != 'B' && b[0] != 'P' {
		return Payload{}, fmt.Errorf("unknown kind %d", b[0])
	}
	if b[1] > 127 {
		return Payload{}, fmt.Errorf("round %d out of range", b[1])
	}
	return Payload{Kind: b[0], Round: b[1], Session: binary.BigEndian.Uint32(b[2:]), Sender: binary.BigEndian.Uint16(b[6:]),
		Dst: binary.BigEndian.Uint16(b[8:]), Version: b[10], Seq: binary.BigEndian.Uint32(b[11:])}, nil
}

// Script describes what every party does in a session.
type Script struct {
	Rounds []uint8 // round numbers, in order (e.g. 1,2,3)
	Bcast  bool    // each round has a broadcast-class message of every transmitting party
	P2P    bool    // each round has one point-to-point message per peer
	// StrayTo: party identifiers to which every transmitting backend additionally addresses one point-to-point message per round
	// although they are not among the parties it was initialised with (nobody represents them in the session)
	StrayTo   []uint16
	AllAtOnce bool // transmit the whole script at start, then only listen (stepped mode)
	Hold      bool // never complete: after the script, wait until the context ends (keeps stepped runs deterministic)
	// Transmit: party ids that transmit (nil = all). Parties that do not transmit only listen.
	Transmit map[uint16]bool
	Filler   func(round uint8, dst uint16) int
	// SenderFiller: like Filler, but the length may also depend on the sending party
	SenderFiller func(sender uint16, round uint8, dst uint16) int
	// Versions >1: a Byzantine party emits that many versions of each broadcast (the interceptor routes them).
	Versions map[uint16]int
	// InitHook is called at the start of Init (the orchestrator is then between creating the protocol instance and registering
	// the session's handlers): lets a harness park the set-up of a session there
	InitHook func(node uint16)
	// RunHook is called when the protocol call (KeyGen / Sign) of the instance begins, i.e. after the orchestrator's set-up and
	// synchronisations: lets a harness park a session at the start of its protocol phase
	RunHook func(node uint16)
	// LingerOnMsg > 0: the OnMsg call that completes the session's last round returns only after the protocol call (KeyGen / Sign)
	// of this backend has returned (bounded by this duration), plus a moment for the orchestrator's own call to return. A protocol
	// library that hands a message to its state machine synchronously behaves like this; it widens the window between the
	// hand-over of a party's last message and whatever the orchestrator does after the hand-over.
	LingerOnMsg time.Duration
	// ConstantBroadcasts: the broadcast of a round has the same bytes whoever sends it (a constant announcement such as "READY"):
	// sender and sequence number are left out of the payload. Attribution is then known from the transport only.
	ConstantBroadcasts bool
}

func (s Script) transmits(pid uint16) bool { return s.Transmit == nil || s.Transmit[pid] }

type Backend struct {
	Net     *simnet.Net
	Node    uint16 // node (universal) id, harness knowledge
	Self    uint16 // party id, harness knowledge
	Session uint32
	Script  Script
	// Started is closed when KeyGen/Sign has transmitted everything it transmits before waiting.
	Started chan struct{}

	mu      sync.Mutex
	cond    *sync.Cond
	parties []uint16
	thr     int
	send    func([]byte, bool, uint16)
	got     map[string]int
	share   []byte
	state   int32 // 0 idle, 1 running, 2 blocked (waiting for messages), 3 done
	inited  bool
	started sync.Once
	// Sent records the payloads this backend handed to sendMsg.
	Sent []SentRec
}

type SentRec struct {
	Payload []byte
	Bcast   bool
	To      uint16
}

func New(net *simnet.Net, node, self uint16, session uint32, sc Script) *Backend {
	b := &Backend{Net: net, Node: node, Self: self, Session: session, Script: sc, got: map[string]int{}, Started: make(chan struct{})}
	b.cond = sync.NewCond(&b.mu)
	return b
}

const (
	StIdle = iota
	StRunning
	StBlocked
	StDone
)

func (b *Backend) State() int { return int(atomic.LoadInt32(&b.state)) }

func (b *Backend) ClassifyMsg(m []byte) (uint8, bool, error) {
	p, err := Decode(m)
	if err != nil {
		return 0, false, err
	}
	return p.Round, p.Kind == 'B', nil
}

func (b *Backend) Init(parties []uint16, threshold int, send func([]byte, bool, uint16)) {
	if b.Script.InitHook != nil {
		b.Script.InitHook(b.Node)
	}
	b.Net.Record(simnet.Event{Kind: simnet.EvInit, Node: b.Node, Parties: append([]uint16{}, parties...), Pkt: uint64(threshold)})
	b.mu.Lock()
	b.parties = append([]uint16{}, parties...)
	b.thr = threshold
	b.send = send
	b.inited = true
	b.mu.Unlock()
}

func (b *Backend) OnMsg(m []byte, from uint16, bcast bool) {
	b.Net.Record(simnet.Event{Kind: simnet.EvOnMsg, Node: b.Node, Peer: from, Bcast: bcast, Data: append([]byte{}, m...)})
	p, err := Decode(m)
	b.mu.Lock()
	if err == nil {
		b.got[fmt.Sprintf("%c/%d/%d", p.Kind, p.Round, from)]++
	}
	b.cond.Broadcast()
	last := len(b.Script.Rounds) > 0 && b.inited && b.roundComplete(b.Script.Rounds[len(b.Script.Rounds)-1])
	b.mu.Unlock()
	if d := b.Script.LingerOnMsg; d > 0 && last && !b.Script.Hold {
		deadline := time.Now().Add(d)
		for time.Now().Before(deadline) && atomic.LoadInt32(&b.state) != StDone {
			time.Sleep(20 * time.Microsecond)
		}
		if atomic.LoadInt32(&b.state) == StDone {
			time.Sleep(400 * time.Microsecond)
		}
	}
}

func (b *Backend) emit(p Payload, bcast bool, to uint16, filler int) {
	p.Seq = atomic.AddUint32(&seqCounter, 1)
	if bcast && b.Script.ConstantBroadcasts {
		p.Seq, p.Sender = 0, 0
	}
	raw := Encode(p, filler)
	b.mu.Lock()
	b.Sent = append(b.Sent, SentRec{Payload: raw, Bcast: bcast, To: to})
	send := b.send
	b.mu.Unlock()
	send(raw, bcast, to)
}

func (b *Backend) transmitRound(r uint8) {
	if !b.Script.transmits(b.Self) {
		return
	}
	fill := func(dst uint16) int {
		if b.Script.SenderFiller != nil {
			return b.Script.SenderFiller(b.Self, r, dst)
		}
		if b.Script.Filler != nil {
			return b.Script.Filler(r, dst)
		}
		return 0
	}
	if b.Script.Bcast {
		versions := 1
		if v := b.Script.Versions[b.Self]; v > 1 {
			versions = v
		}
		for v := 1; v <= versions; v++ {
			b.emit(Payload{Kind: 'B', Round: r, Session: b.Session, Sender: b.Self, Dst: 0xffff, Version: uint8(v)}, true, 0, fill(0xffff))
		}
	}
	if b.Script.P2P {
		for _, p := range b.parties {
			if p != b.Self {
				b.emit(Payload{Kind: 'P', Round: r, Session: b.Session, Sender: b.Self, Dst: p, Version: 1}, false, p, fill(p))
			}
		}
	}
	// a protocol instance that addresses parties it was not initialised with (from stored data of an earlier key generation, say)
	for _, p := range b.Script.StrayTo {
		in := false
		for _, q := range b.parties {
			if q == p {
				in = true
			}
		}
		if !in {
			b.emit(Payload{Kind: 'P', Round: r, Session: b.Session, Sender: b.Self, Dst: p, Version: 9}, false, p, 0)
		}
	}
}

func (b *Backend) roundComplete(r uint8) bool {
	for _, p := range b.parties {
		if p == b.Self || !b.Script.transmits(p) {
			continue
		}
		if b.Script.Bcast && b.got[fmt.Sprintf("B/%d/%d", r, p)] == 0 {
			return false
		}
		if b.Script.P2P && b.got[fmt.Sprintf("P/%d/%d", r, p)] == 0 {
			return false
		}
	}
	return true
}

func (b *Backend) run(ctx context.Context) error {
	if b.Script.RunHook != nil {
		b.Script.RunHook(b.Node)
	}
	atomic.StoreInt32(&b.state, StRunning)
	defer atomic.StoreInt32(&b.state, StDone)
	b.mu.Lock()
	if !b.inited {
		b.mu.Unlock()
		return fmt.Errorf("backend used before Init")
	}
	b.mu.Unlock()
	done := make(chan struct{})
	defer close(done)
	go func() {
		select {
		case <-ctx.Done():
			b.mu.Lock()
			b.cond.Broadcast()
			b.mu.Unlock()
		case <-done:
		}
	}()
	if b.Script.AllAtOnce {
		for _, r := range b.Script.Rounds {
			b.transmitRound(r)
		}
		b.started.Do(func() { close(b.Started) })
	}
	for i, r := range b.Script.Rounds {
		if !b.Script.AllAtOnce {
			b.transmitRound(r)
			if i == 0 {
				b.started.Do(func() { close(b.Started) })
			}
		}
		b.mu.Lock()
		for !b.roundComplete(r) {
			if ctx.Err() != nil {
				b.mu.Unlock()
				return ctx.Err()
			}
			atomic.StoreInt32(&b.state, StBlocked)
			b.cond.Wait()
			atomic.StoreInt32(&b.state, StRunning)
		}
		b.mu.Unlock()
	}
	b.started.Do(func() { close(b.Started) })
	if b.Script.Hold {
		atomic.StoreInt32(&b.state, StBlocked)
		<-ctx.Done()
		return ctx.Err()
	}
	return nil
}

func (b *Backend) KeyGen(ctx context.Context) ([]byte, error) {
	if err := b.run(ctx); err != nil {
		return nil, err
	}
	return []byte(fmt.Sprintf("share-of-%d-session-%d", b.Self, b.Session)), nil
}

func (b *Backend) SetShareData(d []byte) error {
	if len(d) < 5 || string(d[:5]) != "share" {
		return fmt.Errorf("unusable share data")
	}
	b.mu.Lock()
	b.share = append([]byte{}, d...)
	b.mu.Unlock()
	return nil
}

func (b *Backend) Sign(ctx context.Context, msg []byte) ([]byte, error) {
	if err := b.run(ctx); err != nil {
		return nil, err
	}
	return append([]byte(fmt.Sprintf("sig-by-%d-on:", b.Self)), msg...), nil
}

func (b *Backend) ThresholdPK() ([]byte, error) { return []byte("tpk"), nil }

// Parties returns what Init was given.
func (b *Backend) Parties() []uint16 {
	b.mu.Lock()
	defer b.mu.Unlock()
	return append([]uint16{}, b.parties...)
}

// SentCopy returns a copy of the records of what this backend emitted.
func (b *Backend) SentCopy() []SentRec {
	b.mu.Lock()
	defer b.mu.Unlock()
	return append([]SentRec{}, b.Sent...)
}
