// Package fuzz derives hostile inputs from valid messages captured from this build: truncations, extensions,
// header-byte replacements and asn.1-aware edits.
package fuzz

import (
	"math/rand"
)

var special = []byte{0x00, 0x01, 0x7f, 0x80, 0xff}

// Basic returns structure-agnostic mutations of a valid message: every prefix length (all of them for messages of at
// most 256 bytes, a PRNG sample beyond), extensions by 1..3 bytes, replacement of each of the first `header` bytes by
// {00,01,7f,80,ff}, the empty and 1-byte inputs.
func Basic(valid []byte, header int, rng *rand.Rand, budget int) [][]byte {
	var out [][]byte
	add := func(b []byte) { out = append(out, append([]byte{}, b...)) }
	add(nil)
	add([]byte{0})
	if len(valid) > 0 {
		add(valid[:1])
	}
	if len(valid) <= 256 {
		for l := 0; l < len(valid); l++ {
			add(valid[:l])
		}
	} else {
		for l := 0; l < 64 && l < len(valid); l++ {
			add(valid[:l])
		}
		for i := 0; i < 64; i++ {
			add(valid[:rng.Intn(len(valid))])
		}
		add(valid[:len(valid)-1])
	}
	for k := 1; k <= 3; k++ {
		e := append(append([]byte{}, valid...), make([]byte, k)...)
		for i := len(valid); i < len(e); i++ {
			e[i] = byte(rng.Intn(256))
		}
		add(e)
	}
	h := header
	if h > len(valid) {
		h = len(valid)
	}
	for i := 0; i < h; i++ {
		for _, s := range special {
			if valid[i] != s {
				m := append([]byte{}, valid...)
				m[i] = s
				out = append(out, m)
			}
		}
	}
	// a few random byte flips anywhere
	for i := 0; i < 16 && len(valid) > 0; i++ {
		m := append([]byte{}, valid...)
		m[rng.Intn(len(m))] ^= byte(1 << uint(rng.Intn(8)))
		out = append(out, m)
	}
	if budget > 0 && len(out) > budget {
		rng.Shuffle(len(out), func(i, j int) { out[i], out[j] = out[j], out[i] })
		out = out[:budget]
	}
	return out
}

type node struct {
	start, hdr, length int // offset of the tag, header size, content length
	constructed        bool
	children           []*node
}

// parseDER parses a best-effort tree of definite-length TLVs.
func parseDER(b []byte, off, end int, depth int) []*node {
	var nodes []*node
	for off < end {
		if off+2 > end {
			return nodes
		}
		tag := b[off]
		l := int(b[off+1])
		hdr := 2
		if l&0x80 != 0 {
			n := l & 0x7f
			if n == 0 || n > 3 || off+2+n > end {
				return nodes
			}
			l = 0
			for i := 0; i < n; i++ {
				l = l<<8 | int(b[off+2+i])
			}
			hdr = 2 + n
		}
		if off+hdr+l > end {
			return nodes
		}
		nd := &node{start: off, hdr: hdr, length: l, constructed: tag&0x20 != 0}
		if nd.constructed && depth < 6 {
			nd.children = parseDER(b, off+hdr, off+hdr+l, depth+1)
		}
		nodes = append(nodes, nd)
		off += hdr + l
	}
	return nodes
}

func encLen(l int) []byte {
	switch {
	case l < 0x80:
		return []byte{byte(l)}
	case l < 0x100:
		return []byte{0x81, byte(l)}
	case l < 0x10000:
		return []byte{0x82, byte(l >> 8), byte(l)}
	default:
		return []byte{0x83, byte(l >> 16), byte(l >> 8), byte(l)}
	}
}

// rebuild re-encodes the subtree rooted at the given nodes with an edit applied to target.
// edit: "drop", "dup", "empty", "len+1", "len-1", "octet-garbage"
func rebuild(b []byte, nodes []*node, target *node, edit string) []byte {
	var out []byte
	for _, n := range nodes {
		content := b[n.start+n.hdr : n.start+n.hdr+n.length]
		if len(n.children) > 0 {
			content = rebuild(b, n.children, target, edit)
		}
		tag := b[n.start]
		if n == target {
			switch edit {
			case "drop":
				continue
			case "dup":
				out = append(out, tag)
				out = append(out, encLen(len(content))...)
				out = append(out, content...)
			case "empty":
				content = nil
			case "len+1":
				out = append(out, tag)
				out = append(out, encLen(len(content)+1)...)
				out = append(out, content...)
				continue
			case "len-1":
				if len(content) > 0 {
					out = append(out, tag)
					out = append(out, encLen(len(content)-1)...)
					out = append(out, content...)
					continue
				}
			case "octet-garbage":
				g := make([]byte, len(content))
				for i := range g {
					g[i] = 0xa5
				}
				content = g
			case "shorten":
				if len(content) > 1 {
					content = content[:len(content)/2]
				}
			}
		}
		out = append(out, tag)
		out = append(out, encLen(len(content))...)
		out = append(out, content...)
	}
	return out
}

func flatten(nodes []*node) []*node {
	var all []*node
	for _, n := range nodes {
		all = append(all, n)
		all = append(all, flatten(n.children)...)
	}
	return all
}

// DER returns asn.1-aware edits of a DER-encoded message: for every element (up to a budget) sequence length +-1 (with the
// enclosing lengths kept consistent or not), element dropped / duplicated / emptied / shortened / replaced by garbage.
func DER(valid []byte, rng *rand.Rand, budget int) [][]byte {
	root := parseDER(valid, 0, len(valid), 0)
	all := flatten(root)
	if len(all) == 0 {
		return nil
	}
	var out [][]byte
	edits := []string{"drop", "dup", "empty", "len+1", "len-1", "octet-garbage", "shorten"}
	for _, n := range all {
		for _, ed := range edits {
			out = append(out, rebuild(valid, root, n, ed))
		}
	}
	if budget > 0 && len(out) > budget {
		rng.Shuffle(len(out), func(i, j int) { out[i], out[j] = out[j], out[i] })
		out = out[:budget]
	}
	return out
}

// Nested applies DER edits to a message whose body (after a prefix of `skip` bytes) is DER, and also to DER blobs found
// inside its OCTET STRING elements (one level), e.g. a stored share inside stored data.
func Nested(valid []byte, skip int, rng *rand.Rand, budget int) [][]byte {
	if skip > len(valid) {
		return nil
	}
	var out [][]byte
	for _, m := range DER(valid[skip:], rng, budget) {
		out = append(out, append(append([]byte{}, valid[:skip]...), m...))
	}
	return out
}

// Topics returns hostile topics.
func Topics(valid []byte) [][]byte {
	var out [][]byte
	for _, l := range []int{0, 1, 2, 3, 4, 5, 6, 7, 8, 31, 33, 64} {
		t := make([]byte, l)
		copy(t, valid)
		out = append(out, t)
	}
	return out
}
