// Package ctlsched is a cooperative controlled scheduler for the real code, driven by the verif yield
// points (verifPoint hooks). Every controlled thread parks at each yield point and at operation
// boundaries; the scheduler grants exactly one parked thread at a time. Yield points may lie inside
// critical sections: a granted thread that runs into a lock held by a parked thread is recognised by
// its goroutine wait state (sync.Mutex.Lock / sync.RWMutex.*Lock / semacquire) and simply is not
// schedulable until the holder is granted and releases the lock. So every enumerated interleaving is
// one the real program can exhibit, and shrinking a critical section in the code under test creates
// new interleavings instead of hiding them.
package ctlsched

import (
	"bytes"
	"fmt"
	"runtime"
	"strconv"
	"strings"
	"sync"
	"sync/atomic"
	"time"
)

const (
	stRunning int32 = iota
	stParked
	stDone
)

type Thread struct {
	ID    int
	Ops   []func()
	grant chan struct{}
	state int32
	gid   uint64
	point atomic.Value // last yield point name
}

type Sched struct {
	mu      sync.Mutex
	byGID   map[uint64]*Thread
	threads []*Thread
	wake    chan struct{}
	// Trace of granted thread ids and the points they were parked at
	Trace  []string
	Points map[string]bool
	// Deadlock is set when no thread is schedulable although not all are done.
	Deadlock string
}

func gid() uint64 {
	var buf [64]byte
	n := runtime.Stack(buf[:], false)
	s := strings.TrimPrefix(string(buf[:n]), "goroutine ")
	i := strings.IndexByte(s, ' ')
	id, _ := strconv.ParseUint(s[:i], 10, 64)
	return id
}

func New() *Sched {
	return &Sched{byGID: map[uint64]*Thread{}, wake: make(chan struct{}, 1), Points: map[string]bool{}}
}

// Hook is installed as the verif hook of the package under test.
func (s *Sched) Hook(p string) {
	s.mu.Lock()
	t := s.byGID[gid()]
	s.mu.Unlock()
	if t == nil {
		return // not a controlled thread (e.g. the Box's clock goroutine)
	}
	t.point.Store(p)
	s.park(t)
}

func (s *Sched) park(t *Thread) {
	atomic.StoreInt32(&t.state, stParked)
	select {
	case s.wake <- struct{}{}:
	default:
	}
	<-t.grant
}

// Start creates the controlled threads; each runs its operations in order, parking before each one.
func (s *Sched) Start(ops [][]func()) {
	for i, o := range ops {
		t := &Thread{ID: i, Ops: o, grant: make(chan struct{})}
		t.point.Store("start")
		s.threads = append(s.threads, t)
	}
	for _, t := range s.threads {
		t := t
		ready := make(chan struct{})
		go func() {
			t.gid = gid()
			s.mu.Lock()
			s.byGID[t.gid] = t
			s.mu.Unlock()
			atomic.StoreInt32(&t.state, stParked)
			close(ready)
			<-t.grant
			for i, op := range t.Ops {
				if i > 0 {
					t.point.Store("op-boundary")
					s.park(t)
				}
				op()
			}
			atomic.StoreInt32(&t.state, stDone)
			select {
			case s.wake <- struct{}{}:
			default:
			}
		}()
		<-ready
	}
}

var lockWaits = [][]byte{[]byte("[sync.Mutex.Lock"), []byte("[sync.RWMutex.Lock"), []byte("[sync.RWMutex.RLock"), []byte("[semacquire")}

// blockedOnLock tells whether the goroutine is waiting for a mutex.
func blockedOnLock(g uint64, dump []byte) bool {
	key := []byte(fmt.Sprintf("goroutine %d [", g))
	i := bytes.Index(dump, key)
	if i < 0 {
		return false
	}
	line := dump[i:]
	if j := bytes.IndexByte(line, '\n'); j > 0 {
		line = line[:j]
	}
	for _, w := range lockWaits {
		if bytes.Contains(line, w) {
			return true
		}
	}
	return false
}

// settle waits until every thread is parked, done, or blocked on a lock. Returns false on a hang
// (some thread keeps running or waits for something that is not a lock for more than the timeout).
func (s *Sched) settle(timeout time.Duration) bool {
	deadline := time.Now().Add(timeout)
	spins := 0
	stable := 0
	var buf []byte
	for {
		running := false
		for _, t := range s.threads {
			if atomic.LoadInt32(&t.state) == stRunning {
				running = true
				break
			}
		}
		if !running {
			return true
		}
		spins++
		if spins < 200 {
			runtime.Gosched()
			continue
		}
		// some thread has been running for a while: is it waiting for a lock?
		if buf == nil {
			buf = make([]byte, 1<<16)
		}
		n := runtime.Stack(buf, true)
		for n == len(buf) {
			buf = make([]byte, 2*len(buf))
			n = runtime.Stack(buf, true)
		}
		allBlocked := true
		for _, t := range s.threads {
			if atomic.LoadInt32(&t.state) == stRunning && !blockedOnLock(t.gid, buf[:n]) {
				allBlocked = false
			}
		}
		if allBlocked {
			// a wait for a lock may be transient (a lock of the harness or one that another running thread is about
			// to release): only a wait that persists over several samples counts
			stable++
			if stable >= 3 {
				return true
			}
			time.Sleep(30 * time.Microsecond)
			continue
		}
		stable = 0
		if time.Now().After(deadline) {
			return false
		}
		select {
		case <-s.wake:
		case <-time.After(50 * time.Microsecond):
		}
	}
}

// Schedulable lists the threads parked at a yield point.
func (s *Sched) Schedulable() []*Thread {
	var en []*Thread
	for _, t := range s.threads {
		if atomic.LoadInt32(&t.state) == stParked {
			en = append(en, t)
		}
	}
	return en
}

func (s *Sched) AllDone() bool {
	for _, t := range s.threads {
		if atomic.LoadInt32(&t.state) != stDone {
			return false
		}
	}
	return true
}

// Run drives the threads to completion. choose picks an index into the schedulable threads at each
// step. It returns the choices made and the number of alternatives at each step.
func (s *Sched) Run(choose func(step int, en []*Thread) int) (choices, enabled []int, ok bool) {
	step := 0
	var stuckSince time.Time
	for {
		if !s.settle(3 * time.Second) {
			s.Deadlock = "a thread neither reached a yield point nor a lock within 3s (hang)"
			s.abandon()
			return choices, enabled, false
		}
		if s.AllDone() {
			return choices, enabled, true
		}
		en := s.Schedulable()
		if len(en) == 0 {
			// nobody is parked, so nobody can release a lock: a real deadlock persists, a transient wait does not
			if stuckSince.IsZero() {
				stuckSince = time.Now()
			}
			if time.Since(stuckSince) > 3*time.Second {
				s.Deadlock = "no thread is schedulable: all remaining threads have been waiting for locks for 3s (deadlock)"
				s.abandon()
				return choices, enabled, false
			}
			time.Sleep(100 * time.Microsecond)
			continue
		}
		stuckSince = time.Time{}
		c := choose(step, en)
		if c < 0 || c >= len(en) {
			c = 0
		}
		choices = append(choices, c)
		enabled = append(enabled, len(en))
		t := en[c]
		pt, _ := t.point.Load().(string)
		s.Points[pt] = true
		s.Trace = append(s.Trace, fmt.Sprintf("%d@%s", t.ID, pt))
		atomic.StoreInt32(&t.state, stRunning)
		t.grant <- struct{}{}
		step++
	}
}

// abandon releases every parked thread so that goroutines do not pile up after a failed run.
func (s *Sched) abandon() {
	for _, t := range s.threads {
		t := t
		go func() {
			for atomic.LoadInt32(&t.state) != stDone {
				select {
				case t.grant <- struct{}{}:
				case <-time.After(100 * time.Millisecond):
					return
				}
			}
		}()
	}
}

// TraceString renders the schedule as thread ids.
func (s *Sched) TraceString() string {
	var sb strings.Builder
	for _, t := range s.Trace {
		sb.WriteString(t[:strings.IndexByte(t, '@')])
	}
	return sb.String()
}

// Explore enumerates schedules by stateless DFS: run(prefix) executes one schedule following the
// prefix and then always the first alternative, and reports choices/alternatives; limit bounds the
// number of executions. visit is called after every execution; returning false stops.
func Explore(limit int, run func(prefix []int) (choices, enabled []int), visit func(choices []int) bool) (execs int, exhaustive bool) {
	stack := [][]int{nil}
	for len(stack) > 0 {
		if execs >= limit {
			return execs, false
		}
		prefix := stack[len(stack)-1]
		stack = stack[:len(stack)-1]
		choices, enabled := run(prefix)
		execs++
		if !visit(choices) {
			return execs, false
		}
		for i := len(prefix); i < len(choices); i++ {
			for alt := choices[i] + 1; alt < enabled[i]; alt++ {
				np := append(append([]int{}, choices[:i]...), alt)
				stack = append(stack, np)
			}
		}
	}
	return execs, true
}
